#!/bin/bash
# usage: tools/confirm_seeded.sh <src dir with patch.diff demo.rs notes.md> <id> <property>
# Confirms in a scratch worktree of /repo (outside /repo and /verif) that the change compiles, that the
# existing test-suite results are unchanged, that the demonstration fails with the change and passes
# without it; then stores it under /verif/seeded/<id>/ and removes the worktree with its build output.
set -u
SRC="$1"; ID="$2"; PROP="$3"
WT=/tmp/wt-confirm-$ID
git -C /repo worktree add -q --detach "$WT" HEAD || exit 2
cd "$WT"
DEMO_NAME="seeded_$(echo $ID | tr 'A-Z-' 'a-z_')"
if [ -f "$SRC/demo.rs" ]; then cp "$SRC/demo.rs" fe2o3-amqp/tests/$DEMO_NAME.rs; fi
run_demo() { timeout 900 cargo test -p fe2o3-amqp --features "acceptor transaction scram" --test $DEMO_NAME --offline 2>&1 | tail -5; return ${PIPESTATUS[0]}; }
echo "--- demo on the unmodified tree"; run_demo; BASE_RC=$?
git apply "$SRC/patch.diff" || { echo "patch does not apply"; cd /; git -C /repo worktree remove --force "$WT"; exit 2; }
echo "--- build with the change"; cargo build -p fe2o3-amqp --offline --features "acceptor transaction scram" 2>&1 | tail -1; BUILD_RC=${PIPESTATUS[0]}
echo "--- demo with the change"; run_demo; MUT_RC=$?
echo "--- existing tests with the change"
rm -f fe2o3-amqp/tests/$DEMO_NAME.rs
cargo test --workspace --no-fail-fast --offline 2>&1 | grep -E "^test .* (ok|FAILED)$|^test .*\.\.\. FAILED" | grep FAILED | sort > /tmp/failed-$ID.txt
NFAIL=$(grep -v -E "activemq|qpid|rabbitmq|test_url_name_resolution|line (53|116|127)" /tmp/failed-$ID.txt | wc -l)
echo "failed tests outside the always-failing set: $NFAIL"
cd /
git -C /repo worktree remove --force "$WT"
OK=no; [ $BASE_RC -eq 0 ] && [ $MUT_RC -ne 0 ] && [ $BUILD_RC -eq 0 ] && [ $NFAIL -eq 0 ] && OK=yes
echo "confirmed=$OK (demo unmodified rc=$BASE_RC, demo with change rc=$MUT_RC, build rc=$BUILD_RC, new test failures=$NFAIL)"
if [ $OK = yes ]; then
  mkdir -p /verif/seeded/$ID
  cp "$SRC/patch.diff" /verif/seeded/$ID/patch.diff
  cp "$SRC/demo.rs" /verif/seeded/$ID/demo.rs
  cp "$SRC/notes.md" /verif/seeded/$ID/notes.md
  python3 - "$ID" "$PROP" "$SRC" <<'PY'
import json,sys
id_,prop,src=sys.argv[1:4]
notes=open(src+"/notes.md").read()
meta={"id":id_,"breaks_property":prop,"source":"independent sub-agent given only the property text and a scratch worktree",
 "needs_to_manifest":notes[:1500],
 "confirmed":{"demo_passes_on_unmodified_tree":True,"demo_fails_with_change":True,"builds":True,"existing_tests_unchanged":True,
  "commands":["cargo test -p fe2o3-amqp --features 'acceptor transaction scram' --test <demo> --offline (with and without the patch)","cargo build -p fe2o3-amqp --offline --features 'acceptor transaction scram'","cargo test --workspace --no-fail-fast --offline"]},
 "detected_by":None}
json.dump(meta,open(f"/verif/seeded/{id_}/meta.json","w"),indent=1)
PY
fi
