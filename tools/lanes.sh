#!/bin/bash
# Parallel lanes for running the checks against stored seeded changes (or drills) without touching /repo:
# each lane is a scratch git worktree of /repo at /tmp/lanes/<k>/repo plus a copy of /verif (sources only)
# at /tmp/lanes/<k>/verif whose simulator crate points at that worktree. Development aid only: nothing a
# registered command needs lives here; the lanes are removed by `teardown`.
#   tools/lanes.sh setup [N]            create N lanes (default 4) and build each once
#   tools/lanes.sh run [tier] <ids...>  seeded ids (directory names under /verif/seeded, globs allowed); results to stdout
#   tools/lanes.sh patch <PROP> <patch> [tier]   run one arbitrary patch file against one property's check in lane 0
#   tools/lanes.sh drills [pattern]     every drill patch against its property, in the lanes
#   tools/lanes.sh teardown
set -u
ROOT="$(cd "$(dirname "$0")/.." && pwd)"
L=/tmp/lanes
sync_lane() { # $1 = lane dir
  rsync -a --delete --exclude target --exclude build.log "$ROOT/sim/" "$1/verif/sim/"
  sed -i "s#\"/repo/#\"$1/repo/#g" "$1/verif/sim/Cargo.toml"
  rsync -a "$ROOT/check" "$ROOT/known_findings.json" "$1/verif/"
  git -C "$1/repo" checkout -q --detach "$(git -C /repo rev-parse HEAD)" 2>/dev/null
  git -C "$1/repo" checkout -q -- . 2>/dev/null
}
case "${1:-}" in
setup)
  N="${2:-4}"; mkdir -p $L
  for k in $(seq 0 $((N-1))); do
    [ -d $L/$k/repo ] || git -C /repo worktree add -q --detach $L/$k/repo HEAD || exit 2
    mkdir -p $L/$k/verif/sim $L/$k/verif/evidence $L/$k/verif/replays
    sync_lane $L/$k
    [ -d $L/$k/verif/sim/target ] || cp -r "$ROOT/sim/target" $L/$k/verif/sim/target
  done
  for k in $(seq 0 $((N-1))); do ( cd $L/$k/verif/sim && CARGO_NET_OFFLINE=true cargo build --release --offline >/dev/null 2>&1; echo "lane $k built rc=$?" ) & done; wait ;;
run)
  shift; TIER=quick; case "${1:-}" in quick|thorough) TIER=$1; shift;; esac
  IDS=(); for a in "$@"; do for d in $ROOT/seeded/$a; do [ -d "$d" ] && IDS+=("$(basename $d)"); done; done
  LANES=($(ls $L)); NL=${#LANES[@]}
  for k in "${LANES[@]}"; do sync_lane $L/$k; done
  for i in "${!LANES[@]}"; do
    ( k=${LANES[$i]}; j=$i
      while [ $j -lt ${#IDS[@]} ]; do
        ID=${IDS[$j]}; D=$ROOT/seeded/$ID
        PROPS=$(python3 -c "import json;m=json.load(open('$D/meta.json'));print(' '.join([m['breaks_property']]+m.get('also_check',[])))")
        if ! git -C $L/$k/repo apply "$D/patch.diff" 2>/dev/null; then echo "$ID: patch no longer applies"; j=$((j+NL)); continue; fi
        for PROP in $PROPS; do
          OUT=$($L/$k/verif/check $PROP $TIER 2>&1); RC=$?
          KINDS=$(echo "$OUT" | grep '^  kind=' | sed 's/ ::.*//' | sed 's/^  //' | tr '\n' ';')
          echo "$ID: check $PROP $TIER exit=$RC $KINDS"
          [ $RC -eq 2 ] && echo "$OUT" | tail -5
          python3 - "$D/meta.json" "$PROP" "$RC" "$KINDS" "$TIER" <<'PY'
import json,sys
p,prop,rc,kinds,tier=sys.argv[1:6]
m=json.load(open(p))
rec={"check":f"./check {prop} {tier}","exit":int(rc),"violation_classes":[k for k in kinds.split(';') if k],"where":"scratch lane (tools/lanes.sh): a git worktree of /repo with the patch applied and a copy of /verif/sim built against it"}
if prop==m["breaks_property"]:
    m["detected_by"]=rec
else:
    m.setdefault("also_detected_by",{})[prop]=rec
json.dump(m,open(p,"w"),indent=1)
PY
        done
        git -C $L/$k/repo checkout -q -- .
        j=$((j+NL))
      done ) &
  done; wait ;;
drills)
  # every drill patch against the quick check of its property, in the lanes
  shift; PAT="${1:-}"
  DR=(); for d in $ROOT/drills/*${PAT}*.patch; do [ -e "$d" ] && DR+=("$d"); done
  LANES=($(ls $L)); NL=${#LANES[@]}
  for k in "${LANES[@]}"; do sync_lane $L/$k; done
  for i in "${!LANES[@]}"; do
    ( k=${LANES[$i]}; j=$i
      while [ $j -lt ${#DR[@]} ]; do
        P=${DR[$j]}; NAME=$(basename "$P" .patch); PROP=${NAME%%-*}
        if ! git -C $L/$k/repo apply "$P" 2>/dev/null; then echo "drill $NAME: PATCH DOES NOT APPLY"; j=$((j+NL)); continue; fi
        OUT=$($L/$k/verif/check $PROP quick 2>&1); RC=$?
        git -C $L/$k/repo checkout -q -- .
        if [ $RC -eq 1 ]; then echo "drill $NAME: detected ($(echo "$OUT" | grep -v '^KNOWN-FINDING' | grep -m1 'kind=' | sed 's/ ::.*//' | xargs))"; else echo "drill $NAME: NOT DETECTED (exit $RC)"; fi
        j=$((j+NL))
      done ) &
  done; wait ;;
patch)
  PROP="$2"; P="$(realpath "$3")"; TIER="${4:-quick}"; k=$(ls $L | head -1); sync_lane $L/$k
  git -C $L/$k/repo apply "$P" || exit 2
  $L/$k/verif/check $PROP $TIER; RC=$?
  git -C $L/$k/repo checkout -q -- .; exit $RC ;;
teardown)
  for k in $(ls $L 2>/dev/null); do git -C /repo worktree remove --force $L/$k/repo; done
  rm -rf $L; git -C /repo worktree prune ;;
*) echo "usage: lanes.sh setup [N] | run [tier] <ids...> | patch <PROP> <patch> [tier] | teardown"; exit 2 ;;
esac
