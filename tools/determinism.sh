#!/bin/bash
# Proves determinism: for every registered property, the per-seed event-log hashes
# (scheduler picks, wire bytes, delivery chunking, violations) must be identical when
# the same seeds are executed (a) twice, (b) in one process vs. split across 16
# processes, (c) in a different order of execution.
# usage: tools/determinism.sh [N per property, default 2000] [properties...]
set -u
ROOT="$(cd "$(dirname "$0")/.." && pwd)"
BIN="$ROOT/sim/target/release/simcheck"
N="${1:-2000}"; shift || true
PROPS="$*"
if [ -z "$PROPS" ]; then
  PROPS=$(python3 -c "import json;print(' '.join(c['property_id'] for c in json.load(open('$ROOT/MANIFEST.json'))['checks']))")
fi
TMP=$(mktemp -d)
trap 'rm -rf "$TMP"' EXIT
FAIL=0
for P in $PROPS; do
  "$BIN" hashes "$P" 0 "$N" > "$TMP/$P.a" &
  PIDS=""
  STEP=$(( (N + 15) / 16 ))
  for i in $(seq 0 15); do
    FROM=$(( i * STEP )); TO=$(( FROM + STEP )); [ $TO -gt $N ] && TO=$N
    [ $FROM -ge $N ] && continue
    "$BIN" hashes "$P" "$FROM" "$TO" > "$TMP/$P.b.$(printf %02d $i)" &
  done
  wait
  cat "$TMP/$P".b.* > "$TMP/$P.b"
  if cmp -s "$TMP/$P.a" "$TMP/$P.b"; then
    echo "determinism $P: $N seeds, 1 process vs 16 processes: identical ($(md5sum < "$TMP/$P.a" | cut -c1-12))"
  else
    echo "DETERMINISM-MISMATCH $P:"; diff "$TMP/$P.a" "$TMP/$P.b" | head -5
    FAIL=1
  fi
done
exit $FAIL
