#!/bin/bash
# Runs the quick check of the broken property against every stored seeded change
# (/verif/seeded/<id>/patch.diff applied to /repo and reverted straight afterwards) and records the
# result in meta.json ("detected_by"). usage: tools/seeded.sh [id-pattern]
set -u
ROOT="$(cd "$(dirname "$0")/.." && pwd)"
PAT="${1:-}"
if [ -n "$(git -C /repo status --porcelain --untracked-files=no)" ]; then echo "/repo not clean"; exit 2; fi
for D in "$ROOT"/seeded/*${PAT}*/; do
  ID=$(basename "$D"); PROP=$(python3 -c "import json;print(json.load(open('$D/meta.json'))['breaks_property'])")
  if ! git -C /repo apply "$D/patch.diff" 2>/dev/null; then echo "$ID: patch no longer applies to the current tree"; continue; fi
  OUT=$("$ROOT/check" "$PROP" quick 2>&1); RC=$?
  git -C /repo checkout -- .
  KINDS=$(echo "$OUT" | grep '^  kind=' | sed 's/ ::.*//' | sed 's/^  //' | tr '\n' ';')
  echo "$ID: check $PROP exit=$RC $KINDS"
  python3 - "$D/meta.json" "$PROP" "$RC" "$KINDS" <<'PY'
import json,sys
p,prop,rc,kinds=sys.argv[1:5]
m=json.load(open(p))
m["detected_by"]={"check":f"./check {prop} quick","exit":int(rc),"violation_classes":[k for k in kinds.split(';') if k]}
json.dump(m,open(p,"w"),indent=1)
PY
done
(cd "$ROOT/sim" && cargo build --release --offline >/dev/null 2>&1)
