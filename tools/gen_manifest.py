#!/usr/bin/env python3
"""Regenerates /verif/MANIFEST.json from the table below. Run after adding a check."""
import json, os, subprocess, sys

ROOT = os.path.dirname(os.path.dirname(os.path.abspath(__file__)))

TECH = "deterministic simulation with fault injection: seeded search over schedules, configurations, network behaviour and fault sequences; real endpoints under a simulator-owned executor, virtual clock and in-memory transport"

# id -> (level category, level text, level note, technique suffix, design ref)
CLAIMED = {
    "C01": ("exploration",
            "Seeded search: each run is one seeded configuration x workload x network behaviour x task schedule of a real client and a real listener joined by the simulated transport; every received message is compared (structure and re-encoded bytes) with a FIFO reference model per link, and every operation must complete within a virtual deadline. A clean batch is evidence, not proof; reach probes and seeded-fault drills (DESIGN 2.11) say what the batch reached.",
            "Trusted: the simulator (executor, SimStream, choice stream), tokio's paused clock, and the crate's own message encoder as the definition of 'the bytes the sender serialised'. Assumes the connection stays up, as the property states.",
            "FIFO reference model per link over a real client/listener pair", "3 C01"),
    "C02": ("exploration",
            "Seeded search over disposition histories: (a) a real sender keeps many plain and batchable deliveries in flight while a real receiver applies a seeded, distinguishable outcome to each (one by one, in *_all batches, out of order, through the disposer, late) under every settle-mode combination; (b) real senders on 1-3 links face a scripted receiver that issues single-id, range (also spanning links), duplicate, non-terminal-first, unsettled-then-settled and unknown-id dispositions interleaved with further sends. Every send must resolve exactly once with the outcome planned for that very delivery (pre-settled sends: accepted at once); in rcv-settle-mode second the wire must show the sender's settling disposition for every delivery-id the receiver reported a terminal outcome for, and no side may keep reporting on a delivery that was sent settled.",
            "Trusted: the simulator, refcodec. Retention in the unsettled maps is judged through its visible effects on the wire and on resolved sends, not through the resume path.",
            "per-delivery settlement model: planned outcome vs resolved future, settling echo on the wire", "3 C02"),
    "C07": ("exploration",
            "Seeded search over window histories: a real client session runs against a scripted peer that plays the receiving session end and issues seeded flow frames (window 0, shrinking windows, unset next-incoming-id, echo) while 1-3 real sender links push single- and multi-frame transfers; initial next-outgoing-id values include those within a window of 2^31 and 2^32. The wire monitor checks every transfer frame against the windows the peer had advertised (serial arithmetic; strict after simulator-proven quiescence), every reported next-outgoing-id/next-incoming-id against counted frames, and the scenario checks that held transfers come out exactly once, in order, unchanged, and all of them within a virtual deadline after the final window opening.",
            "Trusted: the simulator, the independent frame splitter/codec (refcodec), tokio's paused clock. In-flight rule: a transfer is accepted if it fits any window statement not provably superseded, so races between flows and transfers in flight never alarm.",
            "window reference model on the wire + bounded-liveness drain against a scripted session peer", "3 C07"),
    "C08": ("exploration",
            "Seeded search over flow histories and schedules: a real Sender (client side and listener side) runs against a scripted receiver that grants, reduces, drains and echoes credit in seeded steps; initial delivery-counts include values near 2^31 and 2^32. The wire monitor checks that every delivery started under a grant the receiver had made (serial arithmetic, one credit per delivery however many frames; strict after simulator-proven quiescence), drain requests must be answered with zero credit and the delivery-count at the limit, and after a final sufficient grant the peer goes silent and every send must complete within a virtual deadline. Schedule point H2 makes the multi-thread window between the failed credit check and the start of the wait an explorable choice.",
            "Trusted: the simulator, refcodec, tokio's paused clock. H2 is the only intra-poll preemption point explored. In-flight rule for credit as for windows.",
            "credit reference model on the wire + 'granted => completes with the peer silent' under schedule point H2", "3 C08"),
    "C09": ("exploration",
            "Seeded search over credit policies, disposal orders and sender behaviours: a real Receiver (client side and listener side) runs against a scripted sender that stays within credit, goes exactly to the limit or overruns it, in single- and multi-frame deliveries, and occasionally restates its delivery-count. Every flow the receiver writes is checked against the delivery-count last learnt from the sender plus the deliveries completed since (feasible prefix while traffic flows, exact at quiescence) and against the credit the application asked for; a delivery beyond the issued credit must surface as the transfer-limit error and never as a delivery; with automatic credit and an application that disposes of what it receives a stream of 3n+7 deliveries must complete within a virtual deadline.",
            "Trusted: the simulator, refcodec, tokio's paused clock. Replenishment is only demanded when the application disposes of every delivery (the code replenishes on disposal).",
            "delivery-count/credit reference model, overrun => error not delivery, long-stream bounded liveness against a scripted sender", "3 C09"),
    "C10": ("exploration",
            "Seeded search over fragmentations: a scripted sender splits each encoded message into 1-7 transfer frames at seeded offsets (uniform and biased into section headers, length fields, first/last bytes, empty frames), varies which optional fields continuation frames repeat, interleaves a delivery on a second link, aborts at seeded positions, and in one run out of five contradicts a continuation field. At simulator-proven quiescence after each non-final frame the application must have received nothing; after the final frame exactly one message, byte-equal after re-encoding; an aborted delivery yields nothing and the next one is intact; a contradiction must end in an error, never in a message. Client-side and listener-side receivers.",
            "Trusted: the simulator, refcodec, the crate's encoder as the source of the message bytes that are being fragmented.",
            "exactly-once byte-exact message at the last frame only, against a scripted fragmenting sender", "3 C10"),
    "C12": ("exploration",
            "Seeded search over local actions x peer behaviours x times: a real client connection and a real listener connection each face a scripted peer that opens at once, late or pipelined, closes with or without error at a seeded moment, sends frames that are illegal in the current state (begin with unknown remote-channel, end/attach on an unmapped channel, second open, a begin before the open), floods empty frames, goes silent, or cuts the stream, while the application closes, closes with error, drops the handle, begins and ends a session or just waits, with and without idle time-outs (heartbeats). The connection state machine is checked on the bytes the endpoint wrote - header first, open first and once, at most one close, nothing after it, peer close answered, illegal frame answered by a close that carries an error and not acted upon - and on the API results (clean close => Ok when the endpoint closed first / RemoteClosed when the peer did; peer's error reported).",
            "Trusted: the simulator, refcodec. With a silent peer API calls may stay pending (no clause bounds them). The flush-before-close clause is exercised by C13's queued-frame workloads.",
            "connection state machine reference model on the written bytes + API result model against a scripted peer", "3 C12"),
    "C13": ("exploration",
            "Seeded search over lifecycle sequences on a real client/listener pair: 1-3 concurrent sessions, each with 1-4 link lifetimes (sender or receiver, 0-4 single- or multi-frame messages) torn down by close, non-closing detach, close_with_error, drop of the handle, or by the peer closing first; names re-used after an awaited teardown, duplicate-name attempts, and session teardown by end, end_with_error or drop. Wire models: one begin, at most one end and nothing on the channel afterwards; one attach, at most one detach per attach and nothing for the handle afterwards; frames only for attached handles. API oracles: every teardown call returns, returns Ok only after the peer's answer is on the wire, detaches are answered in kind, the error carried by a detach reaches the peer application, what the application had handed over before the teardown reaches the peer, sibling sessions and the connection survive (final close is clean).",
            "Trusted: the simulator, refcodec. Configurations of C01's circular-wait finding are excluded. Peer refusals and unsolicited teardown by a scripted peer are exercised by C14's peer-initiated variants.",
            "per-channel / per-handle lifecycle reference models on the wire + API result model over a real pair", "3 C13"),
    "C11": ("exploration",
            "The lifecycle workload of C13 (sessions x link lifetimes x teardown kinds, names re-used after detach, duplicate names, concurrent sessions, deliveries split by both splitting layers) judged on identifiers and routing: delivery-ids strictly increasing per session and equal-or-absent on continuation frames (wire model), no two attached links of a session share a handle, no two live sessions a channel, a name attached at most once per session and a refused duplicate writes nothing, handles/channels re-used only after detach/end (wire models), and every message - which carries (link, generation, sequence) - comes out of the receiving link that the handle designates, in order.",
            "Trusted: the simulator, refcodec. Peers that pick sparse, large or crosswise handle and channel numbers are exercised by the scripted scenarios of C07-C10 (peer handles 9, 1000, 4000, 90000; channels 3, 200).",
            "identifier and routing reference models on the wire + tagged-message routing over a real pair", "3 C11"),
    "C17": ("exploration",
            "Seeded search on virtual time: (a) a real pair with channel-max values from {0,1,2,7,255,65535} on either side begins sessions up to and beyond the agreed limit, ends one at the limit and begins again - no begin frame may appear on a channel above min(local, remote), the excess begin must fail locally with the channel-max error and write nothing, the ended channel must be usable again; (b) a real client or listener faces a scripted peer advertising an idle time-out from {unset,0,1,50,333,1000,60000,2^32-1} ms for 8-38 periods with or without application traffic - gaps between consecutive frames at the transport tap must not exceed the advertised value; (c) a real client or listener with its own idle time-out T receives frames with gaps of T/8..7T/8 (optionally a last gap of T-delta), then silence - it must stay up while frames arrive in time and must tear the connection down and report the idle time-out within (T, 3T+5s] of silence.",
            "Trusted: the simulator, tokio's paused clock (1 ms timer resolution), refcodec. A gap equal to the advertised value (+3 ms) is accepted because the heartbeat period equals the advertised value; silence of exactly T is never generated.",
            "limit reference models on virtual time (frame-gap measurement at the tap, teardown iff silence > T) and channel-number model on the wire", "3 C17"),
    "C14": ("fault_enumeration",
            "Enumeration of cut points crossed with seeded schedules: (a) per seed (= network behaviour and task schedule) a fixed reference conversation of a real client and a real listener (open, two sessions, an unsettled sender with three batchable sends - one multi-frame - and a plain send, a receiver taking two deliveries, dispositions, detach, close, two ends, close) is run once for every byte offset of either direction (0..=2000 client->listener, 0..=720 listener->client; the conversation is 1935 and 680 bytes long) and each of three cut kinds (EOF, reset, stall then EOF); the cut plan is the run's enumeration case, outside the choice stream, so all runs of a seed share their prefix. Both applications carry on with their scripts whatever each call returns. (b) per seed one run of a real client against a scripted peer that closes, ends, detaches (closing and non-closing) with or without an error after a seeded number of frames while the application has batchable sends, outcomes or a recv pending. Oracles: every call completes within a virtual deadline and nothing panics; data-path calls issued after the failure was certainly processed fail; late attach/begin errors name the stop; connection.close() returns Ok only if both close frames crossed the wire before the cut; the peer's error description is carried by every failing link operation (session/connection stop) or by the first link method that notices (detach), and by session.end()/connection.close(); all engine tasks of both endpoints have terminated at the end.",
            "Trusted: the simulator, refcodec. Exhaustive over offsets x kinds for the reference conversation per seed; the seeds (schedules, fragmentations) are sampled. A call that returns Ok after the cut is accepted when it raced the failure. The error-level check is by name of the error variants (Debug rendering).",
            "cut-point enumeration over a reference conversation + scripted peer-initiated stops; completion, error-content and task-termination oracles", "3 C14"),
    "C15": ("exploration",
            "Seeded search over victim side x endpoint state x hostile action x configuration x schedule: a real client or a real listener is brought by a scripted peer into one of four states (open only; session; session with a sender and a receiver link; links with a partial incoming delivery and two unsettled outgoing deliveries), optionally with the application's close under way, and the peer then does one hostile thing from a catalogue of 35 - ill-formed bytes (frame sizes 0..7, doff 0/1/3/200/255, unknown frame types, sizes beyond the endpoint's max-frame-size up to 2^32-1 with and without EOF, random bodies, 1-4 bit flips in valid frames, lists nested up to 20000 deep, truncation then EOF, unknown descriptors, wrong field types, extended headers, floods of empty frames, a SASL frame) and protocol violations (transfers beyond credit and beyond the session window, dispositions over ranges up to the whole sequence space and over unknown ids, flow/transfer/detach for unattached and huge handles, duplicate attach by name and by handle, frames on unmapped channels, begin on a channel in use or naming an unknown remote channel, second open, delivery-ids going backwards, continuation with another id, transfer without id, detach twice, end twice, flows with extreme values, transfer to a sender, frames after close) - and afterwards behaves well again. Oracles: no task panics, the worker does not abort, no task poll exceeds 20 s, no spin, every call the application then makes on every handle returns within a virtual deadline (data-path calls on a scope the endpoint shut down must fail), a connection left up still serves a fresh session, a shutdown with an error on the wire (or a dropped transport) is reported by some call and by connection.close(), all engine tasks of the attacked connection terminate, and a healthy client/listener pair running in the same process completes its six deliveries untouched.",
            "Trusted: the simulator, refcodec. One hostile action per run. 'Work out of proportion' is decided by the per-poll stall watchdog (20 s of wall time; the defect found took 76 s) and the spin detector (200k steps without progress), not by a cost model. Sends on a link that is still up may stay pending for lack of credit (bounded, not judged).",
            "catalogue of hostile byte strings and protocol violations crossed with endpoint states; crash / stall / hang / error-visibility oracles and an untouched bystander connection", "3 C15"),
    "C16": ("fault_enumeration",
            "Enumeration of drop points crossed with seeded schedules: a recv or send future of a real link (client side of a real client/listener pair) is polled k times and then dropped - right after its k-th poll returned Pending, or at the next wake-up before it is polled again. Enumerated variants: per seed (configuration incl. link->session channel capacity 1/2/3/8/2048, credit policy, auto-accept on/off, six messages of 1-4 frames at max-frame-size 512, optional link-level splitting, network behaviour, schedule) one run for every (operation j, k in 1..=12, drop mode); select-loop variants: every recv (two sends out of three) goes through a seeded cancel-and-retry loop with a ticker. Oracles: the deliveries returned by the completed recv calls are exactly the messages sent, in order, byte-equal after re-encoding, nothing afterwards, and the sending peer sees every delivery settled; on the send side every message whose send completed arrives, a cancelled message arrives at most once and intact, arrivals follow the sending order, the wire models (one delivery at a time per link, continuation frames consistent) hold, and every later send completes within a virtual deadline (not starved of credit).",
            "Trusted: the simulator, refcodec, observation hooks H4/H5 (used only to attribute a failure to a recorded finding). 'Every await point' is reached as 'every k until completion' under the seeded schedules and channel capacities; await points that only pend under conditions the workload does not create are not reached. Three genuine defects are recorded as known findings (DESIGN section 5); any failure outside their observed preconditions is reported.",
            "drop-point enumeration (future polled k times, then dropped) + exactly-once in-order delivery model and bounded-liveness of later operations", "3 C16"),
    "C06": ("exploration",
            "Seeded search over frames x frame sizes x stream fragmentations: two real Transports are joined by the simulated stream; the sender is given every performative kind with seeded field subsets and transfers (delivery-tags of 0..32 bytes, both values of the more flag) whose payloads are 0 bytes, below one frame, and within +-80 bytes of 1-4 frame body sizes, for max-frame-sizes 512..65536; the stream has seeded write capacity, chunked delivery (down to one byte, borders inside the 8-byte header) and short reads. An independent splitter and codec judge the tap: complete frames only, none larger than the peer's max-frame-size, each decoding to the performative that was sent, continuation payloads concatenating to the original with more set on all but the last frame and the original more flag on the last; the receiving Transport must yield the same frames whatever the fragmentation. One run in five replays the end-to-end pair workload under the frame-size and decodability models.",
            "Trusted: the simulator, refcodec. The expected performative value is obtained by decoding the crate's own encoding with the independent codec (C06 judges framing and splitting, not the value codec).",
            "independent frame splitter + codec over the tap, chunking-independence of the receiving transport", "3 C06"),
}

NOT_APPLICABLE = {
    "C03": "pure input/output relation (decode(encode(x)) == x): no schedule, clock, stream, peer or fault in the statement or its quantifier; generating values and comparing is property-based testing, not simulation (DESIGN section 4)",
    "C05": "pure input/output relation against the specification: quantifier is over inputs only; nothing for a scheduler, clock, transport or fault injector to decide (DESIGN section 4)",
}

def main():
    props = [json.loads(l) for l in open(os.path.join(ROOT, "properties.jsonl"))]
    def repo_commits():
        out = subprocess.run(["git", "-C", "/repo", "log", "--format=%H %s"], capture_output=True, text=True).stdout
        return [l.split()[0] for l in out.splitlines() if "verif hook" in l]
    checks = []
    na = []
    for p in props:
        pid = p["id"]
        if pid in CLAIMED:
            cat, text, note, tech, ref = CLAIMED[pid]
            checks.append({
                "property_id": pid,
                "quick_cmd": f"./check {pid} quick",
                "thorough_cmd": f"./check {pid} thorough",
                "evidence_file": f"/verif/evidence/{pid}.json",
                "replay_cmd_template": f"./check {pid} --replay {{path}}",
                "engine": "simcheck",
                "level_claimed": {"category": cat, "text": text, "design_ref": f"DESIGN.md section {ref}"},
                "level_note": note,
                "technique": f"{TECH}; oracle: {tech}",
            })
        elif pid in NOT_APPLICABLE:
            na.append({"property_id": pid, "reason": NOT_APPLICABLE[pid]})
        else:
            na.append({"property_id": pid, "reason": "not claimed yet: the simulated scenario and oracle for this property are still under construction in /verif/sim (see DESIGN.md section 3 for the design); no check is registered until its drill fails on a broken tree and passes on the unchanged one"})
    manifest = {
        "version": 1,
        "setup_cmd": "cd /verif/sim && CARGO_NET_OFFLINE=true cargo build --release --offline",
        "hooks": {
            "guard": "fe2o3_amqp_verif",
            "enable": "rustc --cfg fe2o3_amqp_verif, set only in /verif/sim/.cargo/config.toml (build.rustflags); /repo's own manifests never enable it",
            "baseline_off_cmd": "cd /repo && cargo test --workspace --no-fail-fast --offline",
            "source_commits": repo_commits(),
            "add_only": True,
        },
        "engines": [{
            "name": "simcheck",
            "path": "/verif/sim",
            "serves_properties": sorted(CLAIMED.keys()),
            "kind_free_text": "deterministic simulator: simulator-owned single-threaded executor inside a paused-clock tokio runtime, seeded choice stream with replay and choice-sequence minimisation, in-memory transport with fault injection, independent wire monitor, scripted peer",
        }],
        "checks": checks,
        "not_applicable": na,
        "notes": "Every check rebuilds /verif/sim against /repo's working tree (path dependencies) with the hook guard on. Exit 0 = held on everything explored, 1 = VIOLATION line with a replay file, 2 = harness error. Known findings: /verif/known_findings.json. VERIF_SEED selects the base seed (default 1).",
    }
    json.dump(manifest, open(os.path.join(ROOT, "MANIFEST.json"), "w"), indent=1)
    print("wrote MANIFEST.json:", len(checks), "checks,", len(na), "not_applicable")

if __name__ == "__main__":
    main()
