#!/bin/bash
# Sensitivity drills: every /verif/drills/<Cxx>-*.patch is a deliberate, compiling break of
# property Cxx. Each is applied to /repo, the property's quick check must exit 1, and the
# patch is reverted straight afterwards. /repo must be clean before and is clean after.
# usage: tools/drills.sh [pattern]
set -u
ROOT="$(cd "$(dirname "$0")/.." && pwd)"
PAT="${1:-}"
if [ -n "$(git -C /repo status --porcelain --untracked-files=no)" ]; then
  echo "drills: /repo has uncommitted changes; refusing to run"; exit 2
fi
FAIL=0
for P in "$ROOT"/drills/*${PAT}*.patch; do
  [ -e "$P" ] || continue
  NAME=$(basename "$P" .patch); PROP=${NAME%%-*}
  if ! git -C /repo apply "$P" 2>/dev/null; then echo "drill $NAME: PATCH DOES NOT APPLY"; FAIL=1; continue; fi
  OUT=$("$ROOT/check" "$PROP" quick 2>&1); RC=$?
  git -C /repo checkout -- . 
  if [ $RC -eq 1 ]; then
    echo "drill $NAME: detected ($(echo "$OUT" | grep -v '^KNOWN-FINDING' | grep -m1 'kind=' | sed 's/ ::.*//' | xargs))"
  else
    echo "drill $NAME: NOT DETECTED (exit $RC)"; FAIL=1
  fi
done
# rebuild against the pristine tree so that later runs do not pay for it
(cd "$ROOT/sim" && cargo build --release --offline >/dev/null 2>&1)
exit $FAIL
