//! ScriptedPeer: an AMQP 1.0 speaker built on `refcodec`, driven by a scenario
//! script. It writes exactly the bytes the script asks for (legal or not) and
//! parses what the real endpoint under test writes.

use std::collections::VecDeque;

use tokio::io::{AsyncReadExt, AsyncWriteExt};

use crate::net::SimStream;
use crate::refcodec::{self, described, trim_nulls, V};
use crate::sim;
use crate::wire::{self, Item, WFrame};

pub const AMQP_HEADER: [u8; 8] = [b'A', b'M', b'Q', b'P', 0, 1, 0, 0];
pub const SASL_HEADER: [u8; 8] = [b'A', b'M', b'Q', b'P', 3, 1, 0, 0];

pub struct Peer {
    pub name: &'static str,
    stream: SimStream,
    rbuf: Vec<u8>,
    pub eof: bool,
    pub read_error: Option<String>,
    pub write_error: Option<String>,
    /// everything received so far, in order (also returned by recv)
    pub received: Vec<Item>,
    queue: VecDeque<Item>,
    /// frames received but skipped by `expect*` helpers
    pub skipped: Vec<WFrame>,
}

pub fn frame_bytes(ftype: u8, channel: u16, body: &[u8]) -> Vec<u8> {
    let size = 8 + body.len();
    let mut out = Vec::with_capacity(size);
    out.extend_from_slice(&(size as u32).to_be_bytes());
    out.push(2);
    out.push(ftype);
    out.extend_from_slice(&channel.to_be_bytes());
    out.extend_from_slice(body);
    out
}

pub fn perf_frame(channel: u16, perf: &V, payload: &[u8]) -> Vec<u8> {
    let mut body = refcodec::encode(perf);
    body.extend_from_slice(payload);
    frame_bytes(0, channel, &body)
}

fn parse_item(buf: &[u8]) -> Result<Option<(usize, Item)>, String> {
    if buf.len() < 8 {
        return Ok(None);
    }
    if &buf[..4] == b"AMQP" {
        return Ok(Some((8, Item::Header(buf[..8].try_into().unwrap()))));
    }
    let size = u32::from_be_bytes(buf[..4].try_into().unwrap()) as usize;
    if size < 8 {
        return Err(format!("frame size {} < 8", size));
    }
    if buf.len() < size {
        return Ok(None);
    }
    let fr = &buf[..size];
    let doff = fr[4];
    let body_start = doff as usize * 4;
    if doff < 2 || body_start > size {
        return Err(format!("bad doff {}", doff));
    }
    let body = &fr[body_start..];
    let mut frame = WFrame {
        size: size as u32,
        doff,
        ftype: fr[5],
        channel: u16::from_be_bytes([fr[6], fr[7]]),
        perf: None,
        code: 0,
        payload: vec![],
        undecodable: None,
    };
    if !body.is_empty() {
        match refcodec::decode(body) {
            Ok((v, used)) => {
                frame.code = v.descriptor_code().unwrap_or(0);
                frame.payload = body[used..].to_vec();
                frame.perf = Some(v);
            }
            Err(e) => frame.undecodable = Some(format!("{:?}", e)),
        }
    }
    Ok(Some((size, Item::Frame(frame))))
}

impl Peer {
    pub fn new(name: &'static str, stream: SimStream) -> Self {
        Peer {
            name,
            stream,
            rbuf: Vec::new(),
            eof: false,
            read_error: None,
            write_error: None,
            received: Vec::new(),
            queue: VecDeque::new(),
            skipped: Vec::new(),
        }
    }

    pub async fn send_raw(&mut self, bytes: &[u8]) -> bool {
        if self.write_error.is_some() {
            return false;
        }
        match self.stream.write_all(bytes).await {
            Ok(()) => true,
            Err(e) => {
                self.write_error = Some(format!("{:?}", e.kind()));
                false
            }
        }
    }

    pub async fn send_header(&mut self, header: [u8; 8]) -> bool {
        self.send_raw(&header).await
    }

    pub async fn send(&mut self, channel: u16, perf: &V) -> bool {
        crate::trace!("PEER {} sends ch{} {}{:?}", self.name, channel, wire::perf_name(perf.descriptor_code().unwrap_or(0)), perf.fields());
        self.send_raw(&perf_frame(channel, perf, &[])).await
    }

    pub async fn send_with_payload(&mut self, channel: u16, perf: &V, payload: &[u8]) -> bool {
        crate::trace!(
            "PEER {} sends ch{} {}{:?} payload={}B",
            self.name,
            channel,
            wire::perf_name(perf.descriptor_code().unwrap_or(0)),
            perf.fields(),
            payload.len()
        );
        self.send_raw(&perf_frame(channel, perf, payload)).await
    }

    pub async fn send_sasl(&mut self, perf: &V) -> bool {
        crate::trace!("PEER {} sends sasl {:?}", self.name, perf);
        let body = refcodec::encode(perf);
        self.send_raw(&frame_bytes(1, 0, &body)).await
    }

    pub async fn send_empty(&mut self) -> bool {
        self.send_raw(&frame_bytes(0, 0, &[])).await
    }

    pub async fn shutdown(&mut self) {
        let _ = self.stream.shutdown().await;
    }

    /// Next header or frame; None on EOF / read error / malformed input
    pub async fn recv(&mut self) -> Option<Item> {
        if let Some(i) = self.queue.pop_front() {
            return Some(i);
        }
        loop {
            match parse_item(&self.rbuf) {
                Ok(Some((n, item))) => {
                    self.rbuf.drain(..n);
                    self.received.push(item.clone());
                    return Some(item);
                }
                Ok(None) => {}
                Err(e) => {
                    self.read_error = Some(format!("malformed: {}", e));
                    return None;
                }
            }
            if self.eof || self.read_error.is_some() {
                return None;
            }
            let mut tmp = [0u8; 4096];
            match self.stream.read(&mut tmp).await {
                Ok(0) => {
                    self.eof = true;
                    return None;
                }
                Ok(n) => self.rbuf.extend_from_slice(&tmp[..n]),
                Err(e) => {
                    self.read_error = Some(format!("{:?}", e.kind()));
                    return None;
                }
            }
        }
    }

    /// Next frame within `ms` virtual milliseconds
    pub async fn recv_within(&mut self, ms: u64) -> Option<Item> {
        match tokio::time::timeout(std::time::Duration::from_millis(ms), self.recv()).await {
            Ok(x) => x,
            Err(_) => None,
        }
    }

    pub fn unread(&mut self, item: Item) {
        self.queue.push_front(item);
    }

    /// Wait (bounded) for a frame with the given performative code; frames of other
    /// kinds are collected in `skipped` (and still in `received`). None = EOF or deadline.
    pub async fn expect(&mut self, code: u64) -> Option<WFrame> {
        let deadline = tokio::time::Instant::now() + sim::OP_DEADLINE;
        loop {
            let left = deadline.saturating_duration_since(tokio::time::Instant::now());
            if left.is_zero() {
                return None;
            }
            match tokio::time::timeout(left, self.recv()).await {
                Ok(Some(Item::Frame(f))) => {
                    if f.perf.is_some() && f.code == code && f.ftype == 0 {
                        return Some(f);
                    }
                    self.skipped.push(f);
                }
                Ok(Some(Item::Header(_))) => {}
                Ok(None) => return None,
                Err(_) => return None,
            }
        }
    }

    pub async fn expect_header(&mut self) -> Option<[u8; 8]> {
        match tokio::time::timeout(sim::OP_DEADLINE, self.recv()).await {
            Ok(Some(Item::Header(h))) => Some(h),
            Ok(Some(other)) => {
                self.unread(other);
                None
            }
            _ => None,
        }
    }

    /// Drain whatever arrives for `ms` virtual milliseconds
    pub async fn drain_for(&mut self, ms: u64) -> Vec<WFrame> {
        let deadline = tokio::time::Instant::now() + std::time::Duration::from_millis(ms);
        let mut out = Vec::new();
        loop {
            let left = deadline.saturating_duration_since(tokio::time::Instant::now());
            if left.is_zero() {
                break;
            }
            match tokio::time::timeout(left, self.recv()).await {
                Ok(Some(Item::Frame(f))) => out.push(f),
                Ok(Some(_)) => {}
                Ok(None) => break,
                Err(_) => break,
            }
        }
        out
    }
}

// ---------------------------------------------------------------------------------------
// Performative constructors (fields by position, trailing nulls trimmed)

pub fn sym(s: &str) -> V {
    V::Sym(s.to_string())
}

pub fn open(container: &str, max_frame_size: Option<u32>, channel_max: Option<u16>, idle: Option<u32>) -> V {
    described(
        wire::OPEN,
        trim_nulls(vec![
            V::Str(container.into()),
            V::Null,
            max_frame_size.map(V::Uint).unwrap_or(V::Null),
            channel_max.map(V::Ushort).unwrap_or(V::Null),
            idle.map(V::Uint).unwrap_or(V::Null),
        ]),
    )
}

pub fn begin(remote_channel: Option<u16>, next_outgoing_id: u32, incoming_window: u32, outgoing_window: u32) -> V {
    described(
        wire::BEGIN,
        vec![
            remote_channel.map(V::Ushort).unwrap_or(V::Null),
            V::Uint(next_outgoing_id),
            V::Uint(incoming_window),
            V::Uint(outgoing_window),
        ],
    )
}

pub fn source(addr: Option<&str>) -> V {
    described(0x28, trim_nulls(vec![addr.map(|a| V::Str(a.into())).unwrap_or(V::Null)]))
}

pub fn target(addr: Option<&str>) -> V {
    described(0x29, trim_nulls(vec![addr.map(|a| V::Str(a.into())).unwrap_or(V::Null)]))
}

#[derive(Clone, Debug)]
pub struct AttachArgs {
    pub name: String,
    pub handle: u32,
    /// role of the peer: true = receiver
    pub receiver: bool,
    pub snd_settle_mode: Option<u8>,
    pub rcv_settle_mode: Option<u8>,
    pub source: V,
    pub target: V,
    pub unsettled: V,
    pub initial_delivery_count: Option<u32>,
    pub max_message_size: Option<u64>,
}

impl AttachArgs {
    pub fn sender(name: &str, handle: u32) -> Self {
        AttachArgs {
            name: name.into(),
            handle,
            receiver: false,
            snd_settle_mode: None,
            rcv_settle_mode: None,
            source: source(Some("q")),
            target: target(Some("q")),
            unsettled: V::Null,
            initial_delivery_count: Some(0),
            max_message_size: None,
        }
    }
    pub fn receiver(name: &str, handle: u32) -> Self {
        AttachArgs {
            receiver: true,
            initial_delivery_count: None,
            ..Self::sender(name, handle)
        }
    }
}

pub fn attach(a: &AttachArgs) -> V {
    described(
        wire::ATTACH,
        trim_nulls(vec![
            V::Str(a.name.clone()),
            V::Uint(a.handle),
            V::Bool(a.receiver),
            a.snd_settle_mode.map(V::Ubyte).unwrap_or(V::Null),
            a.rcv_settle_mode.map(V::Ubyte).unwrap_or(V::Null),
            a.source.clone(),
            a.target.clone(),
            a.unsettled.clone(),
            V::Null,
            a.initial_delivery_count.map(V::Uint).unwrap_or(V::Null),
            a.max_message_size.map(V::Ulong).unwrap_or(V::Null),
        ]),
    )
}

#[derive(Clone, Debug, Default)]
pub struct FlowArgs {
    pub next_incoming_id: Option<u32>,
    pub incoming_window: u32,
    pub next_outgoing_id: u32,
    pub outgoing_window: u32,
    pub handle: Option<u32>,
    pub delivery_count: Option<u32>,
    pub link_credit: Option<u32>,
    pub available: Option<u32>,
    pub drain: Option<bool>,
    pub echo: Option<bool>,
}

pub fn flow(f: &FlowArgs) -> V {
    described(
        wire::FLOW,
        trim_nulls(vec![
            f.next_incoming_id.map(V::Uint).unwrap_or(V::Null),
            V::Uint(f.incoming_window),
            V::Uint(f.next_outgoing_id),
            V::Uint(f.outgoing_window),
            f.handle.map(V::Uint).unwrap_or(V::Null),
            f.delivery_count.map(V::Uint).unwrap_or(V::Null),
            f.link_credit.map(V::Uint).unwrap_or(V::Null),
            f.available.map(V::Uint).unwrap_or(V::Null),
            f.drain.map(V::Bool).unwrap_or(V::Null),
            f.echo.map(V::Bool).unwrap_or(V::Null),
        ]),
    )
}

#[derive(Clone, Debug, Default)]
pub struct TransferArgs {
    pub handle: u32,
    pub delivery_id: Option<u32>,
    pub delivery_tag: Option<Vec<u8>>,
    pub message_format: Option<u32>,
    pub settled: Option<bool>,
    pub more: Option<bool>,
    pub rcv_settle_mode: Option<u8>,
    pub state: Option<V>,
    pub resume: Option<bool>,
    pub aborted: Option<bool>,
    pub batchable: Option<bool>,
}

pub fn transfer(t: &TransferArgs) -> V {
    described(
        wire::TRANSFER,
        trim_nulls(vec![
            V::Uint(t.handle),
            t.delivery_id.map(V::Uint).unwrap_or(V::Null),
            t.delivery_tag.clone().map(V::Bin).unwrap_or(V::Null),
            t.message_format.map(V::Uint).unwrap_or(V::Null),
            t.settled.map(V::Bool).unwrap_or(V::Null),
            t.more.map(V::Bool).unwrap_or(V::Null),
            t.rcv_settle_mode.map(V::Ubyte).unwrap_or(V::Null),
            t.state.clone().unwrap_or(V::Null),
            t.resume.map(V::Bool).unwrap_or(V::Null),
            t.aborted.map(V::Bool).unwrap_or(V::Null),
            t.batchable.map(V::Bool).unwrap_or(V::Null),
        ]),
    )
}

pub fn accepted() -> V {
    described(0x24, vec![])
}
pub fn released() -> V {
    described(0x26, vec![])
}
pub fn rejected(description: Option<&str>) -> V {
    match description {
        Some(d) => described(0x25, vec![error("amqp:internal-error", Some(d))]),
        None => described(0x25, vec![]),
    }
}
pub fn modified(delivery_failed: bool, undeliverable: bool) -> V {
    described(0x27, vec![V::Bool(delivery_failed), V::Bool(undeliverable)])
}
pub fn received_state(section: u32, offset: u64) -> V {
    described(0x23, vec![V::Uint(section), V::Ulong(offset)])
}

pub fn disposition(receiver_role: bool, first: u32, last: Option<u32>, settled: bool, state: Option<V>) -> V {
    described(
        wire::DISPOSITION,
        trim_nulls(vec![
            V::Bool(receiver_role),
            V::Uint(first),
            last.map(V::Uint).unwrap_or(V::Null),
            V::Bool(settled),
            state.unwrap_or(V::Null),
        ]),
    )
}

pub fn error(condition: &str, description: Option<&str>) -> V {
    described(
        0x1d,
        trim_nulls(vec![
            sym(condition),
            description.map(|d| V::Str(d.into())).unwrap_or(V::Null),
        ]),
    )
}

pub fn detach(handle: u32, closed: bool, err: Option<V>) -> V {
    described(
        wire::DETACH,
        trim_nulls(vec![V::Uint(handle), V::Bool(closed), err.unwrap_or(V::Null)]),
    )
}

pub fn end(err: Option<V>) -> V {
    described(wire::END, trim_nulls(vec![err.unwrap_or(V::Null)]))
}

pub fn close(err: Option<V>) -> V {
    described(wire::CLOSE, trim_nulls(vec![err.unwrap_or(V::Null)]))
}

// ---------------------------------------------------------------------------------------
// A legal peer's bookkeeping for one session (enough to produce legal frames)

#[derive(Clone, Debug)]
pub struct PeerSession {
    pub channel: u16,
    pub remote_channel: Option<u16>,
    pub next_outgoing_id: u32,
    pub incoming_window: u32,
    pub outgoing_window: u32,
    /// next-incoming-id as the peer tracks it: endpoint's begin.next-outgoing-id + transfers received
    pub next_incoming_id: u32,
    pub endpoint_initial_outgoing_id: u32,
    pub transfers_received: u64,
    pub next_delivery_id: u32,
}

impl PeerSession {
    pub fn new(channel: u16, next_outgoing_id: u32, incoming_window: u32, outgoing_window: u32) -> Self {
        PeerSession {
            channel,
            remote_channel: None,
            next_outgoing_id,
            incoming_window,
            outgoing_window,
            next_incoming_id: 0,
            endpoint_initial_outgoing_id: 0,
            transfers_received: 0,
            next_delivery_id: next_outgoing_id,
        }
    }
    pub fn on_remote_begin(&mut self, begin: &V, channel: u16) {
        self.remote_channel = Some(channel);
        self.endpoint_initial_outgoing_id = begin.field(1).as_u32().unwrap_or(0);
        self.next_incoming_id = self.endpoint_initial_outgoing_id;
    }
    pub fn on_transfer_received(&mut self) {
        self.next_incoming_id = self.next_incoming_id.wrapping_add(1);
        self.transfers_received += 1;
    }
    pub fn flow_args(&self) -> FlowArgs {
        FlowArgs {
            next_incoming_id: Some(self.next_incoming_id),
            incoming_window: self.incoming_window,
            next_outgoing_id: self.next_outgoing_id,
            outgoing_window: self.outgoing_window,
            ..Default::default()
        }
    }
    /// account for one transfer frame sent by the peer
    pub fn on_transfer_sent(&mut self) {
        self.next_outgoing_id = self.next_outgoing_id.wrapping_add(1);
    }
}

/// Quiescence: keep reading what the endpoint writes until no bytes are in flight or
/// unread and the endpoint's tasks are all blocked (virtual time passes only when
/// nothing is runnable, so a virtual timer firing proves exactly that)
pub async fn settle(peer: &mut Peer, net: &crate::net::NetHandle, mut on_frame: impl FnMut(&WFrame)) -> bool {
    use futures_util::FutureExt;
    let deadline = tokio::time::Instant::now() + sim::OP_DEADLINE;
    while tokio::time::Instant::now() < deadline {
        // every other task is blocked at this virtual instant
        sim::until_idle().await;
        let mut got = false;
        while let Some(Some(item)) = peer.recv().now_or_never() {
            if let Item::Frame(f) = item {
                on_frame(&f);
            }
            got = true;
        }
        if got {
            continue;
        }
        if net.idle() {
            // nothing in flight (a sleeping pump holds its bytes in flight), nothing unread,
            // nobody runnable: the endpoint has processed everything it was sent and has
            // written everything it wanted to write
            return true;
        }
        if peer.eof || peer.read_error.is_some() {
            return false;
        }
        // bytes are in flight: let virtual time pass
        tokio::time::sleep(std::time::Duration::from_millis(1)).await;
    }
    false
}

// ---------------------------------------------------------------------------------------
// Common set-ups: a real endpoint against the scripted peer

use crate::net::{NetCfg, NetHandle};
use crate::wire::{Models, MonitorRef};
use crate::world::{self, EndpointCfg};

pub struct ClientVsPeer {
    pub client: fe2o3_amqp::connection::ConnectionHandle<()>,
    pub peer: Peer,
    pub net: NetHandle,
    pub mon: MonitorRef,
    /// the open the client sent
    pub client_open: V,
}

/// Real client (end A, group 1) against a scripted listener (end B): plain header
/// and open exchange, then hand both back.
pub async fn client_vs_peer(
    ccfg: &EndpointCfg,
    peer_open: V,
    net_ab: NetCfg,
    net_ba: NetCfg,
    client_models: Models,
) -> Option<ClientVsPeer> {
    let (cs, ps, net) = SimStream::pair("client", "peer", net_ab, net_ba);
    let mon = crate::wire::install(&net, ["client", "peer"], [client_models, Models::none()]);
    let mut peer = Peer::new("peer", ps);
    let hs = async {
        let h = peer.expect_header().await?;
        if h != AMQP_HEADER {
            return None;
        }
        peer.send_header(AMQP_HEADER).await;
        let o = peer.expect(wire::OPEN).await?;
        peer.send(0, &peer_open).await;
        o.perf
    };
    let (c, o) = sim::op(
        "client open against scripted peer",
        world::join2(sim::in_group(1, world::client_open(ccfg, cs)), hs),
    )
    .await?;
    match (c, o) {
        (Ok(client), Some(client_open)) => Some(ClientVsPeer { client, peer, net, mon, client_open }),
        (c, o) => {
            sim::violation(
                "open-failed",
                format!("open against a legal scripted peer failed: client={:?} peer saw open={}", c.map(|_| ()), o.is_some()),
            );
            None
        }
    }
}

pub struct ListenerVsPeer {
    pub listener: fe2o3_amqp::acceptor::ListenerConnectionHandle,
    pub peer: Peer,
    pub net: NetHandle,
    pub mon: MonitorRef,
    pub listener_open: V,
}

/// Scripted client (end A) against a real listener (end B, group 2)
pub async fn peer_vs_listener(
    lcfg: &EndpointCfg,
    peer_open: V,
    net_ab: NetCfg,
    net_ba: NetCfg,
    listener_models: Models,
) -> Option<ListenerVsPeer> {
    let (ps, ls, net) = SimStream::pair("peer", "listener", net_ab, net_ba);
    let mon = crate::wire::install(&net, ["peer", "listener"], [Models::none(), listener_models]);
    let mut peer = Peer::new("peer", ps);
    let acceptor = world::listener_acceptor(lcfg);
    let hs = async {
        peer.send_header(AMQP_HEADER).await;
        peer.send(0, &peer_open).await;
        let h = peer.expect_header().await?;
        if h != AMQP_HEADER {
            return None;
        }
        let o = peer.expect(wire::OPEN).await?;
        o.perf
    };
    let (l, o) = sim::op(
        "listener accept against scripted peer",
        world::join2(sim::in_group(2, acceptor.accept(ls)), hs),
    )
    .await?;
    match (l, o) {
        (Ok(listener), Some(listener_open)) => Some(ListenerVsPeer { listener, peer, net, mon, listener_open }),
        (l, o) => {
            sim::violation(
                "open-failed",
                format!("accept against a legal scripted peer failed: listener={:?} peer saw open={}", l.map(|_| ()), o.is_some()),
            );
            None
        }
    }
}

/// Serve the teardown a well-behaved peer owes: answer detach with detach (same
/// closed flag), end with end, close with close. Returns when the close exchange
/// is done, the stream ends, or nothing arrives for `idle_ms` virtual ms.
pub async fn serve_teardown(peer: &mut Peer, idle_ms: u64) {
    loop {
        match peer.recv_within(idle_ms).await {
            Some(Item::Frame(f)) => match f.code {
                wire::DETACH => {
                    let p = f.perf.as_ref().unwrap();
                    let h = p.field(0).as_u32().unwrap_or(0);
                    let closed = p.field(1).as_bool().unwrap_or(false);
                    peer.send(f.channel, &detach(h, closed, None)).await;
                }
                wire::END => {
                    peer.send(f.channel, &end(None)).await;
                }
                wire::CLOSE => {
                    peer.send(0, &close(None)).await;
                    peer.shutdown().await;
                    return;
                }
                _ => {}
            },
            Some(_) => {}
            None => return,
        }
    }
}
