//! Registry: which scenario variants decide which property.

use crate::runner::{Property, Variant};
use crate::scen;

const REAL: [&str; 6] = [
    "fe2o3-amqp connection/session/link/transaction/SASL code of both endpoints (unmodified apart from 3 re-routed spawn calls and 1 schedule point)",
    "fe2o3-amqp Transport, frame codecs, serde_amqp",
    "tokio mpsc/oneshot/Notify, tokio timers on the paused clock, tokio select! with seeded RNG",
    "tokio-util FramedRead/FramedWrite + LengthDelimitedCodec",
    "parking_lot locks",
    "fe2o3-amqp-types performatives and message sections",
];
const STUB: [&str; 4] = [
    "task scheduler (simulator-owned executor replaces tokio's run queue)",
    "TCP stream (SimStream: in-memory pipes with seeded chunking, latency, stalls, cuts)",
    "OS entropy (seeded, hook H3)",
    "remote peer in scripted scenarios (ScriptedPeer built on an independent codec)",
];

pub fn all() -> Vec<Property> {
    vec![c01(), c02(), c04(), c06(), c07(), c08(), c09(), c10(), c11(), c12(), c13(), c14(), c15(), c16(), c17(), c18(), c19(), c20()]
}

fn c06() -> Property {
    Property {
        id: "C06",
        level: "exploration",
        variants: vec![
            Variant {
                name: "transport-pair",
                weight: 4,
                make: || Box::pin(scen::c06::run()),
                max_steps: 3_000_000,
                cases_per_seed: 1,
            note: "two real Transports joined by the simulated stream",
            },
            Variant {
                name: "pair-traffic-size-model",
                weight: 1,
                make: || Box::pin(scen::c01::run_sizes()),
                max_steps: 3_000_000,
                cases_per_seed: 1,
            note: "the C01 pair workload judged by the frame-size and decodability models only",
            },
            Variant {
                name: "sasl-then-amqp-in-one-write",
                weight: 1,
                make: || Box::pin(scen::c19::run_pipelined_client()),
                max_steps: 3_000_000,
                cases_per_seed: 1,
            note: "scripted client writes SASL header, sasl-init, AMQP header and open at once; the real listener (PLAIN) reads both layers from one arbitrarily partitioned stream",
            },
            Variant {
                name: "incoming-frames-above-the-senders-own-limit",
                weight: 1,
                make: || Box::pin(scen::c10::run_client()),
                max_steps: 3_000_000,
                cases_per_seed: 1,
            note: "C10's scripted fragmenting sender, which advertises a max-frame-size of 512, 1024 or 65536 for what it receives and sends frames of up to 1.3 KiB: the limit on incoming frames is the endpoint's own (client side)",
            },
            Variant {
                name: "incoming-frames-above-the-senders-own-limit-listener",
                weight: 1,
                make: || Box::pin(scen::c10::run_listener()),
                max_steps: 3_000_000,
                cases_per_seed: 1,
            note: "the same against a real listener",
            },
        ],
        quick_runs: 20_000,
        thorough_runs: 2_000_000,
        rule: "one run = a max-frame-size from {512,513,520,600,1024,4096,65536}, 2-11 frames covering every performative kind with seeded field subsets (strings up to the 8/32-bit width boundary, extreme numeric values), transfers with delivery-tags of 0..32 bytes, both values of the more flag and payloads of 0 bytes, below one frame, and within +-80 bytes of 1-4 frame body sizes, written through a stream with seeded write capacity, chunked delivery and short reads; plus (1 run in 5) the end-to-end pair workload judged by the size model; every run is non-trivial; distinct = distinct event-log hash",
        assumptions: vec![
            "non-transfer performatives are generated small enough to fit a 512-byte frame: a performative larger than the peer's max-frame-size cannot be sent by any conforming behaviour",
            "the expected performative value is obtained by decoding the crate's own encoding with the independent codec: C06 judges framing and splitting, the codec properties judge the encoding itself",
        ],
        real_components: REAL.to_vec(),
        stub_components: STUB.to_vec(),
        expected_probes: vec!["multi-frame-transfer", "net-short-read", "net-short-write", "net-fragmented-delivery"],
    }
}

fn c17() -> Property {
    Property {
        id: "C17",
        level: "exploration",
        variants: vec![
            Variant {
                name: "channel-max-pair",
                weight: 1,
                make: || Box::pin(scen::c17::run_channel_max()),
                max_steps: 3_000_000,
                cases_per_seed: 1,
            note: "real client <-> real listener with seeded channel-max on both sides",
            },
            Variant {
                name: "channel-max-listener-vs-scripted-peer",
                weight: 1,
                make: || Box::pin(scen::c17::run_channel_max_listener()),
                max_steps: 3_000_000,
                cases_per_seed: 1,
            note: "real listener <-> scripted peer that begins sessions up to the agreed channel-max and beyond: the listener's answering begins are bound by it",
            },
            Variant {
                name: "heartbeat-vs-scripted-peer",
                weight: 2,
                make: || Box::pin(scen::c17::run_heartbeat()),
                max_steps: 3_000_000,
                cases_per_seed: 1,
            note: "real client / listener <-> scripted peer advertising an idle time-out; virtual time",
            },
            Variant {
                name: "local-idle-time-out-vs-scripted-peer",
                weight: 2,
                make: || Box::pin(scen::c17::run_local_idle()),
                max_steps: 3_000_000,
                cases_per_seed: 1,
            note: "real client / listener with its own idle time-out <-> scripted peer producing gaps below T, then silence",
            },
        ],
        quick_runs: 10_000,
        thorough_runs: 500_000,
        rule: "one run = (a) a pair of channel-max values from {0,1,2,7,255,65535} and a number of begin attempts that goes beyond the limit when it is small, an end at the limit and a further begin; or (b) a peer idle-time-out from {unset,0,1,50,333,1000,60000,2^32-1} ms observed over 8-38 periods of virtual time with or without application traffic; or (c) a local idle time-out T from {100,400,1000,60000} ms, 2-9 peer frames separated by gaps of T/8..7T/8 (optionally a last gap of T-delta) and then silence; all under seeded schedules and stream fragmentation; every run is non-trivial; distinct = distinct event-log hash",
        assumptions: vec![
            "gaps between frames are measured at the transport tap with virtual time stamps; a gap equal to the advertised value (+2 ms for writing the frame) is accepted: the heartbeat period equals the advertised value",
            "silence of exactly T is never generated (timer-versus-data order at one virtual instant is legitimately schedule-dependent)",
        ],
        real_components: REAL.to_vec(),
        stub_components: STUB.to_vec(),
        expected_probes: vec!["begin-refused-at-channel-max", "channel-reused-after-end", "heartbeat-gaps-checked", "no-idle-time-out-advertised", "frames-arrived-in-time", "idle-time-out-reported"],
    }
}

fn c14() -> Property {
    Property {
        id: "C14",
        level: "fault_enumeration",
        variants: vec![
            Variant {
                name: "connection-handle-vs-scripted-listener",
                weight: 1,
                make: || Box::pin(scen::c12::run_client()),
                max_steps: 3_000_000,
                cases_per_seed: 1,
                note: "C12's client against a scripted listener (the peer closes with or without an error, hangs up on the endpoint's close, cuts the stream, goes silent, sends illegal frames; the final shutdown may fail), judged on what the connection handle reports: a clean result only if the peer wrote its close, the peer's error when it sent one",
            },
            Variant {
                name: "transport-cut-sweep",
                weight: 1,
                make: || Box::pin(scen::c14::run_cut()),
                max_steps: 3_000_000,
                cases_per_seed: scen::c14::CASES,
                note: "real client <-> real listener reference conversation; the transport is cut at every byte offset of either direction, three cut kinds",
            },
            Variant {
                name: "peer-initiated-stop",
                weight: 1,
                make: || Box::pin(scen::c14::run_peer_initiated()),
                max_steps: 3_000_000,
                cases_per_seed: 1,
                note: "real client <-> scripted peer that closes / ends / detaches with or without an error after a seeded number of frames",
            },
            Variant {
                name: "teardown-answered-with-error",
                weight: 1,
                make: || Box::pin(scen::c14::run_answered_with_error()),
                max_steps: 3_000_000,
                cases_per_seed: 1,
                note: "real client <-> scripted peer that answers the application's detach, end or close with an error (optionally before it has seen the endpoint's frame)",
            },
            Variant {
                name: "peer-initiated-vs-listener",
                weight: 1,
                make: || Box::pin(scen::c14::run_peer_initiated_listener()),
                max_steps: 3_000_000,
                cases_per_seed: 1,
                note: "real listener against a scripted peer that closes the connection or ends the session (with or without an error) while the listener application waits in SessionAcceptor::accept, LinkAcceptor::accept or recv: the waiting call fails, carries the peer's error, and the connection handle reports the peer's close",
            },
            Variant {
                name: "stop-during-resume",
                weight: 1,
                make: || Box::pin(scen::c14::run_stop_during_resume()),
                max_steps: 3_000_000,
                cases_per_seed: 1,
                note: "real client sender with 1-3 unsettled deliveries outstanding, detached and being resumed: the scripted peer ends the session or closes the connection instead of answering the resuming attach: resume() fails with the reason, and the outcomes awaited in other tasks resolve with an error while the application keeps the detached sender",
            },
        ],
        quick_runs: 6 * scen::c14::CASES,
        thorough_runs: 42 * scen::c14::CASES,
        rule: "(a) per seed (= network behaviour and schedule) a fixed reference conversation (open, two sessions, an unsettled sender with three batchable sends of which one is multi-frame plus a plain send, a receiver with two deliveries, detach, close, end, close) is run once per (direction, byte offset 0..=2200 client->listener and 0..=1200 listener->client, cut kind in {eof, reset, stall-then-eof}), with the listener's receiver credit (default or 1) and session incoming window (default or 2) drawn from the seed; offsets beyond the conversation are counted as skipped (trivial); (b) per seed one scripted-peer run with the stop kind, error presence and position drawn from the seed; distinct = distinct event-log hash",
        assumptions: vec![
            "a call returning Ok after the cut is accepted when it raced the failure (its request was queued before the engine noticed); calls made after quiescence must fail",
            "connection.close() may return Ok only when both close frames crossed the wire before the cut",
        ],
        real_components: REAL.to_vec(),
        stub_components: STUB.to_vec(),
        expected_probes: vec!["late-attach-error-names-the-stop", "late-operation-failed", "peer-error-carried-by-link-error", "re-attach-after-suspension", "cut-beyond-conversation", "answer-error-reported"],
    }
}

fn c15() -> Property {
    Property {
        id: "C15",
        level: "exploration",
        variants: vec![
            Variant {
                name: "hostile-peer-vs-client",
                weight: 1,
                make: || Box::pin(scen::c15::run_client()),
                max_steps: 3_000_000,
                cases_per_seed: 1,
                note: "real client <-> scripted hostile peer, plus a healthy real pair in the same run",
            },
            Variant {
                name: "hostile-peer-vs-listener",
                weight: 1,
                make: || Box::pin(scen::c15::run_listener()),
                max_steps: 3_000_000,
                cases_per_seed: 1,
                note: "real listener <-> scripted hostile peer, plus a healthy real pair in the same run",
            },
            Variant {
                name: "hostile-sasl-client-vs-listener",
                weight: 1,
                make: || Box::pin(scen::c19::run_scripted_client()),
                max_steps: 3_000_000,
                cases_per_seed: 1,
                note: "C19's scripted SASL client (17 deviations incl. garbled client-final messages) against a PLAIN / SCRAM listener: the accept task must not panic or hang",
            },
        ],
        quick_runs: 12_000,
        thorough_runs: 600_000,
        rule: "one run = victim side x endpoint state (open only / session / sender+receiver links / links with a partial incoming delivery and two unsettled outgoing deliveries) x one hostile action from a catalogue of 35 (13 ill-formed byte strings incl. frame sizes 0..7, bad doff, unknown type, oversized, random and bit-flipped bodies, nesting depth up to 20000, truncation; 22 protocol violations) with seeded parameters x endpoint incoming window {2048,3,8} and max-frame-size {65536,512,4096} x network behaviour x schedule; every run is non-trivial; distinct = distinct event-log hash",
        assumptions: vec![
            "after the hostile action the scripted peer behaves well again: it reads, settles transfers and answers detach/end/close in kind",
            "a send on a link that the wire shows to be up may stay pending (the hostile flow may legitimately have withdrawn credit): bounded, not judged",
        ],
        real_components: REAL.to_vec(),
        stub_components: STUB.to_vec(),
        expected_probes: vec!["bystander-unaffected", "answered-with-close", "answered-with-end", "ignored", "fresh-session-worked"],
    }
}

fn c18() -> Property {
    Property {
        id: "C18",
        level: "exploration",
        variants: vec![
            Variant {
                name: "retirement-under-a-dead-transaction-id",
                weight: 1,
                make: || Box::pin(scen::c18::run_scripted_retirement_under_dead_id()),
                max_steps: 3_000_000,
                cases_per_seed: 1,
                note: "scripted controller <-> real listener that sends two deliveries on a feed link: the controller retires the first one (transactional state with outcome accepted, settled) under a transaction id that was never declared, was committed or was rolled back: the retirement must be refused with a transaction error on the wire and must not be applied (the sending application must not see the delivery accepted)",
            },
            Variant {
                name: "controller-resource-pair",
                weight: 3,
                make: || Box::pin(scen::c18::run_pair()),
                max_steps: 3_000_000,
                cases_per_seed: 1,
                note: "real client (1-2 control links, 2 sender links) <-> real listener with a control link acceptor; seeded transaction histories",
            },
            Variant {
                name: "scripted-controller-vs-listener",
                weight: 1,
                make: || Box::pin(scen::c18::run_scripted_controller()),
                max_steps: 3_000_000,
                cases_per_seed: 1,
                note: "scripted controller <-> real listener: never-declared and finished ids, fresh ids",
            },
            Variant {
                name: "controller-vs-scripted-resource",
                weight: 1,
                make: || Box::pin(scen::c18::run_scripted_resource()),
                max_steps: 3_000_000,
                cases_per_seed: 1,
                note: "real client controller <-> scripted resource: transaction ids and fail flags on the wire, coordinator outcomes reported",
            },
        ],
        quick_runs: 6_000,
        thorough_runs: 400_000,
        rule: "pair variant: one run = 6-15 operations drawn from declare (up to 3 live transactions over 1-2 control links), transactional post of a one- or multi-frame message on one of two links, plain send, commit, rollback, control link close/drop with live transactions, and an ending in which the remaining transactions are committed, rolled back or left to the session end; scripted variant: one of five scripts (discharge of a never-declared id, second discharge, post after discharge, post to an unknown id, 3-22 declares); all under seeded network behaviour and schedules; every run is non-trivial; distinct = distinct event-log hash",
        assumptions: vec![
            "isolation is checked at simulator-proven quiescence right before each discharge is issued and atomicity right after it returned; 'never' is checked at the end of the run, after session and connection are closed",
            "an undischarged Transaction object is forgotten rather than dropped (its Drop sleeps on the real clock)",
        ],
        real_components: REAL.to_vec(),
        stub_components: STUB.to_vec(),
        expected_probes: vec!["declared", "posted", "posted-multi-frame", "isolation-checked", "commit-checked", "rollback-checked", "history-checked", "unknown-id-refused", "second-discharge-refused", "dead-transaction-post-refused", "fresh-ids-checked", "controller-wire-checked", "discharge-rejection-reported", "declare-rejection-reported"],
    }
}

fn c19() -> Property {
    Property {
        id: "C19",
        level: "exploration",
        variants: vec![
            Variant {
                name: "scripted-client-vs-listener",
                weight: 2,
                make: || Box::pin(scen::c19::run_scripted_client()),
                max_steps: 3_000_000,
                cases_per_seed: 1,
                note: "scripted SASL client (honest and 16 dishonest behaviours) <-> real listener with PLAIN or SCRAM-SHA-1/256/512",
            },
            Variant {
                name: "client-vs-scripted-server",
                weight: 2,
                make: || Box::pin(scen::c19::run_scripted_server()),
                max_steps: 3_000_000,
                cases_per_seed: 1,
                note: "real client with a PLAIN or SCRAM profile <-> scripted SASL server (honest and 11 dishonest behaviours)",
            },
            Variant {
                name: "client-listener-pair",
                weight: 1,
                make: || Box::pin(scen::c19::run_pair()),
                max_steps: 3_000_000,
                cases_per_seed: 1,
                note: "real client <-> real listener, equal or differing credentials and mechanisms, SASL skipped",
            },
            Variant {
                name: "pipelined-client-vs-listener",
                weight: 1,
                make: || Box::pin(scen::c19::run_pipelined_client()),
                max_steps: 3_000_000,
                cases_per_seed: 1,
                note: "scripted client that sends sasl-init (PLAIN, right or wrong password), AMQP header and open without waiting",
            },
            Variant {
                name: "replayed-exchange-vs-listener",
                weight: 1,
                make: || Box::pin(scen::c19::run_replay_client()),
                max_steps: 3_000_000,
                cases_per_seed: 1,
                note: "a recorded successful SCRAM exchange is replayed byte for byte on a second connection to the same acceptor",
            },
            Variant {
                name: "vanishing-account-vs-listener",
                weight: 1,
                make: || Box::pin(scen::c19::run_vanishing_user()),
                max_steps: 3_000_000,
                cases_per_seed: 1,
                note: "a user-supplied credential store from which the account disappears between the look-up at sasl-init and the one at sasl-response",
            },
            Variant {
                name: "sasl-frame-sequences-vs-listener",
                weight: 2,
                make: || Box::pin(scen::c19::run_frame_sequences()),
                max_steps: 3_000_000,
                cases_per_seed: 1,
                note: "scripted client sends 0-4 SASL frames of every kind a client or a server may send (init right / wrong credentials / other mechanism / no response, response valid / tampered / garbled, mechanisms, challenge, outcome ok, a frame without a body), reading the listener's answers in between, then the AMQP header and an open: a connection is opened for the valid exchange and for nothing else",
            },
            Variant {
                name: "sasl-frame-sequences-enumerated",
                weight: 1,
                make: || Box::pin(scen::c19::run_frame_sequences_enumerated()),
                max_steps: 3_000_000,
                cases_per_seed: scen::c19::FRAME_SEQUENCE_CASES,
                note: "every sequence of 0-3 SASL frames over eleven frame kinds (init: good / bad credentials / other mechanism / no response; response: good / tampered / garbage; mechanisms, challenge, outcome ok and a frame without body sent by the client), 1464 cases per seed; the seed picks the listener's mechanism, the network and the schedule; judged as the sampled variant (soundness by suffix, completeness for the valid exchange alone)",
            },
        ],
        quick_runs: 16_104,
        thorough_runs: 322_080,
        rule: "one run = one mechanism out of four x one behaviour of the scripted party (client: honest, wrong password in six ways, wrong user, no / malformed / empty initial response, response before init, server frames from the client, AMQP header instead of the SASL header, AMQP frame during SASL, premature AMQP header, other mechanism name, tampered proof, proof over another nonce, missing proof, nonce not echoed, second response after a failure; server: honest, outcome codes 1-4 and out-of-range, nonce not extending the client's, wrong / other-password / other-salt signature, no additional data, ok before the challenge, extra challenge, bad iteration count, mechanism not offered, garbage challenge) with seeded parameters, or one real pair with seeded credential and mechanism mismatches; seeded network behaviour and schedule; every run is non-trivial; distinct = distinct event-log hash",
        assumptions: vec![
            "the harness's own SCRAM arithmetic (HMAC, PBKDF2, message construction over the sha1/sha2 digest crates) is the reference for proofs and signatures; the honest runs cross-check it against the crate in both directions",
            "a PLAIN response with a non-empty authorization identity or extra NUL-separated fields is not generated (its validity is not defined by the property)",
        ],
        real_components: REAL.to_vec(),
        stub_components: STUB.to_vec(),
        expected_probes: vec!["honest-client-accepted", "dishonest-client-refused", "honest-server-accepted", "dishonest-server-refused", "valid-credentials-connected", "invalid-credentials-refused-on-both-sides"],
    }
}

fn c04() -> Property {
    Property {
        id: "C04",
        level: "fault_enumeration",
        variants: vec![
            Variant {
                name: "corruption-in-transit",
                weight: 3,
                make: || Box::pin(scen::codec::run_c04_corruption()),
                max_steps: 3_000_000,
                cases_per_seed: 1,
                note: "a valid encoding (value tree, performative, SASL frame body, message) corrupted 1-3 times in transit (size / count / format-code fields, string bodies, bit flips, nesting up to 8000 deep) and possibly cut, decoded as every public type through the slice reader and the simulated stream",
            },
            Variant {
                name: "valid-encodings",
                weight: 1,
                make: || Box::pin(scen::codec::run_c04_valid()),
                max_steps: 3_000_000,
                cases_per_seed: 1,
                note: "uncorrupted encodings from the independent encoder (incl. arrays of compound and zero-width elements, wide forms): must decode through both readers and survive the crate's own encoder",
            },
            Variant {
                name: "cut-at-every-offset",
                weight: 1,
                make: || Box::pin(scen::codec::run_c04_cut_sweep()),
                max_steps: 3_000_000,
                cases_per_seed: scen::codec::CUT_MAX,
                note: "per seed one valid encoding, cut (EOF and hard error) at every offset",
            },
            Variant {
                name: "all-short-strings",
                weight: 1,
                make: || Box::pin(scen::codec::run_c04_short_strings()),
                max_steps: 3_000_000,
                cases_per_seed: 257,
                note: "every byte string of length <= 2 and a 16x16 grid of length-3 strings per first byte",
            },
            Variant {
                name: "typed-pairs",
                weight: 1,
                make: || Box::pin(scen::codec::run_c04_typed_pairs()),
                max_steps: 3_000_000,
                cases_per_seed: 1,
                note: "two typed public values (12 x 9 type pairs: symbol, symbol-ref, lazy value, uuid, timestamp, decimals, arrays, strings, binaries, numbers) decoded one after the other from a valid encoding, through both readers: neither panics, both come out as they do alone",
            },
            Variant {
                name: "nesting-on-a-scaled-stack",
                weight: 1,
                make: || Box::pin(scen::codec::run_c04_nesting_small_stack()),
                max_steps: 3_000_000,
                cases_per_seed: 1,
                note: "lists, maps (nested in value and in key position), arrays, described values and mixtures nested 20-600 deep around the decoder's depth limit, decoded as every public type on a thread whose stack is scaled to this optimised build so that the deepest nesting the unchanged tree accepts takes the share of it that it takes of a 2 MiB stack in an unoptimised build",
            },
        ],
        quick_runs: 8 * 700 * 15,
        thorough_runs: 8 * 700 * 1500,
        rule: "corruption variant: one run = one generated encoding x 1-3 structure-aware corruptions (+ optional cut) x seeded chunking and interrupted reads; cut variant: one run per (seed, offset 0..700); short-string variant: one run per first byte (257 runs cover all strings of length <= 2 exactly once per block); blocks of 700 run indices alternate between the variants 3:1:1; distinct = distinct event-log hash",
        assumptions: vec![
            "allocation is measured by a counting global allocator around each decode call; 'in proportion' is peak <= 160 x input length + 16 MiB (the crate caps one array at 65536 elements of 72 bytes before it has seen its body)",
            "reads are bounded by 4 x (input length + 2) + 4 x interruptions + 64 calls",
            "stack exhaustion shows as the death of the worker process (2 MiB stack, as a tokio worker thread)",
        ],
        real_components: vec!["serde_amqp (slice reader, io reader, Value, LazyValue, size calculator)", "fe2o3-amqp-types performatives and message", "fe2o3-amqp frame decoders (AMQP and SASL)"],
        stub_components: vec!["simulator-owned std::io::Read (chunking, interrupted reads, cut, hard error, corruption in transit)", "independent encoder (refcodec) and field scanner"],
        expected_probes: vec!["value-decoded", "value-rejected", "short-strings-block-done", "valid-encoding-decoded"],
    }
}

fn c20() -> Property {
    Property {
        id: "C20",
        level: "fault_enumeration",
        variants: vec![
            Variant {
                name: "trailing-bytes-and-chunk-sizes",
                weight: 3,
                make: || Box::pin(scen::codec::run_c20_trailing()),
                max_steps: 3_000_000,
                cases_per_seed: 65,
                note: "per seed one valid encoding followed by 0-39 arbitrary bytes, read through the slice reader and through the simulated stream in chunks of every size 1..64 and in seeded chunks",
            },
            Variant {
                name: "typed-values",
                weight: 1,
                make: || Box::pin(scen::codec::run_c20_typed()),
                max_steps: 3_000_000,
                cases_per_seed: 1,
                note: "performatives: size calculator vs encoder, value tree vs bytes",
            },
            Variant {
                name: "arrays-through-both-readers",
                weight: 1,
                make: || Box::pin(scen::codec::run_c20_arrays()),
                max_steps: 3_000_000,
                cases_per_seed: 1,
                note: "an array of one element type (23 types: every fixed width, variable width, compound, null), alone or as a field, followed by arbitrary bytes, through the slice reader and the simulated stream (seeded chunk size): value, bytes taken, typed and lazy decodes",
            },
            Variant {
                name: "sizes-and-value-trees",
                weight: 1,
                make: || Box::pin(scen::codec::run_c20_sizes()),
                max_steps: 3_000_000,
                cases_per_seed: 1,
                note: "one generated value per run: size calculator vs encoder for untyped values, typed arrays of variable-width elements and an open with capability arrays",
            },
            Variant {
                name: "plain-typed-values",
                weight: 1,
                make: || Box::pin(scen::codec::run_c20_plain_typed()),
                max_steps: 3_000_000,
                cases_per_seed: 1,
                note: "tuples, vectors, options, maps of plain Rust types: size calculator, both readers, value tree",
            },
            Variant {
                name: "message-through-the-engines-chunk-reader",
                weight: 1,
                make: || Box::pin(scen::c10::run_client()),
                max_steps: 3_000_000,
                cases_per_seed: 1,
                note: "C10's scripted fragmenting sender against a real receiver: a message that arrives in one frame is decoded from a slice, the same message cut into 2-7 frames at seeded offsets is decoded by the io reader fed by the engine's multi-buffer reader (one buffer per frame, empty ones included); both must give the message that was sent",
            },
        ],
        quick_runs: 8 * 65 * 30,
        thorough_runs: 8 * 65 * 3000,
        rule: "trailing variant: one run per (seed = generated value and trailing bytes, chunk size in {seeded, 1..64}); typed variant: one generated performative per run; distinct = distinct event-log hash",
        assumptions: vec![
            "the generated value encodings come from the harness's own encoder (including the wide, non-canonical forms); the crate's own encoder is exercised for what it decodes from them",
        ],
        real_components: vec!["serde_amqp (slice reader, io reader, size calculator, value tree)", "fe2o3-amqp-types performatives", "fe2o3-amqp AMQP frame decoder"],
        stub_components: vec!["simulator-owned std::io::Read (chunk sizes)", "independent encoder (refcodec)"],
        expected_probes: vec!["trailing-bytes-left-in-place", "plain-typed-agreement-checked", "payload-after-performative-checked", "typed-stream-position-checked", "lazy-value-stream-position-checked", "sizes-checked"],
    }
}

fn c16() -> Property {
    Property {
        id: "C16",
        level: "fault_enumeration",
        variants: vec![
            Variant {
                name: "recv-dropped-after-k-polls",
                weight: 1,
                make: || Box::pin(scen::c16::run_recv_enumerated()),
                max_steps: 3_000_000,
                cases_per_seed: scen::c16::CASES,
                note: "real client receiver <- real listener sender; recv j is polled k times and dropped (at once / at the next wake-up), for every j and k",
            },
            Variant {
                name: "send-dropped-after-k-polls",
                weight: 1,
                make: || Box::pin(scen::c16::run_send_enumerated()),
                max_steps: 3_000_000,
                cases_per_seed: scen::c16::CASES,
                note: "real client sender -> real listener receiver; send j is polled k times and dropped, for every j and k",
            },
            Variant {
                name: "recv-select-loop",
                weight: 1,
                make: || Box::pin(scen::c16::run_recv_seeded()),
                max_steps: 3_000_000,
                cases_per_seed: 1,
                note: "every recv goes through a seeded cancel-and-retry loop",
            },
            Variant {
                name: "send-select-loop",
                weight: 1,
                make: || Box::pin(scen::c16::run_send_seeded()),
                max_steps: 3_000_000,
                cases_per_seed: 1,
                note: "two sends out of three are dropped after a seeded number of polls",
            },
        ],
        quick_runs: 4 * scen::c16::CASES * 8,
        thorough_runs: 4 * scen::c16::CASES * 600,
        rule: "enumerated variants: per seed (= configuration incl. link->session channel capacity 1/2/3/8/2048, credit policy, auto-accept, message sizes of 1-4 frames, network behaviour, schedule) one run per (target operation j in 0..6, k in 1..=12, drop at once / at the next wake-up); k beyond the polls the operation needs counts as trivial; select-loop variants: one run per seed; distinct = distinct event-log hash",
        assumptions: vec![
            "a cancelled message is not sent again by the workload, so that 'at most once' is decidable; the last message is never cancelled (it tells the receiving peer when to stop)",
        ],
        real_components: REAL.to_vec(),
        stub_components: STUB.to_vec(),
        expected_probes: vec!["delivery-checked", "arrivals-checked", "recv-completed-before-k-polls", "send-completed-before-k-polls"],
    }
}

fn c13() -> Property {
    Property {
        id: "C13",
        level: "exploration",
        variants: vec![
            Variant {
                name: "detach-answered-late",
                weight: 1,
                make: || Box::pin(scen::c13p::run_detach_answered_late()),
                max_steps: 3_000_000,
                cases_per_seed: 1,
                note: "real client <-> scripted peer that answers a detach only after the application's detach_with_timeout() / close() under a time-out has given up and the handle has been dropped: exactly one detach for that attach, the late answer is taken, another link attaches on the freed handle and sends",
            },
            Variant {
                name: "listener-pipelined-teardown",
                weight: 1,
                make: || Box::pin(scen::c13l::run()),
                max_steps: 3_000_000,
                cases_per_seed: 1,
                note: "real listener <-> scripted peer that writes attach + detach (closing or not, with or without an error; optionally a transfer in between) in one go before the application has accepted the link or even the session, or begin + end in one go: lifecycle models on what the listener writes, the detach of a link the listener did attach answered in kind once everything is at rest, the end answered, no session or connection torn down, and a sibling link on the same handle / a sibling session on the same channel works afterwards",
            },Variant {
            name: "pair-lifecycle-sequences",
            weight: 1,
            make: || Box::pin(scen::life::run_c13()),
            max_steps: 3_000_000,
            cases_per_seed: 1,
            note: "real client <-> real listener, seeded begin/attach/send/detach/close/drop/end sequences",
        },
        Variant {
            name: "scripted-peer-refusals",
            weight: 1,
            make: || Box::pin(scen::c13p::run()),
            max_steps: 3_000_000,
            cases_per_seed: 1,
            note: "real client <-> scripted peer: attach refused by an immediate detach, attach never answered, idle link closed / detached by the peer, session ended by the peer; sibling link and connection must survive",
        },
        Variant {
            name: "frames-after-local-end",
            weight: 1,
            make: || Box::pin(scen::c13p::run_frames_after_local_end()),
            max_steps: 3_000_000,
            cases_per_seed: 1,
            note: "real client ends a session (with or without error) while links are attached; the scripted peer sends echo flows, a transfer, an attach before it answers with its end: nothing may be written on the channel after the local end",
        },
        Variant {
            name: "detach-behind-held-transfers",
            weight: 1,
            make: || Box::pin(scen::c13p::run_detach_behind_held_transfers()),
            max_steps: 3_000_000,
            cases_per_seed: 1,
            note: "real client sender (pre-settled) against a scripted receiver whose session window is 1-3: the application sends more than fits and closes / detaches / drops the link; the peer reopens its window by exactly the number of transfers held back and sends nothing more: the held transfers and then the detach must be written",
        }],
        quick_runs: 6_000,
        thorough_runs: 300_000,
        rule: "scripted variant: one of five peer scripts x error present or not x sender or receiver link, seeded delays; pair variant: one run = 1-3 sessions, each with 1-4 link lifetimes (sender or receiver, 0-4 messages, torn down by close, detach, close_with_error, drop of the handle, or by the peer closing first; names re-used after detach; duplicate-name attempts) and a session teardown (end, end_with_error, drop), all concurrent, under seeded configuration, network behaviour and schedule; every run is non-trivial; distinct = distinct event-log hash",
        assumptions: vec![
            "configurations of C01's circular-wait finding are excluded here (connection buffer raised)",
        ],
        real_components: REAL.to_vec(),
        stub_components: STUB.to_vec(),
        expected_probes: vec!["duplicate-name-attempted", "detach-error-delivered", "attach-refusal-reported", "peer-detach-reported", "sibling-link-survived", "connection-survived", "peer-detach-answered-in-kind", "detach-flushed-behind-held-transfers"],
    }
}

fn c11() -> Property {
    Property {
        id: "C11",
        level: "exploration",
        variants: vec![
            Variant {
                name: "pair-lifecycle-sequences",
                weight: 4,
                make: || Box::pin(scen::life::run_c11()),
                max_steps: 3_000_000,
                cases_per_seed: 1,
                note: "real client <-> real listener, seeded begin/attach/send/detach/close/drop/end sequences",
            },
            Variant {
                name: "resumed-link",
                weight: 1,
                make: || Box::pin(scen::c11r::run()),
                max_steps: 3_000_000,
                cases_per_seed: 1,
                note: "real client <-> real listener: a sender link detached and attached again by resume / resume_on_session / detach_then_resume_on_session, with sibling links on both sessions",
            },
            Variant {
                name: "duplicate-begin-vs-listener",
                weight: 1,
                make: || Box::pin(scen::c11r::run_duplicate_begin()),
                max_steps: 3_000_000,
                cases_per_seed: 1,
                note: "real listener <-> scripted peer that sends a second begin on a channel whose session it has not ended: the channel must not get a second session",
            },
            Variant {
                name: "end-then-begin-on-the-same-channel",
                weight: 1,
                make: || Box::pin(scen::c11r::run_end_then_begin_on_the_same_channel()),
                max_steps: 3_000_000,
                cases_per_seed: 1,
                note: "scripted peer against a real listener: the peer ends its session and begins the next one on the same channel in one write, 2-5 times, with a link and a message per round: the channel is free for the peer once its end is sent, every begin is answered and every message reaches the link of its own round's session",
            },
            Variant {
                name: "peer-picks-identifiers-vs-listener",
                weight: 2,
                make: || Box::pin(scen::c11p::run_listener()),
                max_steps: 3_000_000,
                cases_per_seed: 1,
                note: "scripted peer against a real listener: 1-3 sessions on sparse / large channel numbers of the peer's choosing (0 ... 65535 within the agreed channel-max), links on sparse / large handles (0 ... 2^32-1, the same numbers in every session, the same delivery-ids in every session), a handle used again for another link after a closing detach, a channel used again after an end; deliveries of 1-3 frames interleaved across links and sessions, per-link credit grants, dispositions (single and ranges spanning links) with distinguishable outcomes; every message names its link and must come out of that link's receiver and no other, what the endpoint sends must arrive on the (channel, handle) its own attach gave that link and within the credit granted to that link, every send resolves with the outcome of its own delivery on its own session, answering begins / attaches name the peer's channel / link, and the endpoint tears nothing down on its own",
            },
            Variant {
                name: "peer-picks-identifiers-vs-client",
                weight: 2,
                make: || Box::pin(scen::c11p::run_client()),
                max_steps: 3_000_000,
                cases_per_seed: 1,
                note: "the same with a real client: the scripted peer answers the client's begins and attaches with channel and handle numbers of its own, and answers a new attach / begin with the number it has just freed",
            },
        ],
        quick_runs: 5_000,
        thorough_runs: 200_000,
        rule: "as C13's pair workload (sessions x link lifetimes x teardown kinds, names re-used after detach, duplicate names, concurrent attaches, single- and multi-frame deliveries produced by both splitting layers), judged on identifiers and routing; every run is non-trivial; distinct = distinct event-log hash",
        assumptions: vec!["configurations of C01's circular-wait finding are excluded here (connection buffer raised)"],
        real_components: REAL.to_vec(),
        stub_components: STUB.to_vec(),
        expected_probes: vec!["duplicate-name-attempted", "large-channel-number", "large-handle-number", "handle-reused-after-detach", "channel-reused-after-end", "frames-of-two-sessions-interleaved", "routed-incoming-messages-checked", "outcome-of-own-delivery-checked", "credit-granted-to-one-link", "range-disposition-spanning-links"],
    }
}

fn c12() -> Property {
    Property {
        id: "C12",
        level: "exploration",
        variants: vec![
            Variant {
                name: "client-vs-scripted-listener",
                weight: 1,
                make: || Box::pin(scen::c12::run_client()),
                max_steps: 3_000_000,
                cases_per_seed: 1,
            note: "real client connection <-> scripted peer",
            },
            Variant {
                name: "listener-vs-scripted-client",
                weight: 1,
                make: || Box::pin(scen::c12::run_listener()),
                max_steps: 3_000_000,
                cases_per_seed: 1,
            note: "real listener connection <-> scripted peer",
            },
            Variant {
                name: "flush-before-answering-close",
                weight: 1,
                make: || Box::pin(scen::c12::run_flush_before_close()),
                max_steps: 3_000_000,
                cases_per_seed: 1,
                note: "real client with 3-10 sessions; the peer stops reading, the application ends every session, the peer closes (with or without error) and reads again: every queued end must be written before the answering close",
            },
        ],
        quick_runs: 20_000,
        thorough_runs: 1_000_000,
        rule: "one run = one local action (close, close_with_error, drop of the handle, begin+end+close, wait) at a seeded virtual time x one peer behaviour (clean, close with/without error, begin with unknown remote-channel, end/attach on an unmapped channel, second open, silence, EOF, reset, empty-frame flood) at a seeded virtual time, with the open exchange immediate, delayed or pipelined, with or without idle time-outs on either side (heartbeats), under a seeded schedule and stream fragmentation; every run is non-trivial; distinct = distinct event-log hash",
        assumptions: vec![
            "with a peer that has gone silent an API call may legitimately stay pending (no clause bounds it); such calls are given a grace period and not judged",
        ],
        real_components: REAL.to_vec(),
        stub_components: STUB.to_vec(),
        expected_probes: vec!["empty-frame-flood", "cut-eof", "cut-reset", "frame-before-open"],
    }
}

fn c02() -> Property {
    Property {
        id: "C02",
        level: "exploration",
        variants: vec![
            Variant {
                name: "pair-seeded-outcomes",
                weight: 1,
                make: || Box::pin(scen::c02::run_pair()),
                max_steps: 3_000_000,
                cases_per_seed: 1,
            note: "real sender <-> real receiver applying seeded outcomes",
            },
            Variant {
                name: "scripted-receiver-disposition-histories",
                weight: 1,
                make: || Box::pin(scen::c02::run_scripted_receiver()),
                max_steps: 3_000_000,
                cases_per_seed: 1,
            note: "real sender(s) <-> scripted receiver producing arbitrary disposition histories",
            },
            Variant {
                name: "scripted-sender-vs-real-receiver",
                weight: 1,
                make: || Box::pin(scen::c09::run_client_stream_only()),
                max_steps: 3_000_000,
                cases_per_seed: 1,
                note: "scripted sender -> real receiver whose application disposes of every delivery (accept / release / modify, auto-accept, rejection of the ones that do not decode): every unsettled delivery is covered by a disposition on the wire",
            },
            Variant {
                name: "retention-receiver-unsettled-map-at-resume",
                weight: 1,
                make: || Box::pin(scen::c02r::run_receiver()),
                max_steps: 3_000_000,
                cases_per_seed: 1,
                note: "scripted sender -> real receiver (settling first or second): pre-settled and unsettled deliveries of 1-3 frames, outcomes applied to a seeded subset, the sender settles a seeded subset of the reported outcomes; the application detaches and resumes the link and the unsettled map of the attach it writes is read off the wire: no settled delivery in it, every outcome the sender has not settled yet in it with its state; then the sender settles the rest and the link is probed again",
            },
            Variant {
                name: "retention-sender-unsettled-map-at-resume",
                weight: 1,
                make: || Box::pin(scen::c02r::run_sender()),
                max_steps: 3_000_000,
                cases_per_seed: 1,
                note: "real sender -> scripted receiver: a seeded subset of the deliveries is settled (pre-settled, settled by the receiver's disposition, or outcome + the sender's own settling disposition in mode second), the rest is left outstanding; the application detaches and resumes the link: no settled delivery in the unsettled map of the attach it writes",
            },
        ],
        quick_runs: 6_000,
        thorough_runs: 300_000,
        rule: "one run = 1-3 links, 1-20 deliveries each with its own distinguishable planned outcome (accepted, rejected with a unique description, released, modified with seeded flags), every snd/rcv settle-mode combination, sends that are plain or batchable with outcomes awaited in a seeded order, and either a real receiver disposing one by one / in *_all batches / out of order / through the disposer / late, or a scripted receiver issuing single-id, range (also spanning links), duplicate, non-terminal-first, unsettled-then-settled and unknown-id dispositions; every run is non-trivial; distinct = distinct event-log hash",
        assumptions: vec![
            "what an endpoint retains in its unsettled state is read from the unsettled map of the attach frame it writes when the application detaches and resumes the link (client side; the listener does not resume links), and through visible effects elsewhere (a repeated disposition must not change a resolved send; mode-second echoes on the wire)",
        ],
        real_components: REAL.to_vec(),
        stub_components: STUB.to_vec(),
        expected_probes: vec!["receiver-unsettled-map-read", "sender-unsettled-map-read", "settled-delivery-absent-from-unsettled-map", "outcome-kept-until-sender-settles", "second-probe-after-late-settlement", "resumed-link-works", "settling-echo-checked", "range-disposition", "non-terminal-disposition-first", "disposition-for-unknown-id", "repeated-disposition-for-settled-id", "unsettled-then-settled", "range-over-already-settled-ids"],
    }
}

fn c10() -> Property {
    Property {
        id: "C10",
        level: "exploration",
        variants: vec![
            Variant {
                name: "client-receiver-vs-fragmenting-sender",
                weight: 3,
                make: || Box::pin(scen::c10::run_client()),
                max_steps: 3_000_000,
                cases_per_seed: 1,
            note: "real client Receiver(s) <-> scripted sender that fragments deliveries",
            },
            Variant {
                name: "listener-receiver-vs-fragmenting-sender",
                weight: 1,
                make: || Box::pin(scen::c10::run_listener()),
                max_steps: 3_000_000,
                cases_per_seed: 1,
            note: "real listener-side Receiver(s) <-> scripted sender that fragments deliveries",
            },
            Variant {
                name: "stream-with-undecodable-deliveries",
                weight: 1,
                make: || Box::pin(scen::c09::run_client_stream_only()),
                max_steps: 3_000_000,
                cases_per_seed: 1,
                note: "C09's scripted credit-respecting sender streaming single- and multi-frame deliveries, every second to sixth of which does not decode (recv fails with the recoverable decode error and the application rejects the delivery): what a delivery that fails at its last frame leaves behind must not depend on the number of frames it came in - every other delivery comes out, once, in order",
            },
        ],
        quick_runs: 10_000,
        thorough_runs: 500_000,
        rule: "one run = 2-7 deliveries, each a seeded message split into 1-7 transfer frames at seeded offsets (uniform, and biased into section headers, length fields and the first/last 3 bytes; empty-payload frames), continuation frames that omit or repeat delivery-id/delivery-tag/message-format, settled appearing late, a delivery on a second link interleaved between the frames, abort at a seeded position followed by normal deliveries, and (1 run in 5) one contradictory continuation field; seeded stream fragmentation and schedule; every run is non-trivial; distinct = distinct event-log hash",
        assumptions: vec![
            "'receives nothing before the final frame' is checked at simulator-proven quiescence after each non-final frame",
            "after a contradictory continuation frame the only accepted results are an error from recv or a detached link, never a message",
        ],
        real_components: REAL.to_vec(),
        stub_components: STUB.to_vec(),
        expected_probes: vec!["empty-payload-frame", "checked-nothing-before-last-frame", "interleaved-other-link", "delivery-aborted", "contradictory-continuation-field", "contradiction-reported-as-error"],
    }
}

fn c09() -> Property {
    Property {
        id: "C09",
        level: "exploration",
        variants: vec![
            Variant {
                name: "client-receiver-vs-scripted-sender",
                weight: 3,
                make: || Box::pin(scen::c09::run_client()),
                max_steps: 3_000_000,
                cases_per_seed: 1,
            note: "real client Receiver <-> scripted sender",
            },
            Variant {
                name: "listener-receiver-vs-scripted-sender",
                weight: 1,
                make: || Box::pin(scen::c09::run_listener()),
                max_steps: 3_000_000,
                cases_per_seed: 1,
            note: "real listener-side Receiver (LinkAcceptor) <-> scripted client sender",
            },
        ],
        quick_runs: 8_000,
        thorough_runs: 300_000,
        rule: "one run = seeded credit policy (Auto(n) n in {1,2,3,4,5,10,200} or Manual with set_credit/drain), auto-accept, rcv-settle-mode, disposal order (each, batches, mixed outcomes, via the disposer, never), sender's initial delivery-count (incl. near 2^31 and 2^32), and a sender that stays within credit, goes exactly to the limit, or overruns it by 1-3 deliveries (single- and multi-frame, settled or not, occasionally restating its delivery-count); every run is non-trivial; distinct = distinct event-log hash",
        assumptions: vec![
            "liveness (replenishment) is only demanded in runs where the application disposes of every delivery it receives: the code replenishes on disposal",
            "while traffic flows a reported delivery-count must be feasible for some prefix of what the sender had written; it must be exact at quiescence",
        ],
        real_components: REAL.to_vec(),
        stub_components: STUB.to_vec(),
        expected_probes: vec!["sent-exactly-to-the-limit", "transfer-beyond-credit", "multi-frame-delivery", "sender-waited-for-credit", "sender-restated-delivery-count", "drain-answered"],
    }
}

fn c08() -> Property {
    Property {
        id: "C08",
        level: "exploration",
        variants: vec![
            Variant {
                name: "client-sender-vs-scripted-receiver",
                weight: 3,
                make: || Box::pin(scen::c08::run_client()),
                max_steps: 3_000_000,
                cases_per_seed: 1,
            note: "real client Sender <-> scripted receiver",
            },
            Variant {
                name: "listener-sender-vs-scripted-receiver",
                weight: 1,
                make: || Box::pin(scen::c08::run_listener()),
                max_steps: 3_000_000,
                cases_per_seed: 1,
            note: "real listener-side Sender (LinkAcceptor) <-> scripted client receiver",
            },
            Variant {
                name: "control-link-vs-scripted-coordinator",
                weight: 1,
                make: || Box::pin(scen::c18::run_scripted_resource()),
                max_steps: 3_000_000,
                cases_per_seed: 1,
            note: "a transaction controller's control link (a sending link like any other; the rollback of a dropped transaction takes its credit without waiting) against a scripted coordinator that hands out credit in batches of 1-3",
            },
            Variant {
                name: "resumed-sender-credit-granted-behind-the-attach",
                weight: 1,
                make: || Box::pin(scen::c02r::run_sender()),
                max_steps: 3_000_000,
                cases_per_seed: 1,
                note: "C02's retention scenario for the sender: the link is detached and resumed, the scripted receiver grants credit in a flow written right behind its attach and nothing more: the send that follows has the credit it needs and must complete",
            },
        ],
        quick_runs: 10_000,
        thorough_runs: 500_000,
        rule: "one run = seeded initial-delivery-count (incl. values near 2^31 and 2^32), 2-17 sends (single- and multi-frame at link level, settled or unsettled, batchable), a seeded flow history from the peer (grants, reductions to zero, drain on/off, echo, unset delivery-count), a seeded schedule including schedule point H2 between the failed credit check and the start of the wait, and a final grant after which the peer stays silent; every run is non-trivial; distinct = distinct event-log hash",
        assumptions: vec![
            "schedule point H2 stands for 'another thread ran here' on a multi-thread runtime; no other intra-poll preemption is explored",
            "in-flight rule for credit as for windows (quiescence floor)",
        ],
        real_components: REAL.to_vec(),
        stub_components: STUB.to_vec(),
        expected_probes: vec!["credit-granted", "credit-reduced-to-zero", "drain-consumed", "quiescence-floor", "flow-with-unset-delivery-count", "h2-yielded"],
    }
}

fn c07() -> Property {
    Property {
        id: "C07",
        level: "exploration",
        variants: vec![
            Variant {
                name: "scripted-window-history",
                weight: 7,
                make: || Box::pin(scen::c07::run_main()),
                max_steps: 3_000_000,
                cases_per_seed: 1,
            note: "real client session <-> scripted receiving session end; link-level multi-frame transfers only",
            },
            Variant {
                name: "transport-level-split",
                weight: 1,
                make: || Box::pin(scen::c07::run_split()),
                max_steps: 3_000_000,
                cases_per_seed: 1,
            note: "same, with payloads that the transport splits below the session layer",
            },
            Variant {
                name: "listener-session-vs-scripted-sender",
                weight: 2,
                make: || Box::pin(scen::c07::run_listener()),
                max_steps: 3_000_000,
                cases_per_seed: 1,
            note: "real listener session (receiving) <-> scripted sending peer, incl. transfer frames for a handle that is not attached; exact next-incoming-id at every quiescence",
            },
            Variant {
                name: "listener-sender-vs-scripted-receiver",
                weight: 1,
                make: || Box::pin(scen::c08::run_listener_window()),
                max_steps: 3_000_000,
                cases_per_seed: 1,
            note: "real listener-side sender <-> scripted receiver whose begin states a session window of 1, 2 or 5000 and whose flows (also pipelined behind the attach, before the link is accepted) restate it: held transfers must come out once the window is open",
            },
        ],
        quick_runs: 6000,
        thorough_runs: 300_000,
        rule: "one run = seeded initial next-outgoing-id (incl. values within a window of 2^32 and 2^31), windows, 1-3 sender links (+ optional receiver link), messages that are single- or multi-frame at link level, and a seeded history of peer flow frames (window 0, shrinking, unset next-incoming-id, echo) interleaved with the sends under a seeded schedule; every run is non-trivial (the peer's window always interacts with the sends); distinct = distinct event-log hash",
        assumptions: vec![
            "in-flight rule: a transfer is legal if it lies inside any window statement the peer had written before it and that is not provably superseded (quiescence floor)",
            "quiescence = the peer task's virtual sleep returned with the network idle: on the paused clock that can only happen when no endpoint task was runnable",
            "link credit is ample so that only the session window limits the sender",
        ],
        real_components: REAL.to_vec(),
        stub_components: STUB.to_vec(),
        expected_probes: vec!["window-zero", "flow-with-unset-next-incoming-id", "quiescence-floor", "peer-sent-transfer", "exact-next-incoming-id-checked", "transport-level-split"],
        // (the listener variant adds the fault kind transfer-for-unattached-handle)
    }
}

fn c01() -> Property {
    Property {
        id: "C01",
        level: "exploration",
        variants: vec![
            Variant {
                name: "pair",
                weight: 5,
                make: || Box::pin(scen::c01::run()),
                max_steps: 3_000_000,
                cases_per_seed: 1,
                note: "real client <-> real listener",
            },
            Variant {
                name: "stream-with-undecodable-deliveries",
                weight: 1,
                make: || Box::pin(scen::c09::run_client_stream_only()),
                max_steps: 3_000_000,
                cases_per_seed: 1,
                note: "scripted credit-respecting sender -> real receiver (automatic credit): single- and multi-frame deliveries, every second to sixth one undecodable (rejected by the application, which goes on): all of them come out, once, in order",
            },
            Variant {
                name: "scripted-fragmenting-sender",
                weight: 1,
                make: || Box::pin(scen::c10::run_client()),
                max_steps: 3_000_000,
                cases_per_seed: 1,
                note: "C10's scripted sender (deliveries in 1-7 frames at seeded offsets, a second link interleaved, deliveries aborted at seeded positions and followed by complete ones) against a real client receiver: every complete delivery comes out once, unchanged, in order; an aborted one never",
            },
        ],
        quick_runs: 6000,
        thorough_runs: 300_000,
        rule: "one run = one seeded configuration (frame sizes, windows, credit policy, settle modes, buffer sizes), workload (1-3 links, 1-40 messages, all section subsets, bodies around frame-size multiples), network behaviour and task schedule; non-trivial = at least one network fault/fragmentation event fired or at least one multi-frame message; distinct = distinct event-log hash (covers scheduler picks, wire bytes, delivery chunking)",
        assumptions: vec![
            "the connection stays up (no cuts, no corruption) as the property states",
            "Body::Empty is compared as amqp-value(null): the codec encodes an absent body that way by design",
            "exotic value classes (decimals, chars, arrays, described values in sections) are left to the codec properties",
        ],
        real_components: REAL.to_vec(),
        stub_components: STUB.to_vec(),
        expected_probes: vec!["multi-frame-message", "link-level-split-message", "net-fragmented-delivery", "manual-credit-refill"],
    }
}
