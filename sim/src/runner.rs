//! Batch orchestration: worker processes, minimisation, replay files, evidence,
//! known findings.

use std::collections::{BTreeMap, BTreeSet, HashSet};
use std::io::{BufRead, BufReader, Write};
use std::process::{Command, Stdio};
use std::sync::atomic::{AtomicU64, Ordering};
use std::time::{Duration, Instant};

use serde_json::{json, Value as J};

use crate::chooser::derive_seed;
use crate::sim::{self, Limits, RunResult, Source};
use crate::world::LocalFut;

pub struct Variant {
    pub name: &'static str,
    pub weight: u32,
    pub make: fn() -> LocalFut,
    pub max_steps: u64,
    /// runs of this variant count as fault/non-trivial only when the run says so
    pub note: &'static str,
    /// enumeration: this many consecutive run indices share one seed and differ in `sim::case()`
    pub cases_per_seed: u64,
}

pub struct Property {
    pub id: &'static str,
    pub level: &'static str,
    pub variants: Vec<Variant>,
    pub quick_runs: u64,
    pub thorough_runs: u64,
    pub rule: &'static str,
    pub assumptions: Vec<&'static str>,
    pub real_components: Vec<&'static str>,
    pub stub_components: Vec<&'static str>,
    /// probes that this property's workload is expected to reach
    pub expected_probes: Vec<&'static str>,
}

impl Property {
    /// Variants are chosen per block of `max cases_per_seed` consecutive run indices, so that
    /// the cases of one enumeration share a seed
    pub fn variant_for(&self, index: u64) -> &Variant {
        let block = self.variants.iter().map(|v| v.cases_per_seed.max(1)).max().unwrap_or(1);
        let total: u64 = self.variants.iter().map(|v| v.weight as u64).sum();
        let mut k = (index / block) % total.max(1);
        for v in &self.variants {
            if k < v.weight as u64 {
                return v;
            }
            k -= v.weight as u64;
        }
        &self.variants[0]
    }
    /// (seed index, case) of a run index
    pub fn seed_and_case(&self, index: u64) -> (u64, u64) {
        let v = self.variant_for(index);
        let cps = v.cases_per_seed.max(1);
        if cps == 1 {
            (index, 0)
        } else {
            (index / cps, index % cps)
        }
    }
    pub fn variant_named(&self, name: &str) -> Option<&Variant> {
        self.variants.iter().find(|v| v.name == name)
    }
}

pub fn verif_root() -> String {
    std::env::var("VERIF_ROOT").unwrap_or_else(|_| "/verif".to_string())
}

pub static STEP_BEAT: AtomicU64 = AtomicU64::new(0);

fn run_once(v: &Variant, seed: u64, source: Source, trace: bool, case: u64) -> RunResult {
    sim::set_case(case);
    let limits = Limits {
        max_steps: v.max_steps,
        ..Limits::default()
    };
    let make = v.make;
    sim::run(seed, source, trace, limits, move || make())
}

fn class_of(r: &RunResult) -> Option<(String, String)> {
    r.violation.as_ref().map(|v| (v.kind.clone(), v.sig.clone()))
}

/// Hypothesis-style minimisation of the choice sequence: delete blocks, zero
/// blocks, shrink single values — while the same violation class persists.
fn minimise(v: &Variant, seed: u64, case: u64, choices: Vec<u32>, class: &(String, String), budget: usize) -> (Vec<u32>, usize) {
    let mut best = choices;
    let mut execs = 0usize;
    let still = |cand: &Vec<u32>, execs: &mut usize| -> Option<Vec<u32>> {
        *execs += 1;
        let r = run_once(v, seed, Source::Replay(cand.clone()), false, case);
        if class_of(&r).as_ref() == Some(class) {
            // keep what was actually consumed
            let mut used = r.choices;
            while used.last() == Some(&0) {
                used.pop();
            }
            Some(used)
        } else {
            None
        }
    };
    // normalise first: the replay of the recorded sequence
    if let Some(u) = still(&best, &mut execs) {
        best = u;
    } else {
        return (best, execs);
    }
    let mut improved = true;
    while improved && execs < budget {
        improved = false;
        // delete blocks
        let mut size = (best.len() / 2).max(1);
        while size >= 1 && execs < budget {
            let mut i = 0;
            while i + size <= best.len() && execs < budget {
                let mut cand = best.clone();
                cand.drain(i..i + size);
                if let Some(u) = still(&cand, &mut execs) {
                    if u.len() < best.len() || u < best {
                        best = u;
                        improved = true;
                        continue;
                    }
                }
                i += size;
            }
            if size == 1 {
                break;
            }
            size /= 2;
        }
        // zero blocks
        let mut size = (best.len() / 4).max(1);
        while size >= 1 && execs < budget {
            let mut i = 0;
            while i < best.len() && execs < budget {
                let end = (i + size).min(best.len());
                if best[i..end].iter().any(|&x| x != 0) {
                    let mut cand = best.clone();
                    for x in &mut cand[i..end] {
                        *x = 0;
                    }
                    if let Some(u) = still(&cand, &mut execs) {
                        if u <= cand {
                            best = u;
                            improved = true;
                        }
                    }
                }
                i += size;
            }
            if size == 1 {
                break;
            }
            size /= 2;
        }
        // shrink values
        let mut i = 0;
        while i < best.len() && execs < budget {
            if best[i] > 1 {
                let mut cand = best.clone();
                cand[i] /= 2;
                if let Some(u) = still(&cand, &mut execs) {
                    best = u;
                    improved = true;
                    continue;
                }
            }
            i += 1;
        }
    }
    (best, execs)
}

fn violation_json(prop: &Property, v: &Variant, tier: &str, seed: u64, index: u64, case: u64, r: &RunResult, minimised_from: usize) -> J {
    let viol = r.violation.as_ref().unwrap();
    json!({
        "property": prop.id,
        "variant": v.name,
        "tier": tier,
        "seed": seed.to_string(),
        "index": index,
        "case": case,
        "config": r.config,
        "choices": r.choices,
        "violation": {
            "kind": viol.kind, "sig": viol.sig, "step": viol.step, "virtual_ms": viol.vms, "message": viol.msg, "harness": viol.harness
        },
        // (where the wall-clock budget runs out is not a function of the seed: the class is compared on replay, not the log)
        "event_log_hash": if viol.kind == "work-out-of-proportion" { String::new() } else { format!("{:016x}", r.ev_hash) },
        "event_log_tail": r.tail,
        "minimised_from": minimised_from,
    })
}

#[derive(Default)]
struct Totals {
    runs: u64,
    nontrivial: u64,
    steps: u64,
    vms: u64,
    choices: u64,
    probes: BTreeMap<String, u64>,
    faults: BTreeMap<String, u64>,
    runs_with_fault: u64,
    hashes: HashSet<u64>,
    sched: HashSet<u64>,
    per_variant: BTreeMap<String, u64>,
    samples: Vec<J>,
    violations: Vec<J>,
    classes_seen: BTreeMap<(String, String), u64>,
    max_run_cpu_ms: u64,
}

/// Worker process: runs indices start, start+stride, .. < total
pub fn worker_main(prop: &Property, tier: &str, base_seed: u64, start: u64, stride: u64, total: u64, deadline_s: u64) {
    let t0 = Instant::now();
    // watchdog: a single poll that takes longer than 20 s of wall time is a stall
    std::thread::spawn(|| {
        let mut last = STEP_BEAT.load(Ordering::Relaxed);
        // processor time, not wall time: the verdict must not depend on the load of the machine
        let mut since = crate::sim::process_cpu_ms();
        loop {
            std::thread::sleep(Duration::from_secs(1));
            let now = STEP_BEAT.load(Ordering::Relaxed);
            if now == last && now & 1 == 1 {
                let quiet = crate::sim::process_cpu_ms().saturating_sub(since) / 1000;
                if quiet >= 20 {
                    println!("W stall");
                    let _ = std::io::stdout().flush();
                    std::process::exit(97);
                }
            } else {
                since = crate::sim::process_cpu_ms();
                last = now;
            }
        }
    });
    let mut t = Totals::default();
    let out = std::io::stdout();
    let mut idx = start;
    while idx < total {
        if t0.elapsed().as_secs() > deadline_s {
            break;
        }
        let v = prop.variant_for(idx);
        let (seed_index, case) = prop.seed_and_case(idx);
        let seed = derive_seed(base_seed, prop.id, seed_index);
        {
            let mut o = out.lock();
            let _ = writeln!(o, "S {} {} {}", idx, seed, v.name);
            let _ = o.flush();
        }
        let cpu0 = crate::sim::process_cpu_ms();
        let r = run_once(v, seed, Source::Seed, false, case);
        t.max_run_cpu_ms = t.max_run_cpu_ms.max(crate::sim::process_cpu_ms().saturating_sub(cpu0));
        t.runs += 1;
        t.steps += r.steps;
        t.vms += r.vms;
        t.choices += r.choices.len() as u64;
        *t.per_variant.entry(v.name.to_string()).or_insert(0) += 1;
        for (k, n) in &r.probes {
            *t.probes.entry(k.to_string()).or_insert(0) += n;
        }
        for (k, n) in &r.faults {
            *t.faults.entry(k.to_string()).or_insert(0) += n;
        }
        if !r.faults.is_empty() {
            t.runs_with_fault += 1;
        }
        if r.nontrivial {
            t.nontrivial += 1;
            if t.hashes.len() < 400_000 {
                t.hashes.insert(r.ev_hash);
            }
        }
        if t.sched.len() < 400_000 {
            t.sched.insert(r.sched_hash);
        }
        if t.samples.len() < 2 && r.nontrivial && r.violation.is_none() {
            t.samples.push(json!({
                "index": idx, "seed": seed.to_string(), "variant": v.name, "config": r.config,
                "steps": r.steps, "virtual_ms": r.vms, "choices_drawn": r.choices.len(),
                "faults": r.faults.iter().map(|(k, v)| (k.to_string(), *v)).collect::<BTreeMap<_, _>>(),
                "probes": r.probes.iter().map(|(k, v)| (k.to_string(), *v)).collect::<BTreeMap<_, _>>(),
            }));
        }
        if let Some(class) = class_of(&r) {
            let n = t.classes_seen.entry(class.clone()).or_insert(0);
            *n += 1;
            if *n == 1 {
                // minimise, then re-run with tracing to capture the tail
                let from = r.choices.len();
                // (a run that burns its wall-clock budget is not minimised: every attempt would burn it again)
                let budget = if class.0 == "work-out-of-proportion" { 0 } else { 300 };
                let (min, _execs) = minimise(v, seed, case, r.choices.clone(), &class, budget);
                let traced = run_once(v, seed, Source::Replay(min.clone()), true, case);
                let rec = if class_of(&traced).as_ref() == Some(&class) {
                    violation_json(prop, v, tier, seed, idx, case, &traced, from)
                } else {
                    // minimisation result does not reproduce under tracing: report the original
                    let orig = run_once(v, seed, Source::Replay(r.choices.clone()), true, case);
                    if class_of(&orig).as_ref() == Some(&class) {
                        violation_json(prop, v, tier, seed, idx, case, &orig, from)
                    } else {
                        let mut j = violation_json(prop, v, tier, seed, idx, case, &r, from);
                        j["replay_unstable"] = json!(true);
                        j
                    }
                };
                let mut o = out.lock();
                let _ = writeln!(o, "V {}", rec);
                let _ = o.flush();
            }
            if class.0 == "work-out-of-proportion" {
                // every further run of that kind would burn the budget again: this worker's share of
                // the batch ends here (the batch has failed already)
                break;
            }
        }
        idx += stride;
    }
    let totals = json!({
        "runs": t.runs, "nontrivial": t.nontrivial, "steps": t.steps, "vms": t.vms, "choices": t.choices,
        "probes": t.probes, "faults": t.faults, "runs_with_fault": t.runs_with_fault,
        "hashes": t.hashes.iter().map(|h| format!("{:x}", h)).collect::<Vec<_>>(),
        "sched": t.sched.iter().map(|h| format!("{:x}", h)).collect::<Vec<_>>(),
        "per_variant": t.per_variant, "samples": t.samples, "max_run_cpu_ms": t.max_run_cpu_ms,
        "classes": t.classes_seen.iter().map(|((k, s), n)| json!({"kind": k, "sig": s, "count": n})).collect::<Vec<_>>(),
    });
    let mut o = out.lock();
    let _ = writeln!(o, "T {}", totals);
    let _ = o.flush();
}

#[derive(Debug, Clone)]
pub struct KnownFinding {
    pub property: String,
    pub kind: String,
    pub sig: String,
    pub what: String,
}

pub fn load_known_findings() -> Vec<KnownFinding> {
    let path = format!("{}/known_findings.json", verif_root());
    let text = match std::fs::read_to_string(&path) {
        Ok(t) => t,
        Err(_) => return vec![],
    };
    let j: J = match serde_json::from_str(&text) {
        Ok(j) => j,
        Err(e) => {
            eprintln!("known_findings.json does not parse: {}", e);
            std::process::exit(2);
        }
    };
    let mut out = Vec::new();
    if let Some(arr) = j.get("known").and_then(|k| k.as_array()) {
        for e in arr {
            out.push(KnownFinding {
                property: e["property"].as_str().unwrap_or("").to_string(),
                kind: e["kind"].as_str().unwrap_or("").to_string(),
                sig: e["sig"].as_str().unwrap_or("").to_string(),
                what: e["what"].as_str().unwrap_or("").to_string(),
            });
        }
    }
    out
}

fn matches_known<'a>(known: &'a [KnownFinding], prop: &str, kind: &str, sig: &str) -> Option<&'a KnownFinding> {
    known
        .iter()
        .find(|k| k.property == prop && (k.kind == kind || k.kind == "*") && !k.sig.is_empty() && k.sig == sig)
}

pub fn orchestrate(prop: &Property, tier: &str, base_seed: u64, runs_override: Option<u64>, workers: usize, max_wall_s: u64) -> i32 {
    let t0 = Instant::now();
    let total = runs_override.unwrap_or(if tier == "thorough" { prop.thorough_runs } else { prop.quick_runs });
    let exe = std::env::current_exe().expect("current exe");
    let workers = workers.max(1).min(total.max(1) as usize);
    let mut children = Vec::new();
    for w in 0..workers {
        let child = Command::new(&exe)
            .arg("--worker")
            .arg(prop.id)
            .arg(tier)
            .arg(base_seed.to_string())
            .arg(w.to_string())
            .arg(workers.to_string())
            .arg(total.to_string())
            .arg(max_wall_s.to_string())
            .stdout(Stdio::piped())
            .stderr(Stdio::inherit())
            .spawn()
            .expect("spawn worker");
        children.push(child);
    }
    let mut handles = Vec::new();
    for mut child in children {
        handles.push(std::thread::spawn(move || {
            let stdout = child.stdout.take().unwrap();
            let reader = BufReader::new(stdout);
            let mut last_start: Option<(u64, String, String)> = None;
            let mut totals: Option<J> = None;
            let mut viols: Vec<J> = Vec::new();
            let mut stalled = false;
            for line in reader.lines() {
                let line = match line {
                    Ok(l) => l,
                    Err(_) => break,
                };
                if let Some(rest) = line.strip_prefix("S ") {
                    let mut it = rest.split(' ');
                    let idx = it.next().and_then(|x| x.parse().ok()).unwrap_or(0);
                    let seed = it.next().unwrap_or("").to_string();
                    let var = it.next().unwrap_or("").to_string();
                    last_start = Some((idx, seed, var));
                } else if let Some(rest) = line.strip_prefix("V ") {
                    if let Ok(j) = serde_json::from_str::<J>(rest) {
                        viols.push(j);
                    }
                } else if let Some(rest) = line.strip_prefix("T ") {
                    totals = serde_json::from_str::<J>(rest).ok();
                } else if line.starts_with("W ") {
                    stalled = true;
                }
            }
            let status = child.wait().ok();
            (status, last_start, totals, viols, stalled)
        }));
    }
    let known = load_known_findings();
    let mut runs = 0u64;
    let mut nontrivial = 0u64;
    let mut steps = 0u64;
    let mut vms = 0u64;
    let mut choices = 0u64;
    let mut runs_with_fault = 0u64;
    let mut max_run_cpu_ms = 0u64;
    let mut probes: BTreeMap<String, u64> = BTreeMap::new();
    let mut faults: BTreeMap<String, u64> = BTreeMap::new();
    let mut per_variant: BTreeMap<String, u64> = BTreeMap::new();
    let mut hashes: BTreeSet<String> = BTreeSet::new();
    let mut sched: BTreeSet<String> = BTreeSet::new();
    let mut samples: Vec<J> = Vec::new();
    let mut violations: Vec<J> = Vec::new();
    let mut class_counts: BTreeMap<(String, String), u64> = BTreeMap::new();
    let mut harness_errors: Vec<String> = Vec::new();
    for h in handles {
        let (status, last_start, totals, viols, stalled) = h.join().expect("reader thread");
        let ok = status.map(|s| s.success()).unwrap_or(false);
        if !ok || totals.is_none() {
            // the worker died: attribute the death to the run it had started
            if let Some((idx, seed, var)) = last_start {
                let kind = if stalled { "single-poll-stall" } else { "abort" };
                let msg = format!(
                    "worker process died ({:?}) while executing run index {} (seed {}); {}",
                    status,
                    idx,
                    seed,
                    if stalled { "one task poll did not return within 20 s of processor time" } else { "abort, stack overflow or allocation failure" }
                );
                violations.push(json!({
                    "property": prop.id, "variant": var, "tier": tier, "seed": seed, "index": idx, "case": prop.seed_and_case(idx).1, "config": "", "choices": [],
                    "from_seed": true,
                    "violation": {"kind": kind, "sig": "", "step": 0, "virtual_ms": 0, "message": msg, "harness": false},
                    "event_log_hash": "", "event_log_tail": [], "minimised_from": 0
                }));
                *class_counts.entry((kind.to_string(), String::new())).or_insert(0) += 1;
            } else {
                harness_errors.push(format!("worker exited with {:?} before starting any run", status));
            }
        }
        violations.extend(viols);
        if let Some(t) = totals {
            runs += t["runs"].as_u64().unwrap_or(0);
            nontrivial += t["nontrivial"].as_u64().unwrap_or(0);
            steps += t["steps"].as_u64().unwrap_or(0);
            vms += t["vms"].as_u64().unwrap_or(0);
            choices += t["choices"].as_u64().unwrap_or(0);
            runs_with_fault += t["runs_with_fault"].as_u64().unwrap_or(0);
            max_run_cpu_ms = max_run_cpu_ms.max(t["max_run_cpu_ms"].as_u64().unwrap_or(0));
            for (name, map) in [("probes", &mut probes), ("faults", &mut faults), ("per_variant", &mut per_variant)] {
                if let Some(o) = t[name].as_object() {
                    for (k, v) in o {
                        *map.entry(k.clone()).or_insert(0) += v.as_u64().unwrap_or(0);
                    }
                }
            }
            if let Some(a) = t["hashes"].as_array() {
                for h in a {
                    hashes.insert(h.as_str().unwrap_or("").to_string());
                }
            }
            if let Some(a) = t["sched"].as_array() {
                for h in a {
                    sched.insert(h.as_str().unwrap_or("").to_string());
                }
            }
            if let Some(a) = t["samples"].as_array() {
                for s in a {
                    if samples.len() < 4 {
                        samples.push(s.clone());
                    }
                }
            }
            if let Some(a) = t["classes"].as_array() {
                for c in a {
                    let k = (c["kind"].as_str().unwrap_or("").to_string(), c["sig"].as_str().unwrap_or("").to_string());
                    *class_counts.entry(k).or_insert(0) += c["count"].as_u64().unwrap_or(0);
                }
            }
        }
    }

    // Report: one line per violation class
    let root = verif_root();
    let _ = std::fs::create_dir_all(format!("{}/replays", root));
    let _ = std::fs::create_dir_all(format!("{}/evidence", root));
    let mut reported: BTreeSet<(String, String)> = BTreeSet::new();
    let mut unknown = 0u64;
    let mut known_hits: BTreeMap<String, u64> = BTreeMap::new();
    let mut exit_harness = !harness_errors.is_empty();
    for v in &violations {
        let kind = v["violation"]["kind"].as_str().unwrap_or("").to_string();
        let sig = v["violation"]["sig"].as_str().unwrap_or("").to_string();
        if !reported.insert((kind.clone(), sig.clone())) {
            continue;
        }
        let count = class_counts.get(&(kind.clone(), sig.clone())).copied().unwrap_or(1);
        if v["violation"]["harness"].as_bool().unwrap_or(false) {
            exit_harness = true;
            println!("HARNESS-ERROR property={} kind={} {}", prop.id, kind, v["violation"]["message"].as_str().unwrap_or(""));
            continue;
        }
        if let Some(k) = matches_known(&known, prop.id, &kind, &sig) {
            println!("KNOWN-FINDING: property={} {} [kind={} sig={} hit in {} runs]", prop.id, k.what, kind, sig, count);
            *known_hits.entry(format!("{}/{}", kind, sig)).or_insert(0) += count;
            continue;
        }
        let seed = v["seed"].as_str().unwrap_or("0");
        let path = format!("{}/replays/{}-{}-{}.json", root, prop.id, kind.replace(':', "_"), seed);
        let text = serde_json::to_string_pretty(v).unwrap();
        if std::fs::write(&path, text).is_err() {
            eprintln!("cannot write replay file {}", path);
            exit_harness = true;
            continue;
        }
        // the minimised replay must reproduce in a fresh process
        let st = Command::new(&exe).arg("--replay").arg(&path).arg("--quiet").stdout(Stdio::null()).status();
        let reproduced = matches!(st.as_ref().map(|s| s.code()), Ok(Some(1)));
        let died = matches!(st.as_ref().map(|s| s.code()), Ok(None)) || matches!(st.as_ref().map(|s| s.code()), Ok(Some(97)));
        if reproduced || (died && (kind == "abort" || kind == "single-poll-stall")) {
            unknown += 1;
            println!("VIOLATION property={} replay={}", prop.id, path);
            println!("  kind={} sig={} runs_hit={} :: {}", kind, sig, count, v["violation"]["message"].as_str().unwrap_or(""));
        } else {
            exit_harness = true;
            println!(
                "HARNESS-ERROR property={} replay of {} did not reproduce the violation in a fresh process (exit {:?})",
                prop.id, path, st
            );
        }
    }
    for e in &harness_errors {
        println!("HARNESS-ERROR property={} {}", prop.id, e);
    }

    let wall = t0.elapsed().as_secs_f64();
    let at_zero: Vec<&str> = prop
        .expected_probes
        .iter()
        .copied()
        .filter(|p| probes.get(*p).copied().unwrap_or(0) == 0 && faults.get(*p).copied().unwrap_or(0) == 0)
        .collect();
    for p in &at_zero {
        println!("WARNING property={} reach probe `{}` stayed at zero in this batch", prop.id, p);
    }
    let evidence = json!({
        "property_id": prop.id,
        "tier": if tier == "thorough" { "thorough" } else { "quick" },
        "seed": base_seed,
        "level": prop.level,
        "wall_s": wall,
        "violations": unknown,
        "coverage": {
            "evaluations": runs,
            "distinct_nontrivial": hashes.len(),
            "rule": prop.rule,
            "samples": samples,
            "nontrivial_runs": nontrivial,
            "distinct_schedules": sched.len(),
            "scheduler_steps": steps,
            "choices_drawn": choices,
            "simulated_seconds": vms / 1000,
            "runs_per_hour": if wall > 0.0 { (runs as f64 / wall * 3600.0) as u64 } else { 0 },
            "seeds_per_hour": if wall > 0.0 { (runs as f64 / wall * 3600.0) as u64 } else { 0 },
            "runs_with_at_least_one_fault": runs_with_fault,
            "most_processor_time_used_by_one_run_ms": max_run_cpu_ms,
            "processor_time_budget_per_run_ms": crate::sim::RUN_WALL_BUDGET_S * 1000,
            "faults_fired": faults,
            "reach_probes": probes,
            "probes_at_zero": at_zero,
            "runs_per_variant": per_variant,
            "known_findings_hit": known_hits,
            "workers": workers,
            "real_components": prop.real_components,
            "stub_components": prop.stub_components,
        },
        "assumptions": prop.assumptions,
    });
    let epath = format!("{}/evidence/{}.json", root, prop.id);
    if std::fs::write(&epath, serde_json::to_string_pretty(&evidence).unwrap()).is_err() {
        eprintln!("cannot write evidence file {}", epath);
        exit_harness = true;
    }
    println!(
        "{} {}: {} runs ({} non-trivial, {} distinct), {} steps, {} simulated s, {} unknown violation classes, {} known-finding classes, {:.1}s wall",
        prop.id,
        tier,
        runs,
        nontrivial,
        hashes.len(),
        steps,
        vms / 1000,
        unknown,
        known_hits.len(),
        wall
    );
    if unknown > 0 {
        1
    } else if exit_harness {
        2
    } else {
        0
    }
}

/// `--replay <file>`: re-execute one recorded run; exit 1 if the recorded
/// violation class reproduces (and the event-log hash matches), 0 if no
/// violation occurs, 2 on mismatch.
pub fn replay_main(props: &[Property], path: &str, quiet: bool) -> i32 {
    let text = match std::fs::read_to_string(path) {
        Ok(t) => t,
        Err(e) => {
            eprintln!("cannot read {}: {}", path, e);
            return 2;
        }
    };
    let j: J = match serde_json::from_str(&text) {
        Ok(j) => j,
        Err(e) => {
            eprintln!("cannot parse {}: {}", path, e);
            return 2;
        }
    };
    let pid = j["property"].as_str().unwrap_or("");
    let prop = match props.iter().find(|p| p.id == pid) {
        Some(p) => p,
        None => {
            eprintln!("unknown property {}", pid);
            return 2;
        }
    };
    let v = match prop.variant_named(j["variant"].as_str().unwrap_or("")) {
        Some(v) => v,
        None => {
            eprintln!("unknown variant {:?}", j["variant"]);
            return 2;
        }
    };
    let seed: u64 = j["seed"].as_str().and_then(|s| s.parse().ok()).unwrap_or(0);
    let from_seed = j["from_seed"].as_bool().unwrap_or(false);
    let choices: Vec<u32> = j["choices"]
        .as_array()
        .map(|a| a.iter().map(|x| x.as_u64().unwrap_or(0) as u32).collect())
        .unwrap_or_default();
    let source = if from_seed { Source::Seed } else { Source::Replay(choices) };
    let case = j["case"].as_u64().unwrap_or(0);
    let want_kind = j["violation"]["kind"].as_str().unwrap_or("");
    {
        // the same stall watchdog as in the workers: one task poll that takes longer than 20 s
        let (pid2, path2, stall_expected) = (prop.id.to_string(), path.to_string(), want_kind == "single-poll-stall");
        std::thread::spawn(move || {
            let mut last = STEP_BEAT.load(Ordering::Relaxed);
            let mut since = crate::sim::process_cpu_ms();
            loop {
                std::thread::sleep(Duration::from_secs(1));
                let now = STEP_BEAT.load(Ordering::Relaxed);
                if now == last && now & 1 == 1 {
                    let quiet_s = crate::sim::process_cpu_ms().saturating_sub(since) / 1000;
                    if quiet_s >= 20 {
                        if stall_expected {
                            println!("VIOLATION property={} replay={}", pid2, path2);
                            println!("  kind=single-poll-stall sig= :: one task poll did not return within 20 s of processor time");
                            let _ = std::io::stdout().flush();
                            std::process::exit(1);
                        }
                        println!("REPLAY-MISMATCH one task poll did not return within 20 s of processor time");
                        let _ = std::io::stdout().flush();
                        std::process::exit(97);
                    }
                } else {
                    since = crate::sim::process_cpu_ms();
                    last = now;
                }
            }
        });
    }
    let r = run_once(v, seed, source, true, case);
    let want_sig = j["violation"]["sig"].as_str().unwrap_or("");
    let want_hash = j["event_log_hash"].as_str().unwrap_or("");
    if !quiet {
        for l in &r.tail {
            println!("{}", l);
        }
        println!("config: {}", r.config);
    }
    match &r.violation {
        Some(viol) => {
            let got_hash = format!("{:016x}", r.ev_hash);
            if viol.kind == want_kind && viol.sig == want_sig {
                if !want_hash.is_empty() && got_hash != want_hash {
                    println!("REPLAY-MISMATCH same violation class but event-log hash {} != recorded {}", got_hash, want_hash);
                    return 2;
                }
                println!("VIOLATION property={} replay={}", prop.id, path);
                println!("  kind={} sig={} step={} t={}ms :: {}", viol.kind, viol.sig, viol.step, viol.vms, viol.msg);
                1
            } else {
                println!(
                    "REPLAY-MISMATCH recorded {}/{} but got {}/{}: {}",
                    want_kind, want_sig, viol.kind, viol.sig, viol.msg
                );
                2
            }
        }
        None => {
            println!("replay of {} completed without violation", path);
            0
        }
    }
}
