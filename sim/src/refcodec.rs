//! An independent AMQP 1.0 value codec written from the specification (no
//! `serde_amqp`). It is used by the wire monitor (to read what the real
//! endpoints wrote) and by the scripted peer (to write what a peer would, legal
//! or not).

use std::fmt;

#[derive(Clone, PartialEq)]
pub enum V {
    Null,
    Bool(bool),
    Ubyte(u8),
    Ushort(u16),
    Uint(u32),
    Ulong(u64),
    Byte(i8),
    Short(i16),
    Int(i32),
    Long(i64),
    Float(u32),
    Double(u64),
    Dec32([u8; 4]),
    Dec64([u8; 8]),
    Dec128([u8; 16]),
    Char(u32),
    Timestamp(i64),
    Uuid([u8; 16]),
    Bin(Vec<u8>),
    Str(String),
    Sym(String),
    List(Vec<V>),
    Map(Vec<(V, V)>),
    /// (element constructor is derived from the first element)
    Array(Vec<V>),
    Described(Box<V>, Box<V>),
}

impl fmt::Debug for V {
    fn fmt(&self, f: &mut fmt::Formatter<'_>) -> fmt::Result {
        match self {
            V::Null => write!(f, "null"),
            V::Bool(b) => write!(f, "{}", b),
            V::Ubyte(v) => write!(f, "{}ub", v),
            V::Ushort(v) => write!(f, "{}us", v),
            V::Uint(v) => write!(f, "{}", v),
            V::Ulong(v) => write!(f, "{}ul", v),
            V::Byte(v) => write!(f, "{}b", v),
            V::Short(v) => write!(f, "{}s", v),
            V::Int(v) => write!(f, "{}i", v),
            V::Long(v) => write!(f, "{}l", v),
            V::Float(v) => write!(f, "f32:{:x}", v),
            V::Double(v) => write!(f, "f64:{:x}", v),
            V::Dec32(_) | V::Dec64(_) | V::Dec128(_) => write!(f, "dec"),
            V::Char(c) => write!(f, "char:{:x}", c),
            V::Timestamp(t) => write!(f, "ts:{}", t),
            V::Uuid(u) => write!(f, "uuid:{:02x}{:02x}..", u[0], u[1]),
            V::Bin(b) => {
                if b.len() <= 12 {
                    write!(f, "bin:{}", hex(b))
                } else {
                    write!(f, "bin[{}]:{}..", b.len(), hex(&b[..8]))
                }
            }
            V::Str(s) => {
                if s.len() <= 40 {
                    write!(f, "{:?}", s)
                } else {
                    write!(f, "str[{}]", s.len())
                }
            }
            V::Sym(s) => write!(f, ":{}", s),
            V::List(l) => f.debug_list().entries(l.iter()).finish(),
            V::Map(m) => f.debug_map().entries(m.iter().map(|(k, v)| (k, v))).finish(),
            V::Array(a) => {
                write!(f, "array")?;
                f.debug_list().entries(a.iter()).finish()
            }
            V::Described(d, v) => write!(f, "@{:?}{:?}", d, v),
        }
    }
}

pub fn hex(b: &[u8]) -> String {
    b.iter().map(|x| format!("{:02x}", x)).collect()
}

#[derive(Debug, Clone, PartialEq)]
pub enum DecErr {
    Eof,
    BadCode(u8),
    BadUtf8,
    BadSize,
    TooDeep,
}

const MAX_DEPTH: usize = 64;

pub struct Dec<'a> {
    pub buf: &'a [u8],
    pub pos: usize,
}

impl<'a> Dec<'a> {
    pub fn new(buf: &'a [u8]) -> Self {
        Dec { buf, pos: 0 }
    }
    fn take(&mut self, n: usize) -> Result<&'a [u8], DecErr> {
        if self.buf.len() - self.pos < n {
            return Err(DecErr::Eof);
        }
        let s = &self.buf[self.pos..self.pos + n];
        self.pos += n;
        Ok(s)
    }
    fn u8(&mut self) -> Result<u8, DecErr> {
        Ok(self.take(1)?[0])
    }
    fn u16(&mut self) -> Result<u16, DecErr> {
        Ok(u16::from_be_bytes(self.take(2)?.try_into().unwrap()))
    }
    fn u32(&mut self) -> Result<u32, DecErr> {
        Ok(u32::from_be_bytes(self.take(4)?.try_into().unwrap()))
    }
    fn u64(&mut self) -> Result<u64, DecErr> {
        Ok(u64::from_be_bytes(self.take(8)?.try_into().unwrap()))
    }
    pub fn value(&mut self) -> Result<V, DecErr> {
        self.value_d(0)
    }
    fn value_d(&mut self, depth: usize) -> Result<V, DecErr> {
        if depth > MAX_DEPTH {
            return Err(DecErr::TooDeep);
        }
        let code = self.u8()?;
        if code == 0x00 {
            let d = self.value_d(depth + 1)?;
            let v = self.value_d(depth + 1)?;
            return Ok(V::Described(Box::new(d), Box::new(v)));
        }
        self.with_code(code, depth)
    }
    fn with_code(&mut self, code: u8, depth: usize) -> Result<V, DecErr> {
        Ok(match code {
            0x40 => V::Null,
            0x56 => V::Bool(self.u8()? != 0),
            0x41 => V::Bool(true),
            0x42 => V::Bool(false),
            0x50 => V::Ubyte(self.u8()?),
            0x60 => V::Ushort(self.u16()?),
            0x70 => V::Uint(self.u32()?),
            0x52 => V::Uint(self.u8()? as u32),
            0x43 => V::Uint(0),
            0x80 => V::Ulong(self.u64()?),
            0x53 => V::Ulong(self.u8()? as u64),
            0x44 => V::Ulong(0),
            0x51 => V::Byte(self.u8()? as i8),
            0x61 => V::Short(self.u16()? as i16),
            0x71 => V::Int(self.u32()? as i32),
            0x54 => V::Int(self.u8()? as i8 as i32),
            0x81 => V::Long(self.u64()? as i64),
            0x55 => V::Long(self.u8()? as i8 as i64),
            0x72 => V::Float(self.u32()?),
            0x82 => V::Double(self.u64()?),
            0x74 => V::Dec32(self.take(4)?.try_into().unwrap()),
            0x84 => V::Dec64(self.take(8)?.try_into().unwrap()),
            0x94 => V::Dec128(self.take(16)?.try_into().unwrap()),
            0x73 => V::Char(self.u32()?),
            0x83 => V::Timestamp(self.u64()? as i64),
            0x98 => V::Uuid(self.take(16)?.try_into().unwrap()),
            0xa0 => {
                let n = self.u8()? as usize;
                V::Bin(self.take(n)?.to_vec())
            }
            0xb0 => {
                let n = self.u32()? as usize;
                V::Bin(self.take(n)?.to_vec())
            }
            0xa1 => {
                let n = self.u8()? as usize;
                V::Str(String::from_utf8(self.take(n)?.to_vec()).map_err(|_| DecErr::BadUtf8)?)
            }
            0xb1 => {
                let n = self.u32()? as usize;
                V::Str(String::from_utf8(self.take(n)?.to_vec()).map_err(|_| DecErr::BadUtf8)?)
            }
            0xa3 => {
                let n = self.u8()? as usize;
                V::Sym(String::from_utf8(self.take(n)?.to_vec()).map_err(|_| DecErr::BadUtf8)?)
            }
            0xb3 => {
                let n = self.u32()? as usize;
                V::Sym(String::from_utf8(self.take(n)?.to_vec()).map_err(|_| DecErr::BadUtf8)?)
            }
            0x45 => V::List(vec![]),
            0xc0 | 0xd0 | 0xc1 | 0xd1 => {
                let (size, count) = if code & 0xf0 == 0xc0 {
                    let s = self.u8()? as usize;
                    if s < 1 {
                        return Err(DecErr::BadSize);
                    }
                    let c = self.u8()? as usize;
                    (s - 1, c)
                } else {
                    let s = self.u32()? as usize;
                    if s < 4 {
                        return Err(DecErr::BadSize);
                    }
                    let c = self.u32()? as usize;
                    (s - 4, c)
                };
                if self.buf.len() - self.pos < size {
                    return Err(DecErr::Eof);
                }
                if count > size {
                    return Err(DecErr::BadSize);
                }
                let end = self.pos + size;
                let mut items = Vec::with_capacity(count.min(1024));
                let mut sub = Dec {
                    buf: &self.buf[..end],
                    pos: self.pos,
                };
                for _ in 0..count {
                    items.push(sub.value_d(depth + 1)?);
                }
                if sub.pos != end {
                    return Err(DecErr::BadSize);
                }
                self.pos = end;
                if code & 0x0f == 0 {
                    V::List(items)
                } else {
                    if count % 2 != 0 {
                        return Err(DecErr::BadSize);
                    }
                    let mut m = Vec::with_capacity(count / 2);
                    let mut it = items.into_iter();
                    while let (Some(k), Some(v)) = (it.next(), it.next()) {
                        m.push((k, v));
                    }
                    V::Map(m)
                }
            }
            0xe0 | 0xf0 => {
                let (size, count) = if code == 0xe0 {
                    let s = self.u8()? as usize;
                    if s < 1 {
                        return Err(DecErr::BadSize);
                    }
                    let c = self.u8()? as usize;
                    (s - 1, c)
                } else {
                    let s = self.u32()? as usize;
                    if s < 4 {
                        return Err(DecErr::BadSize);
                    }
                    let c = self.u32()? as usize;
                    (s - 4, c)
                };
                if self.buf.len() - self.pos < size {
                    return Err(DecErr::Eof);
                }
                let end = self.pos + size;
                let mut sub = Dec {
                    buf: &self.buf[..end],
                    pos: self.pos,
                };
                let ctor = sub.u8()?;
                let mut items = Vec::with_capacity(count.min(1024));
                if ctor == 0x00 {
                    let d = sub.value_d(depth + 1)?;
                    let inner = sub.u8()?;
                    for _ in 0..count {
                        let v = sub.with_code(inner, depth + 1)?;
                        items.push(V::Described(Box::new(d.clone()), Box::new(v)));
                    }
                } else {
                    if count > size && !matches!(ctor, 0x40 | 0x41 | 0x42 | 0x43 | 0x44 | 0x45) {
                        return Err(DecErr::BadSize);
                    }
                    if count > (1 << 24) {
                        return Err(DecErr::BadSize);
                    }
                    for _ in 0..count {
                        items.push(sub.with_code(ctor, depth + 1)?);
                    }
                }
                if sub.pos != end {
                    return Err(DecErr::BadSize);
                }
                self.pos = end;
                V::Array(items)
            }
            c => return Err(DecErr::BadCode(c)),
        })
    }
}

pub fn decode(buf: &[u8]) -> Result<(V, usize), DecErr> {
    let mut d = Dec::new(buf);
    let v = d.value()?;
    Ok((v, d.pos))
}

// ---------------------------------------------------------------------------------------
// Encoder (smallest encodings by default; `wide` forces the 32-bit / full-width variants)

#[derive(Clone, Copy, Default)]
pub struct EncOpts {
    pub wide: bool,
}

pub fn encode(v: &V) -> Vec<u8> {
    let mut out = Vec::new();
    enc(v, &mut out, EncOpts::default());
    out
}

pub fn encode_with(v: &V, opts: EncOpts) -> Vec<u8> {
    let mut out = Vec::new();
    enc(v, &mut out, opts);
    out
}

fn enc_var(code8: u8, code32: u8, data: &[u8], out: &mut Vec<u8>, wide: bool) {
    if data.len() <= 255 && !wide {
        out.push(code8);
        out.push(data.len() as u8);
    } else {
        out.push(code32);
        out.extend_from_slice(&(data.len() as u32).to_be_bytes());
    }
    out.extend_from_slice(data);
}

fn enc_compound(code8: u8, code32: u8, count: usize, body: &[u8], out: &mut Vec<u8>, wide: bool) {
    if body.len() + 1 <= 255 && count <= 255 && !wide {
        out.push(code8);
        out.push((body.len() + 1) as u8);
        out.push(count as u8);
    } else {
        out.push(code32);
        out.extend_from_slice(&((body.len() + 4) as u32).to_be_bytes());
        out.extend_from_slice(&(count as u32).to_be_bytes());
    }
    out.extend_from_slice(body);
}

/// constructor byte(s) for an array element + the element's data without constructor
fn array_parts(v: &V, opts: EncOpts) -> (Vec<u8>, Vec<u8>) {
    // arrays need one constructor for all elements: use the full-width form
    match v {
        V::Null => (vec![0x40], vec![]),
        V::Bool(b) => (vec![0x56], vec![*b as u8]),
        V::Ubyte(x) => (vec![0x50], vec![*x]),
        V::Ushort(x) => (vec![0x60], x.to_be_bytes().to_vec()),
        V::Uint(x) => (vec![0x70], x.to_be_bytes().to_vec()),
        V::Ulong(x) => (vec![0x80], x.to_be_bytes().to_vec()),
        V::Byte(x) => (vec![0x51], vec![*x as u8]),
        V::Short(x) => (vec![0x61], x.to_be_bytes().to_vec()),
        V::Int(x) => (vec![0x71], x.to_be_bytes().to_vec()),
        V::Long(x) => (vec![0x81], x.to_be_bytes().to_vec()),
        V::Float(x) => (vec![0x72], x.to_be_bytes().to_vec()),
        V::Double(x) => (vec![0x82], x.to_be_bytes().to_vec()),
        V::Dec32(x) => (vec![0x74], x.to_vec()),
        V::Dec64(x) => (vec![0x84], x.to_vec()),
        V::Dec128(x) => (vec![0x94], x.to_vec()),
        V::Char(x) => (vec![0x73], x.to_be_bytes().to_vec()),
        V::Timestamp(x) => (vec![0x83], x.to_be_bytes().to_vec()),
        V::Uuid(x) => (vec![0x98], x.to_vec()),
        V::Bin(b) => {
            let mut d = (b.len() as u32).to_be_bytes().to_vec();
            d.extend_from_slice(b);
            (vec![0xb0], d)
        }
        V::Str(s) => {
            let mut d = (s.len() as u32).to_be_bytes().to_vec();
            d.extend_from_slice(s.as_bytes());
            (vec![0xb1], d)
        }
        V::Sym(s) => {
            let mut d = (s.len() as u32).to_be_bytes().to_vec();
            d.extend_from_slice(s.as_bytes());
            (vec![0xb3], d)
        }
        V::List(_) | V::Map(_) | V::Array(_) => {
            let mut full = Vec::new();
            enc(v, &mut full, EncOpts { wide: true });
            (vec![full[0]], full[1..].to_vec())
        }
        V::Described(d, inner) => {
            let mut ctor = vec![0x00];
            enc(d, &mut ctor, opts);
            let (c, data) = array_parts(inner, opts);
            ctor.extend_from_slice(&c);
            (ctor, data)
        }
    }
}

pub fn enc(v: &V, out: &mut Vec<u8>, opts: EncOpts) {
    let w = opts.wide;
    match v {
        V::Null => out.push(0x40),
        V::Bool(b) => {
            if w {
                out.push(0x56);
                out.push(*b as u8);
            } else {
                out.push(if *b { 0x41 } else { 0x42 })
            }
        }
        V::Ubyte(x) => {
            out.push(0x50);
            out.push(*x)
        }
        V::Ushort(x) => {
            out.push(0x60);
            out.extend_from_slice(&x.to_be_bytes())
        }
        V::Uint(x) => {
            if w || *x > 255 {
                out.push(0x70);
                out.extend_from_slice(&x.to_be_bytes())
            } else if *x == 0 {
                out.push(0x43)
            } else {
                out.push(0x52);
                out.push(*x as u8)
            }
        }
        V::Ulong(x) => {
            if w || *x > 255 {
                out.push(0x80);
                out.extend_from_slice(&x.to_be_bytes())
            } else if *x == 0 {
                out.push(0x44)
            } else {
                out.push(0x53);
                out.push(*x as u8)
            }
        }
        V::Byte(x) => {
            out.push(0x51);
            out.push(*x as u8)
        }
        V::Short(x) => {
            out.push(0x61);
            out.extend_from_slice(&x.to_be_bytes())
        }
        V::Int(x) => {
            if !w && *x >= -128 && *x <= 127 {
                out.push(0x54);
                out.push(*x as i8 as u8)
            } else {
                out.push(0x71);
                out.extend_from_slice(&x.to_be_bytes())
            }
        }
        V::Long(x) => {
            if !w && *x >= -128 && *x <= 127 {
                out.push(0x55);
                out.push(*x as i8 as u8)
            } else {
                out.push(0x81);
                out.extend_from_slice(&x.to_be_bytes())
            }
        }
        V::Float(x) => {
            out.push(0x72);
            out.extend_from_slice(&x.to_be_bytes())
        }
        V::Double(x) => {
            out.push(0x82);
            out.extend_from_slice(&x.to_be_bytes())
        }
        V::Dec32(x) => {
            out.push(0x74);
            out.extend_from_slice(x)
        }
        V::Dec64(x) => {
            out.push(0x84);
            out.extend_from_slice(x)
        }
        V::Dec128(x) => {
            out.push(0x94);
            out.extend_from_slice(x)
        }
        V::Char(x) => {
            out.push(0x73);
            out.extend_from_slice(&x.to_be_bytes())
        }
        V::Timestamp(x) => {
            out.push(0x83);
            out.extend_from_slice(&x.to_be_bytes())
        }
        V::Uuid(x) => {
            out.push(0x98);
            out.extend_from_slice(x)
        }
        V::Bin(b) => enc_var(0xa0, 0xb0, b, out, w),
        V::Str(s) => enc_var(0xa1, 0xb1, s.as_bytes(), out, w),
        V::Sym(s) => enc_var(0xa3, 0xb3, s.as_bytes(), out, w),
        V::List(items) => {
            if items.is_empty() && !w {
                out.push(0x45);
                return;
            }
            let mut body = Vec::new();
            for i in items {
                enc(i, &mut body, opts);
            }
            enc_compound(0xc0, 0xd0, items.len(), &body, out, w);
        }
        V::Map(m) => {
            let mut body = Vec::new();
            for (k, v) in m {
                enc(k, &mut body, opts);
                enc(v, &mut body, opts);
            }
            enc_compound(0xc1, 0xd1, m.len() * 2, &body, out, w);
        }
        V::Array(items) => {
            let mut body = Vec::new();
            if let Some(first) = items.first() {
                let (ctor, _) = array_parts(first, opts);
                body.extend_from_slice(&ctor);
                for i in items {
                    let (_, data) = array_parts(i, opts);
                    body.extend_from_slice(&data);
                }
            } else {
                body.push(0x40);
            }
            enc_compound(0xe0, 0xf0, items.len(), &body, out, w);
        }
        V::Described(d, inner) => {
            out.push(0x00);
            enc(d, out, opts);
            enc(inner, out, opts);
        }
    }
}

// ---------------------------------------------------------------------------------------
// Convenience accessors for performatives (described lists, fields by position)

impl V {
    pub fn descriptor_code(&self) -> Option<u64> {
        match self {
            V::Described(d, _) => match **d {
                V::Ulong(c) => Some(c),
                V::Sym(ref s) => sym_to_code(s),
                _ => None,
            },
            _ => None,
        }
    }
    pub fn fields(&self) -> &[V] {
        match self {
            V::Described(_, v) => match &**v {
                V::List(l) => l,
                _ => &[],
            },
            V::List(l) => l,
            _ => &[],
        }
    }
    pub fn field(&self, i: usize) -> &V {
        self.fields().get(i).unwrap_or(&V::Null)
    }
    pub fn as_u64(&self) -> Option<u64> {
        match self {
            V::Ubyte(x) => Some(*x as u64),
            V::Ushort(x) => Some(*x as u64),
            V::Uint(x) => Some(*x as u64),
            V::Ulong(x) => Some(*x),
            _ => None,
        }
    }
    pub fn as_u32(&self) -> Option<u32> {
        self.as_u64().map(|x| x as u32)
    }
    pub fn as_bool(&self) -> Option<bool> {
        match self {
            V::Bool(b) => Some(*b),
            _ => None,
        }
    }
    pub fn as_str(&self) -> Option<&str> {
        match self {
            V::Str(s) | V::Sym(s) => Some(s),
            _ => None,
        }
    }
    pub fn as_bin(&self) -> Option<&[u8]> {
        match self {
            V::Bin(b) => Some(b),
            _ => None,
        }
    }
    pub fn is_null(&self) -> bool {
        matches!(self, V::Null)
    }
}

pub fn sym_to_code(s: &str) -> Option<u64> {
    Some(match s {
        "amqp:open:list" => 0x10,
        "amqp:begin:list" => 0x11,
        "amqp:attach:list" => 0x12,
        "amqp:flow:list" => 0x13,
        "amqp:transfer:list" => 0x14,
        "amqp:disposition:list" => 0x15,
        "amqp:detach:list" => 0x16,
        "amqp:end:list" => 0x17,
        "amqp:close:list" => 0x18,
        "amqp:error:list" => 0x1d,
        "amqp:received:list" => 0x23,
        "amqp:accepted:list" => 0x24,
        "amqp:rejected:list" => 0x25,
        "amqp:released:list" => 0x26,
        "amqp:modified:list" => 0x27,
        "amqp:source:list" => 0x28,
        "amqp:target:list" => 0x29,
        "amqp:coordinator:list" => 0x30,
        "amqp:declare:list" => 0x31,
        "amqp:discharge:list" => 0x32,
        "amqp:declared:list" => 0x33,
        "amqp:transactional-state:list" => 0x34,
        "amqp:sasl-mechanisms:list" => 0x40,
        "amqp:sasl-init:list" => 0x41,
        "amqp:sasl-challenge:list" => 0x42,
        "amqp:sasl-response:list" => 0x43,
        "amqp:sasl-outcome:list" => 0x44,
        "amqp:header:list" => 0x70,
        "amqp:delivery-annotations:map" => 0x71,
        "amqp:message-annotations:map" => 0x72,
        "amqp:properties:list" => 0x73,
        "amqp:application-properties:map" => 0x74,
        "amqp:data:binary" => 0x75,
        "amqp:amqp-sequence:list" => 0x76,
        "amqp:amqp-value:*" => 0x77,
        "amqp:footer:map" => 0x78,
        _ => return None,
    })
}

pub fn described(code: u64, fields: Vec<V>) -> V {
    V::Described(Box::new(V::Ulong(code)), Box::new(V::List(fields)))
}

/// Remove trailing nulls from a field list (what most encoders do)
pub fn trim_nulls(mut fields: Vec<V>) -> Vec<V> {
    while matches!(fields.last(), Some(V::Null)) {
        fields.pop();
    }
    fields
}

pub fn opt_u32(v: Option<u32>) -> V {
    v.map(V::Uint).unwrap_or(V::Null)
}
