//! C17 — negotiated limits: channel-max and idle time-outs, on virtual time.

use fe2o3_amqp::acceptor::SessionAcceptor;
use fe2o3_amqp::Session;

use crate::chooser::{choice, pick};
use crate::net::SimStream;
use crate::peer::{self, Peer, AMQP_HEADER};
use crate::sim;
use crate::wire::{self, Item, Models};
use crate::world::{self, EndpointCfg};

// ---------------------------------------------------------------------------------------
// channel-max (pair)

pub async fn run_channel_max() {
    let mut ccfg = EndpointCfg::default_cfg();
    let mut lcfg = EndpointCfg::default_cfg();
    ccfg.channel_max = pick(&[0u16, 1, 2, 7, 255, 65535]);
    lcfg.channel_max = pick(&[0u16, 1, 2, 7, 255, 65535]);
    let agreed = ccfg.channel_max.min(lcfg.channel_max) as usize;
    let (nab, nba, nd) = world::draw_net(true);
    // try to go beyond the limit when it is small
    let attempts = if agreed <= 8 { agreed + 1 + 1 + choice(2) as usize } else { 3 + choice(6) as usize };
    sim::set_config(format!(
        "variant=channel-max local={} remote={} agreed={} attempts={} {}",
        ccfg.channel_max, lcfg.channel_max, agreed, attempts, nd
    ));
    sim::mark_nontrivial();
    let mut models = Models::none();
    models.sess = true;
    let pair = match world::open_pair(&ccfg, &lcfg, nab, nba, models).await {
        Some(p) => p,
        None => return,
    };
    // listener: accept every session that comes in, keep the handles alive
    let world::Pair { mut client, mut listener, net, mon } = pair;
    sim::spawn(
        "listener-sessions",
        sim::in_group(2, async move {
            let acc = SessionAcceptor::new();
            let mut held = Vec::new();
            loop {
                match acc.accept(&mut listener).await {
                    Ok(s) => {
                        let slot = held.len();
                        held.push(Some(s));
                        let _ = slot;
                    }
                    Err(_) => break,
                }
            }
            let _ = listener.on_close().await;
            drop(held);
        }),
    );
    let mut sessions = Vec::new();
    let mut refused = 0usize;
    for k in 0..attempts {
        match sim::op(&format!("begin #{}", k), sim::in_group(1, Session::begin(&mut client))).await {
            Some(Ok(s)) => {
                if sessions.len() >= agreed + 1 {
                    sim::violation(
                        "session-beyond-channel-max",
                        format!("begin #{} succeeded although {} sessions are already live and the agreed channel-max is {}", k, sessions.len(), agreed),
                    );
                    return;
                }
                sessions.push(s);
            }
            Some(Err(e)) => {
                let es = format!("{:?}", e);
                if sessions.len() < agreed + 1 {
                    sim::violation(
                        "begin-refused-below-channel-max",
                        format!("begin #{} failed with {} although only {} sessions are live and the agreed channel-max is {}", k, es, sessions.len(), agreed),
                    );
                    return;
                }
                if !es.contains("ChannelMax") {
                    sim::violation("channel-max-error-kind", format!("begin beyond channel-max failed with {} instead of the channel-max error", es));
                    return;
                }
                refused += 1;
                sim::probe("begin-refused-at-channel-max");
            }
            None => return,
        }
    }
    // after an end the channel is usable again
    if refused > 0 && !sessions.is_empty() {
        let i = choice(sessions.len() as u32) as usize;
        let mut s = sessions.remove(i);
        match sim::op("end", s.end()).await {
            Some(Ok(())) => {}
            Some(Err(e)) => {
                sim::violation("end-failed", format!("{:?}", e));
                return;
            }
            None => return,
        }
        match sim::op("begin after end", sim::in_group(1, Session::begin(&mut client))).await {
            Some(Ok(s)) => {
                sessions.push(s);
                sim::probe("channel-reused-after-end");
            }
            Some(Err(e)) => {
                sim::violation(
                    "channel-not-reusable-after-end",
                    format!("a session was ended at the channel-max limit, yet the next begin failed with {:?}", e),
                );
                return;
            }
            None => return,
        }
    }
    world::quiesce_pair(&net).await;
    {
        let mut m = mon.borrow_mut();
        m.sync();
        for d in 0..2 {
            for s in &m.ends[d].sessions {
                if s.channel as usize > agreed {
                    sim::violation(
                        "begin-above-channel-max",
                        format!("{} wrote a begin on channel {} above the agreed channel-max {}", m.names[d], s.channel, agreed),
                    );
                    return;
                }
            }
        }
        let begins = m.ends[0].sessions.len();
        let ok = sessions.len() + if refused > 0 { 1 } else { 0 };
        if begins > ok {
            sim::violation(
                "refused-begin-on-wire",
                format!("the client wrote {} begin frames for {} successful begins: a refused begin still reached the wire", begins, ok),
            );
            return;
        }
    }
    let _ = tokio::time::timeout(std::time::Duration::from_secs(30), client.close()).await;
}

// ---------------------------------------------------------------------------------------
// heartbeats: the peer advertises an idle time-out

fn frame_gaps(mon: &wire::MonitorRef, d: usize) -> (Vec<u64>, Option<u64>, Option<u64>) {
    let mut m = mon.borrow_mut();
    m.sync();
    let mut times: Vec<u64> = Vec::new();
    let mut open_at = None;
    let mut close_at = None;
    for st in &m.log {
        if st.dir != d {
            continue;
        }
        if let Item::Frame(f) = &st.item {
            if f.code == wire::OPEN && f.perf.is_some() {
                open_at = Some(st.vus);
            }
            if open_at.is_some() && close_at.is_none() {
                times.push(st.vus);
            }
            if f.code == wire::CLOSE && f.perf.is_some() {
                close_at = Some(st.vus);
            }
        }
    }
    (times, open_at, close_at)
}

pub async fn run_heartbeat() {
    let client_side = choice(2) == 0;
    let advertised: Option<u32> = pick(&[Some(50u32), Some(1000), Some(1), Some(60_000), Some(u32::MAX), Some(0), None, Some(333)]);
    let (nab, nba, nd) = world::draw_fast_net();
    // observe for a number of periods
    let observe_ms: u64 = match advertised {
        Some(0) | None => 20_000,
        Some(p) if p as u64 > 1_000_000 => 3_600_000,
        Some(p) => (p as u64) * (8 + choice(30) as u64),
    };
    let traffic = choice(3); // 0 = silence from the application, 1 = a session begun, 2 = sessions begun and ended over time
    // the peer floods the endpoint with (empty) frames while every poll of the endpoint's tasks takes
    // virtual time: whenever the connection engine looks, another frame has arrived, for longer than
    // the time-out. The heartbeats must go out all the same.
    let flood = matches!(advertised, Some(50) | Some(333) | Some(1000)) && choice(3) == 0;
    // (tokio's timers have a resolution of 1 ms)
    const POLL_COST_US: u64 = 1000;
    sim::set_config(format!(
        "variant=heartbeat side={} peer-idle-time-out={:?} observe={}ms traffic={} flood-under-processing-cost={} {}",
        if client_side { "client" } else { "listener" },
        advertised,
        observe_ms,
        traffic,
        flood,
        nd
    ));
    sim::mark_nontrivial();
    let cfg = EndpointCfg::default_cfg();
    let peer_open = peer::open("peer", Some(65536), Some(255), advertised);
    let mut models = Models::none();
    models.conn = true;
    let d;
    let mon;
    let mut peer: Peer;
    let net;
    let mut client_h = None;
    let mut listener_h = None;
    if client_side {
        let (cs, ps, n) = SimStream::pair("client", "peer", nab, nba);
        net = n;
        mon = wire::install(&net, ["client", "peer"], [models, Models::none()]);
        peer = Peer::new("peer", ps);
        d = 0;
        let hs = async {
            let _ = peer.expect_header().await?;
            peer.send_header(AMQP_HEADER).await;
            peer.expect(wire::OPEN).await?;
            peer.send(0, &peer_open).await;
            Some(())
        };
        match sim::op("open", world::join2(sim::in_group(1, world::client_open(&cfg, cs)), hs)).await {
            Some((Ok(h), Some(()))) => client_h = Some(h),
            Some((r, _)) => {
                sim::violation("open-failed", format!("{:?}", r.map(|_| ())));
                return;
            }
            None => return,
        }
    } else {
        let (ps, ls, n) = SimStream::pair("peer", "listener", nab, nba);
        net = n;
        mon = wire::install(&net, ["peer", "listener"], [Models::none(), models]);
        peer = Peer::new("peer", ps);
        d = 1;
        let acceptor = world::listener_acceptor(&cfg);
        let hs = async {
            peer.send_header(AMQP_HEADER).await;
            peer.send(0, &peer_open).await;
            let _ = peer.expect_header().await?;
            peer.expect(wire::OPEN).await?;
            Some(())
        };
        match sim::op("accept", world::join2(sim::in_group(2, acceptor.accept(ls)), hs)).await {
            Some((Ok(h), Some(()))) => listener_h = Some(h),
            Some((r, _)) => {
                sim::violation("open-failed", format!("{:?}", r.map(|_| ())));
                return;
            }
            None => return,
        }
    }
    let _ = &net;
    // application traffic on the endpoint while the peer only reads (and answers begins/ends)
    let start = tokio::time::Instant::now();
    let app = async {
        if let (Some(h), true) = (client_h.as_mut(), traffic > 0) {
            let mut held = Vec::new();
            let mut t = 0u64;
            while t < observe_ms {
                let step = 1 + choice((observe_ms / 4).max(1) as u32) as u64;
                sim::sleep_ms(step).await;
                t += step;
                if let Ok(Ok(s)) = tokio::time::timeout(std::time::Duration::from_secs(5), Session::begin(h)).await {
                    held.push(s);
                }
                if traffic == 2 && !held.is_empty() && choice(2) == 1 {
                    let mut s = held.remove(0);
                    let _ = tokio::time::timeout(std::time::Duration::from_secs(5), s.end()).await;
                }
            }
            drop(held);
        } else {
            sim::sleep_ms(observe_ms).await;
        }
    };
    if flood {
        sim::set_cpu_cost(if client_side { 1 } else { 2 }, POLL_COST_US);
    }
    let mut flood_due = flood;
    let serve = async {
        loop {
            if flood_due && start.elapsed().as_millis() as u64 >= advertised.unwrap_or(0) as u64 / 2 {
                flood_due = false;
                // enough frames to keep the engine busy for three time-outs
                let n = 3 * advertised.unwrap_or(0) as u64 * 1000 / POLL_COST_US;
                let mut burst = Vec::with_capacity(8 * 512);
                for _ in 0..512 {
                    burst.extend_from_slice(&peer::frame_bytes(0, 0, &[]));
                }
                let mut sent = 0;
                while sent < n {
                    peer.send_raw(&burst).await;
                    sent += 512;
                }
                sim::probe("flooded-with-frames-while-processing-takes-time");
            }
            let left = (observe_ms + 50).saturating_sub(start.elapsed().as_millis() as u64);
            if left == 0 {
                break;
            }
            match peer.recv_within(left).await {
                Some(Item::Frame(f)) => match f.code {
                    wire::BEGIN if f.perf.is_some() => {
                        peer.send(f.channel, &peer::begin(Some(f.channel), 0, 100, 100)).await;
                    }
                    wire::END if f.perf.is_some() => {
                        peer.send(f.channel, &peer::end(None)).await;
                    }
                    _ => {}
                },
                Some(_) => {}
                None => {
                    if peer.eof || peer.read_error.is_some() {
                        break;
                    }
                }
            }
        }
    };
    world::join2(app, serve).await;
    // judge the gaps between consecutive frames the endpoint wrote while it was open
    let (mut times, open_at, _) = frame_gaps(&mon, d);
    let end_us = sim::now_us();
    // the endpoint learns the peer's time-out from the peer's open: gaps are judged from
    // 10 ms after that open was written
    let peer_open_at = {
        let m = mon.borrow();
        m.log
            .iter()
            .find(|st| st.dir == 1 - d && matches!(&st.item, Item::Frame(f) if f.code == wire::OPEN && f.perf.is_some()))
            .map(|st| st.vus)
            .unwrap_or(0)
    };
    let t0 = peer_open_at + 10_000;
    times.retain(|t| *t >= t0);
    times.insert(0, t0);
    if let (Some(p), Some(_)) = (advertised, open_at) {
        if p > 0 {
            times.push(end_us);
            let limit_us = p as u64 * 1000;
            // the transport needs a moment to put the frame on the (simulated) wire: 2 ms of slack
            // under the flood every iteration of the engine's loop takes POLL_COST_US, and the engine's
            // select picks among its ready branches at random: the heartbeat that has fallen due wins
            // an iteration with probability 3/4 at least, so it is 16 iterations late with
            // probability 4^-16
            let slack = if flood { 3_000 + 16 * POLL_COST_US } else { 3_000 };
            for w in times.windows(2) {
                let gap = w[1] - w[0];
                if gap > limit_us + slack {
                    sim::violation(
                        "idle-gap-exceeds-peer-time-out",
                        format!(
                            "the peer advertised idle-time-out {} ms; between t={} us and t={} us ({} us) the endpoint wrote no frame while the connection was open",
                            p, w[0], w[1], gap
                        ),
                    );
                    return;
                }
            }
            sim::probe("heartbeat-gaps-checked");
        }
    }
    if matches!(advertised, Some(0) | None) {
        // no heartbeats are required; nothing to judge but "no panic, no hang"
        sim::probe("no-idle-time-out-advertised");
    }
    // teardown
    let td = async {
        if let Some(mut h) = client_h {
            let _ = tokio::time::timeout(std::time::Duration::from_secs(20), h.close()).await;
        }
        if let Some(mut h) = listener_h {
            let _ = tokio::time::timeout(std::time::Duration::from_secs(20), h.close()).await;
        }
    };
    let _ = world::join2(td, peer::serve_teardown(&mut peer, 25_000)).await;
}

// ---------------------------------------------------------------------------------------
// local idle time-out: the endpoint tears down after silence > T, never while frames keep arriving

pub async fn run_local_idle() {
    let client_side = choice(2) == 0;
    let t_ms: u32 = pick(&[400u32, 1000, 60_000, 100]);
    // (tokio timers have millisecond resolution: any simulated latency would smear the
    // arrival time of a frame by several ms and blur the T - delta / T + delta distinction)
    let (mut nab, mut nba, _) = world::draw_fast_net();
    nab.latency_us = 0;
    nba.latency_us = 0;
    let nd = format!("{} {}", nab.describe(), nba.describe());
    // traffic pattern: gaps as fractions of T in eighths, all below T; then silence
    let ngaps = 2 + choice(8) as usize;
    let gaps: Vec<u64> = (0..ngaps).map(|_| (t_ms as u64) * pick(&[1u64, 2, 4, 6, 7]) / 8).collect();
    let near = choice(2) == 1; // last gap just below T
    sim::set_config(format!(
        "variant=local-idle side={} T={}ms gaps={:?} near-miss={} {}",
        if client_side { "client" } else { "listener" },
        t_ms,
        gaps,
        near,
        nd
    ));
    sim::mark_nontrivial();
    let mut cfg = EndpointCfg::default_cfg();
    cfg.idle_time_out = Some(t_ms);
    // the peer may advertise an idle time-out of its own: the endpoint then keeps writing
    // heartbeats while the peer is silent, which must not postpone the endpoint's own deadline
    let peer_idle: Option<u32> = match choice(4) {
        0 => None,
        1 => Some(t_ms / 4),
        2 => Some(t_ms / 2),
        _ => Some(t_ms * 2),
    };
    sim::append_config(&format!(" peer-idle-time-out={:?}", peer_idle));
    let peer_open = peer::open("peer", Some(65536), Some(255), peer_idle);
    let mut models = Models::none();
    models.conn = true;
    let mut peer: Peer;
    let mut client_h = None;
    let mut listener_h = None;
    let d;
    let mon;
    if client_side {
        let (cs, ps, net) = SimStream::pair("client", "peer", nab, nba);
        mon = wire::install(&net, ["client", "peer"], [models, Models::none()]);
        peer = Peer::new("peer", ps);
        d = 0;
        let hs = async {
            let _ = peer.expect_header().await?;
            peer.send_header(AMQP_HEADER).await;
            let o = peer.expect(wire::OPEN).await?;
            peer.send(0, &peer_open).await;
            o.perf
        };
        match sim::op("open", world::join2(sim::in_group(1, world::client_open(&cfg, cs)), hs)).await {
            Some((Ok(h), Some(o))) => {
                // the endpoint must advertise a value no larger than what it enforces
                let adv = o.field(4).as_u32();
                if adv.map(|a| a > t_ms).unwrap_or(true) {
                    sim::violation("advertised-idle-time-out", format!("configured idle time-out {} ms, advertised {:?}", t_ms, adv));
                    return;
                }
                client_h = Some(h)
            }
            Some((r, _)) => {
                sim::violation("open-failed", format!("{:?}", r.map(|_| ())));
                return;
            }
            None => return,
        }
    } else {
        let (ps, ls, net) = SimStream::pair("peer", "listener", nab, nba);
        mon = wire::install(&net, ["peer", "listener"], [Models::none(), models]);
        peer = Peer::new("peer", ps);
        d = 1;
        let acceptor = world::listener_acceptor(&cfg);
        let hs = async {
            peer.send_header(AMQP_HEADER).await;
            peer.send(0, &peer_open).await;
            let _ = peer.expect_header().await?;
            peer.expect(wire::OPEN).await?;
            Some(())
        };
        match sim::op("accept", world::join2(sim::in_group(2, acceptor.accept(ls)), hs)).await {
            Some((Ok(h), Some(()))) => listener_h = Some(h),
            Some((r, _)) => {
                sim::violation("open-failed", format!("{:?}", r.map(|_| ())));
                return;
            }
            None => return,
        }
    }
    let _ = d;
    // the application waits for the connection to end and records when and how
    let result: world::Slot<(u64, String)> = world::Slot::new();
    let r2 = result.clone();
    if let Some(mut h) = client_h {
        sim::spawn("app-on-close", async move {
            let r = h.on_close().await;
            r2.put((sim::now_us(), format!("{:?}", r)));
        });
    } else if let Some(mut h) = listener_h {
        sim::spawn("app-on-close", async move {
            let r = h.on_close().await;
            r2.put((sim::now_us(), format!("{:?}", r)));
        });
    }
    // fault: the endpoint's connection engine is not scheduled for longer than the time-out while the
    // frames keep arriving in time: they wait in the stream, and when the engine runs again it finds
    // that nothing is late
    let stall_at: Option<usize> = if choice(3) == 0 { Some(choice(gaps.len() as u32) as usize) } else { None };
    let mut stall_until_us = 0u64;
    sim::append_config(&format!(" engine-stalled-at-gap={:?}", stall_at));
    // phase 1: frames keep arriving in time
    let mut last_frame_us = sim::now_us();
    for (i, g) in gaps.iter().enumerate() {
        if stall_at == Some(i) {
            let dur = t_ms as u64 * pick(&[12u64, 20, 35]) / 10;
            sim::stall_task("connection-engine", if client_side { 1 } else { 2 }, dur);
            stall_until_us = sim::now_us() + dur * 1000;
            sim::probe("engine-stalled-longer-than-the-time-out-while-frames-arrive");
        }
        let mut g = *g;
        if near && i + 1 == gaps.len() {
            g = t_ms as u64 - (t_ms as u64 / 50).max(2); // T - delta
        }
        sim::sleep_ms(g).await;
        if let Some((at, r)) = result.try_take() {
            sim::violation(
                "idle-time-out-while-frames-arrive",
                format!("the connection ended ({}) at t={} us although frames arrived with gaps {:?} ms below the time-out of {} ms", r, at, &gaps[..=i], t_ms),
            );
            return;
        }
        peer.send_empty().await;
        last_frame_us = sim::now_us();
    }
    // the stall ends before the silence begins
    while sim::now_us() < stall_until_us + 2_000 {
        sim::sleep_ms(((stall_until_us + 2_000 - sim::now_us()) / 1000).clamp(1, t_ms as u64 / 2)).await;
        if let Some((at, r)) = result.try_take() {
            sim::violation(
                "idle-time-out-while-frames-arrive",
                format!("the connection ended ({}) at t={} us although frames kept arriving in time (the engine had been stalled until t={} us; time-out {} ms)", r, at, stall_until_us, t_ms),
            );
            return;
        }
        peer.send_empty().await;
        last_frame_us = sim::now_us();
    }
    let _ = last_frame_us;
    sim::probe("frames-arrived-in-time");
    // phase 2: silence; the endpoint must give up after T (and not unboundedly later)
    let silence_from = sim::now_us();
    let waited = tokio::time::timeout(std::time::Duration::from_millis(t_ms as u64 * 3 + 5_000), result.take()).await;
    match waited {
        Ok((at, r)) => {
            let after = at.saturating_sub(silence_from);
            if after + 1000 < t_ms as u64 * 1000 {
                sim::violation(
                    "idle-time-out-too-early",
                    format!("silence began at t={} us; the connection ended ({}) only {} us later, before the time-out of {} ms", silence_from, r, after, t_ms),
                );
                return;
            }
            if !r.contains("IdleTimeout") {
                sim::violation("idle-time-out-not-reported", format!("after {} ms of silence (time-out {} ms) on_close returned {}", after / 1000, t_ms, r));
                return;
            }
            sim::probe("idle-time-out-reported");
        }
        Err(_) => {
            sim::violation(
                "idle-time-out-not-enforced",
                format!("nothing arrived for {} ms (time-out {} ms) and the connection is still up", t_ms as u64 * 3 + 5_000, t_ms),
            );
            return;
        }
    }
    let _ = peer.drain_for(1000).await;
    mon.borrow_mut().sync();
}

// ---------------------------------------------------------------------------------------
// channel-max on the listener side: sessions are begun by the peer, the listener only answers.
// Its answering begin goes out on a channel of its own choosing, which is bound by the smaller
// of the two channel-max values like any other. A scripted peer begins sessions up to the
// agreed limit and then goes on (on channel numbers it is not entitled to).

pub async fn run_channel_max_listener() {
    let mut lcfg = EndpointCfg::default_cfg();
    lcfg.channel_max = pick(&[0u16, 1, 2, 7, 255, 65535]);
    let peer_max = pick(&[0u16, 1, 2, 3, 7]);
    let agreed = lcfg.channel_max.min(peer_max) as usize;
    let extra = 1 + choice(3) as usize;
    let (nab, nba, nd) = world::draw_net(true);
    sim::set_config(format!("variant=channel-max-listener local={} remote={} agreed={} begins={} {}", lcfg.channel_max, peer_max, agreed, agreed + 1 + extra, nd));
    sim::mark_nontrivial();
    let mut models = Models::none();
    models.sess = true;
    let pvl = match peer::peer_vs_listener(&lcfg, peer::open("peer", Some(65536), Some(peer_max), None), nab, nba, models).await {
        Some(x) => x,
        None => return,
    };
    let peer::ListenerVsPeer { mut listener, mut peer, net, mon, .. } = pvl;
    sim::spawn(
        "listener-sessions",
        sim::in_group(2, async move {
            let acc = SessionAcceptor::new();
            let mut held = Vec::new();
            while let Ok(s) = acc.accept(&mut listener).await {
                held.push(s);
            }
            let _ = listener.on_close().await;
            drop(held);
        }),
    );
    // the peer's channels: 0..=agreed are its to use, the rest are not
    let mut answered = 0usize;
    let mut closed = false;
    for ch in 0..(agreed + 1 + extra) {
        if ch > agreed {
            sim::fault("begin-beyond-channel-max-from-peer");
        }
        peer.send(ch as u16, &peer::begin(None, 0, 100, 100)).await;
        // wait for the answer (a begin), or for the listener to give up on the connection
        let mut got = false;
        for f in peer.drain_for(pick(&[0u64, 5, 200])).await {
            if f.code == wire::BEGIN {
                got = true;
            }
            if f.code == wire::CLOSE {
                closed = true;
            }
        }
        if got {
            answered += 1;
        }
        if closed || peer.eof {
            break;
        }
    }
    let _ = peer::settle(&mut peer, &net, |_| {}).await;
    {
        let mut m = mon.borrow_mut();
        m.sync();
        for s in &m.ends[1].sessions {
            if s.channel as usize > agreed {
                sim::violation(
                    "begin-above-channel-max",
                    format!("the listener wrote a begin on channel {} above the agreed channel-max {} (own {}, peer's {})", s.channel, agreed, lcfg.channel_max, peer_max),
                );
                return;
            }
        }
        if m.ends[1].sessions.len() > agreed + 1 {
            sim::violation("session-beyond-channel-max", format!("the listener answered {} begins with an agreed channel-max of {}", m.ends[1].sessions.len(), agreed));
            return;
        }
        if m.ends[1].sessions.len() < (agreed + 1).min(answered.max(agreed + 1)) && !closed && m.ends[1].close.is_none() {
            sim::violation(
                "begin-refused-below-channel-max",
                format!("the listener answered only {} of the {} begins that the agreed channel-max {} allows", m.ends[1].sessions.len(), agreed + 1, agreed),
            );
            return;
        }
        sim::probe("listener-channel-max-checked");
    }
    peer.send(0, &peer::close(None)).await;
    let _ = peer.drain_for(2000).await;
}
