//! Lifecycle workload over a real client <-> real listener pair: seeded sequences of
//! begin/end, attach/detach/close/drop, re-attach of a name, duplicate names, and sends
//! across several sessions and links. Serves C11 (identifiers and routing) and C13
//! (session and link lifecycles), each with its own wire models and oracles.

use std::cell::RefCell;
use std::collections::BTreeMap;
use std::rc::Rc;

use fe2o3_amqp::acceptor::{LinkAcceptor, LinkEndpoint, ListenerSessionHandle, SessionAcceptor};
use fe2o3_amqp::link::receiver::CreditMode;
use fe2o3_amqp::session::SessionHandle;
use fe2o3_amqp::types::definitions::{self, AmqpError, SenderSettleMode};
use fe2o3_amqp::types::messaging::{AmqpValue, Body, Message};
use fe2o3_amqp::types::primitives::{Binary, Value};
use fe2o3_amqp::{Receiver, Sender};

use crate::chooser::{choice, pick};
use crate::sim;
use crate::wire::{self, Models};
use crate::world::{self, EndpointCfg, Slot};

#[derive(Clone, Copy, Debug, PartialEq)]
pub enum Teardown {
    Close,
    Detach,
    CloseWithError,
    Drop,
    /// the listener side (a sender) closes after its sends
    PeerClosesFirst,
    /// non-closing detach carrying an error
    DetachWithError,
    /// detach() under the library's own time-out wrapper (ample time)
    DetachWithTimeout,
}

#[derive(Clone, Copy, Debug, PartialEq)]
pub enum SessTeardown {
    End,
    EndWithError,
    Drop,
    /// try_end() polled until it yields the result: every poll repeats the end request
    TryEnd,
}

#[derive(Clone, Debug)]
pub struct Life {
    pub name: String,
    pub idx: u64,
    pub gen: u64,
    pub client_sends: bool,
    pub n: usize,
    pub teardown: Teardown,
    pub mms: Option<u64>,
    pub big: bool,
    /// try to attach the same name once more while this one is attached
    pub try_duplicate: bool,
}

#[derive(Default, Debug)]
pub struct LinkRecord {
    pub name: String,
    pub gen: u64,
    pub sent: Vec<u64>,
    /// every message handed to send(), including the one whose send() failed: a failed send may
    /// still have reached the peer
    pub attempted: Vec<u64>,
    pub received: Vec<u64>,
    pub result: String,
    pub error_seen: Option<String>,
    pub completed: bool,
}

pub type Records = Rc<RefCell<Vec<LinkRecord>>>;

pub fn uid(idx: u64, gen: u64, seq: u64) -> u64 {
    idx * 100_000 + gen * 1000 + seq
}

fn parse_name(name: &str) -> (u64, usize) {
    // s{si}-l{k}#{n}
    let (a, n) = name.split_once('#').unwrap_or((name, "0"));
    let (s, l) = a.split_once("-l").unwrap_or(("s0", "0"));
    let si: u64 = s.trim_start_matches('s').parse().unwrap_or(0);
    let k: u64 = l.trim_end_matches('p').parse().unwrap_or(0);
    (si * 16 + k, n.parse().unwrap_or(0))
}

fn message(u: u64, big: bool) -> Message<Body<Value>> {
    let mut bytes = u.to_be_bytes().to_vec();
    if big {
        bytes.extend(std::iter::repeat((u & 0xff) as u8).take(700 + (u % 900) as usize));
    }
    Message::builder().body(Body::Value(AmqpValue(Value::Binary(Binary::from(bytes))))).build()
}

fn uid_of(m: &Message<Body<Value>>) -> u64 {
    match &m.body {
        Body::Value(AmqpValue(Value::Binary(b))) if b.len() >= 8 => u64::from_be_bytes(b[..8].try_into().unwrap()),
        _ => 0,
    }
}

fn local_error() -> definitions::Error {
    definitions::Error::new(AmqpError::InternalError, Some("local-link-error".to_string()), None)
}

/// Options that select which oracles judge the run
#[derive(Clone, Copy)]
pub struct Judge {
    /// C13: API results and handshake completion
    pub lifecycle: bool,
    /// C11: routing and identifiers
    pub routing: bool,
}

async fn listener_link(ep: LinkEndpoint, gens: Rc<RefCell<BTreeMap<String, u64>>>, records: Records) {
    let name = match &ep {
        LinkEndpoint::Sender(s) => s.name().to_string(),
        LinkEndpoint::Receiver(r) => r.name().to_string(),
    };
    let (idx, n) = parse_name(&name);
    let gen = {
        let mut g = gens.borrow_mut();
        let e = g.entry(name.clone()).or_insert(0);
        let v = *e;
        *e += 1;
        v
    };
    let mut rec = LinkRecord { name: name.clone(), gen, ..Default::default() };
    match ep {
        LinkEndpoint::Sender(mut s) => {
            let closes_first = name.contains("p#"); // marker in the name: peer closes first
            for k in 0..n {
                let u = uid(idx, gen, k as u64 + 1);
                rec.attempted.push(u);
                match s.send(message(u, false)).await {
                    Ok(_) => rec.sent.push(u),
                    Err(e) => {
                        rec.error_seen = Some(format!("{:?}", e));
                        break;
                    }
                }
            }
            if closes_first && rec.error_seen.is_none() {
                rec.result = format!("{:?}", s.close().await);
            } else if rec.error_seen.is_none() {
                let e = s.on_detach().await;
                rec.error_seen = Some(format!("{:?}", e));
                // the application's next operation on the link answers the peer in kind
                let es = format!("{:?}", e);
                if es.contains("DetachedByRemote") || es.contains("RemoteDetachedWithError") {
                    rec.result = format!("{:?}", s.detach().await.map(|_| ()).map_err(|(_, e)| e));
                } else {
                    rec.result = format!("{:?}", s.close().await);
                }
            }
        }
        LinkEndpoint::Receiver(mut r) => {
            r.set_credit_mode(CreditMode::Auto(pick(&[200u32, 3, 20])));
            loop {
                match r.recv::<Body<Value>>().await {
                    Ok(d) => {
                        rec.received.push(uid_of(d.message()));
                        let _ = r.accept(&d).await;
                    }
                    Err(e) => {
                        rec.error_seen = Some(format!("{:?}", e));
                        break;
                    }
                }
            }
        }
    }
    rec.completed = true;
    crate::trace!("LISTENER-LINK {} gen {} done: error_seen={:?} result={}", rec.name, rec.gen, rec.error_seen, rec.result);
    records.borrow_mut().push(rec);
}

async fn listener_session(mut sess: ListenerSessionHandle, records: Records, ended: Rc<RefCell<Vec<String>>>) {
    let gens: Rc<RefCell<BTreeMap<String, u64>>> = Rc::new(RefCell::new(BTreeMap::new()));
    let acceptor = LinkAcceptor::new();
    loop {
        match acceptor.accept(&mut sess).await {
            Ok(ep) => sim::spawn("listener-link", listener_link(ep, gens.clone(), records.clone())),
            Err(e) => {
                let es = format!("{:?}", e);
                ended.borrow_mut().push(es.clone());
                if es.contains("SessionStopped") || es.contains("IllegalSessionState") {
                    break;
                }
            }
        }
    }
    let r = sess.on_end().await;
    ended.borrow_mut().push(format!("on_end: {:?}", r));
}

#[allow(clippy::too_many_arguments)]
async fn client_link(
    life: Life,
    sender: Option<Sender>,
    receiver: Option<Receiver>,
    records: Records,
    mon: wire::MonitorRef,
    judge: Judge,
    done: Slot<()>,
) {
    let mut rec = LinkRecord { name: life.name.clone(), gen: life.gen, ..Default::default() };
    let check_peer_detached = |what: &str| {
        if !judge.lifecycle {
            return;
        }
        let mut m = mon.borrow_mut();
        m.sync();
        // the listener's detach for this link must be on the wire by the time the call returned
        let answered = m.ends[1].sessions.iter().any(|s| {
            s.links
                .iter()
                .filter(|l| l.name == life.name && l.detached)
                .count() as u64
                > life.gen
        });
        if !answered {
            sim::violation(
                "teardown-returned-before-peer-answer",
                format!("{} on {} (generation {}) returned Ok before the peer's detach was on the wire", what, life.name, life.gen),
            );
        }
    };
    if let Some(mut s) = sender {
        for k in 0..life.n {
            let u = uid(life.idx, life.gen, k as u64 + 1);
            rec.attempted.push(u);
            match sim::op(&format!("send {} on {}", k, life.name), s.send(message(u, life.big))).await {
                Some(Ok(_)) => rec.sent.push(u),
                Some(Err(e)) => {
                    rec.error_seen = Some(format!("{:?}", e));
                    break;
                }
                None => return,
            }
        }
        match life.teardown {
            Teardown::Close | Teardown::PeerClosesFirst => match sim::op(&format!("close {}", life.name), s.close()).await {
                Some(r) => {
                    rec.result = format!("{:?}", r);
                    if r.is_ok() {
                        check_peer_detached("close()");
                    }
                }
                None => return,
            },
            Teardown::CloseWithError => match sim::op(&format!("close_with_error {}", life.name), s.close_with_error(local_error())).await {
                Some(r) => {
                    rec.result = format!("{:?}", r);
                    if r.is_ok() {
                        check_peer_detached("close_with_error()");
                    }
                }
                None => return,
            },
            Teardown::Detach => match sim::op(&format!("detach {}", life.name), s.detach()).await {
                Some(r) => {
                    rec.result = format!("{:?}", r.as_ref().map(|_| ()).map_err(|(_, e)| format!("{:?}", e)));
                    if r.is_ok() {
                        check_peer_detached("detach()");
                    }
                }
                None => return,
            },
            Teardown::DetachWithError => match sim::op(&format!("detach_with_error {}", life.name), s.detach_with_error(local_error())).await {
                Some(r) => {
                    rec.result = format!("{:?}", r.as_ref().map(|_| ()).map_err(|(_, e)| format!("{:?}", e)));
                    if r.is_ok() {
                        check_peer_detached("detach_with_error()");
                    }
                }
                None => return,
            },
            Teardown::DetachWithTimeout => match sim::op(&format!("detach_with_timeout {}", life.name), s.detach_with_timeout(std::time::Duration::from_secs(400))).await {
                Some(Ok(r)) => {
                    rec.result = format!("{:?}", r.as_ref().map(|_| ()).map_err(|(_, e)| format!("{:?}", e)));
                    if r.is_ok() {
                        check_peer_detached("detach_with_timeout()");
                    }
                }
                Some(Err(_)) => rec.result = "Elapsed".into(),
                None => return,
            },
            Teardown::Drop => {
                drop(s);
                rec.result = "dropped".into();
            }
        }
    } else if let Some(mut r) = receiver {
        for k in 0..life.n {
            match sim::op(&format!("recv {} on {}", k, life.name), r.recv::<Body<Value>>()).await {
                Some(Ok(d)) => {
                    rec.received.push(uid_of(d.message()));
                    let _ = sim::op("accept", r.accept(&d)).await;
                }
                Some(Err(e)) => {
                    rec.error_seen = Some(format!("{:?}", e));
                    break;
                }
                None => return,
            }
        }
        match life.teardown {
            Teardown::PeerClosesFirst => {
                // the listener's sender closes once its sends are done: the next recv reports it
                match sim::op(&format!("recv after last on {}", life.name), r.recv::<Body<Value>>()).await {
                    Some(Ok(d)) => rec.received.push(uid_of(d.message())),
                    Some(Err(e)) => rec.error_seen = Some(format!("{:?}", e)),
                    None => return,
                }
                // closing a link the peer has already closed must still return
                match sim::op(&format!("close after peer close {}", life.name), r.close()).await {
                    Some(res) => rec.result = format!("{:?}", res),
                    None => return,
                }
            }
            Teardown::Close => match sim::op(&format!("close {}", life.name), r.close()).await {
                Some(res) => {
                    rec.result = format!("{:?}", res);
                    if res.is_ok() {
                        check_peer_detached("close()");
                    }
                }
                None => return,
            },
            Teardown::CloseWithError => match sim::op(&format!("close_with_error {}", life.name), r.close_with_error(local_error())).await {
                Some(res) => {
                    rec.result = format!("{:?}", res);
                    if res.is_ok() {
                        check_peer_detached("close_with_error()");
                    }
                }
                None => return,
            },
            Teardown::Detach => match sim::op(&format!("detach {}", life.name), r.detach()).await {
                Some(res) => {
                    rec.result = format!("{:?}", res.as_ref().map(|_| ()).map_err(|(_, e)| format!("{:?}", e)));
                    if res.is_ok() {
                        check_peer_detached("detach()");
                    }
                }
                None => return,
            },
            Teardown::DetachWithError => match sim::op(&format!("detach_with_error {}", life.name), r.detach_with_error(local_error())).await {
                Some(res) => {
                    rec.result = format!("{:?}", res.as_ref().map(|_| ()).map_err(|(_, e)| format!("{:?}", e)));
                    if res.is_ok() {
                        check_peer_detached("detach_with_error()");
                    }
                }
                None => return,
            },
            Teardown::DetachWithTimeout => match sim::op(&format!("detach_with_timeout {}", life.name), r.detach_with_timeout(std::time::Duration::from_secs(400))).await {
                Some(Ok(res)) => {
                    rec.result = format!("{:?}", res.as_ref().map(|_| ()).map_err(|(_, e)| format!("{:?}", e)));
                    if res.is_ok() {
                        check_peer_detached("detach_with_timeout()");
                    }
                }
                Some(Err(_)) => rec.result = "Elapsed".into(),
                None => return,
            },
            Teardown::Drop => {
                drop(r);
                rec.result = "dropped".into();
            }
        }
    }
    rec.completed = true;
    records.borrow_mut().push(rec);
    done.put(());
}

pub struct SessPlan {
    pub lives: Vec<Life>,
    pub teardown: SessTeardown,
}

fn draw_session(si: usize) -> SessPlan {
    let nl = 1 + choice(4) as usize;
    let mut lives: Vec<Life> = Vec::new();
    let mut gens: BTreeMap<String, u64> = BTreeMap::new();
    for k in 0..nl {
        // re-use an earlier name after it has been detached, or a fresh one
        // (a dropped handle only queues its detach: nobody can tell when its name is free
        // again, so names are re-used only after a teardown that the application awaited)
        let reusable: Vec<usize> = lives
            .iter()
            .enumerate()
            .filter(|(i, l)| l.teardown != Teardown::Drop && !lives[i + 1..].iter().any(|x| x.name == l.name))
            .map(|(i, _)| i)
            .collect();
        let reuse = !reusable.is_empty() && choice(3) == 1;
        let (name, client_sends, n, peer_first) = if reuse {
            let prev = &lives[reusable[choice(reusable.len() as u32) as usize]];
            (prev.name.clone(), prev.client_sends, prev.n, prev.teardown == Teardown::PeerClosesFirst)
        } else {
            let client_sends = choice(2) == 0;
            let n = choice(5) as usize;
            let peer_first = !client_sends && choice(4) == 1;
            (format!("s{}-l{}{}#{}", si, k, if peer_first { "p" } else { "" }, n), client_sends, n, peer_first)
        };
        let (idx, _) = parse_name(&name);
        let gen = {
            let e = gens.entry(name.clone()).or_insert(0);
            let v = *e;
            *e += 1;
            v
        };
        let teardown = if peer_first {
            Teardown::PeerClosesFirst
        } else {
            pick(&[Teardown::Close, Teardown::Close, Teardown::Detach, Teardown::CloseWithError, Teardown::Drop, Teardown::DetachWithError, Teardown::DetachWithTimeout])
        };
        lives.push(Life {
            name,
            idx,
            gen,
            client_sends,
            n,
            teardown,
            mms: pick(&[None, None, Some(300u64)]),
            big: choice(3) == 1,
            try_duplicate: choice(5) == 1,
        });
    }
    SessPlan {
        lives,
        teardown: pick(&[SessTeardown::End, SessTeardown::End, SessTeardown::EndWithError, SessTeardown::Drop, SessTeardown::TryEnd]),
    }
}

async fn client_session(
    mut sess: SessionHandle<()>,
    plan: SessPlan,
    records: Records,
    mon: wire::MonitorRef,
    judge: Judge,
    sess_results: Rc<RefCell<Vec<String>>>,
    finished: Slot<()>,
) {
    // links whose name is re-used must have finished before the name is attached again
    let mut running: BTreeMap<String, Slot<()>> = BTreeMap::new();
    let mut all: Vec<Slot<()>> = Vec::new();
    for life in plan.lives {
        if let Some(prev) = running.remove(&life.name) {
            if sim::op("previous holder of the link name", prev.take()).await.is_none() {
                return;
            }
            // a name is free again once the detach exchange of its previous holder is over; a
            // dropped handle only queues its detach, so let the session process it first
            sim::until_idle().await;
        }
        let done: Slot<()> = Slot::new();
        let attach_name = life.name.clone();
        if life.client_sends {
            let smode = choice(3);
            let mut tries = 0;
            let r = loop {
                let b = Sender::builder().name(attach_name.clone()).target("q").sender_settle_mode(match smode {
                    0 => SenderSettleMode::Mixed,
                    1 => SenderSettleMode::Settled,
                    _ => SenderSettleMode::Unsettled,
                });
                let r = match life.mms {
                    Some(m) => sim::op("attach sender", sim::in_group(1, b.max_message_size(m).attach(&mut sess))).await,
                    None => sim::op("attach sender", sim::in_group(1, b.attach(&mut sess))).await,
                };
                // right after the previous holder's teardown the local session may not have
                // processed its detach yet: refusing the name for a moment is legitimate
                match &r {
                    Some(Err(e)) if life.gen > 0 && tries < 8000 && format!("{:?}", e).contains("DuplicatedLinkName") => {
                        tries += 1;
                        sim::probe("name-busy-retry");
                        sim::sleep_ms(50).await;
                    }
                    _ => break r,
                }
            };
            match r {
                Some(Ok(s)) => {
                    if life.try_duplicate {
                        try_duplicate(&mut sess, &attach_name, &mon, judge).await;
                    }
                    sim::spawn("client-link", client_link(life.clone(), Some(s), None, records.clone(), mon.clone(), judge, done.clone()));
                }
                Some(Err(e)) => {
                    sim::violation("attach-failed", format!("attach of sender {} failed: {:?}", attach_name, e));
                    return;
                }
                None => return,
            }
        } else {
            let rcredit = pick(&[200u32, 2, 10]);
            let mut tries = 0;
            let r = loop {
                let r = sim::op("attach receiver", sim::in_group(1, Receiver::builder().name(attach_name.clone()).source("q").credit_mode(CreditMode::Auto(rcredit)).attach(&mut sess))).await;
                match &r {
                    Some(Err(e)) if life.gen > 0 && tries < 8000 && format!("{:?}", e).contains("DuplicatedLinkName") => {
                        tries += 1;
                        sim::probe("name-busy-retry");
                        sim::sleep_ms(50).await;
                    }
                    _ => break r,
                }
            };
            match r {
                Some(Ok(rcv)) => {
                    if life.try_duplicate {
                        try_duplicate(&mut sess, &attach_name, &mon, judge).await;
                    }
                    sim::spawn("client-link", client_link(life.clone(), None, Some(rcv), records.clone(), mon.clone(), judge, done.clone()));
                }
                Some(Err(e)) => {
                    sim::violation("attach-failed", format!("attach of receiver {} failed: {:?}", attach_name, e));
                    return;
                }
                None => return,
            }
        }
        running.insert(life.name.clone(), done.clone());
        all.push(done);
        if choice(2) == 1 {
            sim::yield_now().await;
        }
    }
    // wait for all links whose teardown we can wait for
    for (_, d) in running {
        if sim::op("link lifetime", d.take()).await.is_none() {
            return;
        }
    }
    let r = match plan.teardown {
        SessTeardown::End => match sim::op("session end", sess.end()).await {
            Some(r) => format!("end: {:?}", r),
            None => return,
        },
        SessTeardown::EndWithError => {
            let e = definitions::Error::new(AmqpError::InternalError, Some("local-session-error".to_string()), None);
            match sim::op("session end_with_error", sess.end_with_error(e)).await {
                Some(r) => format!("end_with_error: {:?}", r),
                None => return,
            }
        }
        SessTeardown::TryEnd => {
            use fe2o3_amqp::session::TryEndError;
            let gap = pick(&[1u64, 7, 50]);
            let poll = async {
                loop {
                    match sess.try_end() {
                        Ok(r) => return Some(r),
                        Err(TryEndError::RemoteEndNotReceived) => sim::sleep_ms(gap).await,
                        Err(TryEndError::AlreadyEnded) => return None,
                    }
                }
            };
            match sim::op("session try_end polled", poll).await {
                Some(Some(r)) => {
                    if !sess.is_ended() {
                        sim::violation("not-ended-after-end", "try_end() returned the result of the end and is_ended() is false".into());
                    }
                    format!("end: {:?}", r)
                }
                Some(None) => "end: AlreadyEnded".to_string(),
                None => return,
            }
        }
        SessTeardown::Drop => {
            drop(sess);
            "dropped".to_string()
        }
    };
    sess_results.borrow_mut().push(r);
    finished.put(());
}

/// A second attach of a name that is currently attached must be refused locally and must
/// not put anything on the wire
async fn try_duplicate(sess: &mut SessionHandle<()>, name: &str, mon: &wire::MonitorRef, judge: Judge) {
    let attaches_before = {
        let mut m = mon.borrow_mut();
        m.sync();
        m.ends[0].sessions.iter().map(|s| s.links.iter().filter(|l| l.name == name).count()).sum::<usize>()
    };
    let r = sim::op("duplicate attach", Sender::builder().name(name.to_string()).target("q").attach(sess)).await;
    sim::probe("duplicate-name-attempted");
    match r {
        Some(Ok(_)) => {
            if judge.routing || judge.lifecycle {
                sim::violation("duplicate-name-accepted", format!("a second link named {} was attached while the first is still attached", name));
            }
        }
        Some(Err(_)) => {
            sim::until_idle().await;
            let mut m = mon.borrow_mut();
            m.sync();
            let after: usize = m.ends[0].sessions.iter().map(|s| s.links.iter().filter(|l| l.name == name).count()).sum();
            if after != attaches_before && judge.routing {
                sim::violation("duplicate-name-on-wire", format!("the refused duplicate attach of {} still wrote an attach frame", name));
            }
        }
        None => {}
    }
}

pub async fn run(judge: Judge, models: Models) {
    let mut ccfg = EndpointCfg::draw(1);
    let mut lcfg = EndpointCfg::draw(1);
    // the circular-wait configurations belong to C01's known finding
    if ccfg.circular_wait_class() {
        ccfg.conn_buffer = 2048;
    }
    if lcfg.circular_wait_class() {
        lcfg.conn_buffer = 2048;
    }
    // lifecycle traffic is small: windows that cannot hold a handful of frames only slow it down
    ccfg.incoming_window = ccfg.incoming_window.max(5);
    lcfg.incoming_window = lcfg.incoming_window.max(5);
    let (nab, nba, nd) = world::draw_net(true);
    let nsess = 1 + choice(3) as usize;
    let plans: Vec<SessPlan> = (0..nsess).map(draw_session).collect();
    sim::set_config(format!(
        "C[{}] L[{}] {} sessions: {:?}",
        ccfg.describe(),
        lcfg.describe(),
        nd,
        plans
            .iter()
            .map(|p| format!(
                "{:?}[{}]",
                p.teardown,
                p.lives
                    .iter()
                    .map(|l| format!("{}g{}{}{:?}{}", l.name, l.gen, if l.client_sends { ">" } else { "<" }, l.teardown, if l.try_duplicate { "+dup" } else { "" }))
                    .collect::<Vec<_>>()
                    .join(" ")
            ))
            .collect::<Vec<_>>()
    ));
    sim::mark_nontrivial();
    let mut pair = match world::open_pair(&ccfg, &lcfg, nab, nba, models).await {
        Some(p) => p,
        None => return,
    };
    let crecords: Records = Rc::new(RefCell::new(Vec::new()));
    let lrecords: Records = Rc::new(RefCell::new(Vec::new()));
    let sess_results: Rc<RefCell<Vec<String>>> = Rc::new(RefCell::new(Vec::new()));
    let lsess_ended: Rc<RefCell<Vec<String>>> = Rc::new(RefCell::new(Vec::new()));
    let mut finished = Vec::new();
    let expected: Vec<(String, u64, bool, usize, Teardown)> = plans
        .iter()
        .flat_map(|p| p.lives.iter().map(|l| (l.name.clone(), l.gen, l.client_sends, l.n, l.teardown)))
        .collect();
    let sess_teardowns: Vec<SessTeardown> = plans.iter().map(|p| p.teardown).collect();
    for plan in plans {
        let (cs, ls) = match world::begin_pair(&ccfg, &lcfg, &mut pair).await {
            Some(x) => x,
            None => return,
        };
        sim::spawn("listener-session", sim::in_group(2, listener_session(ls, lrecords.clone(), lsess_ended.clone())));
        let fin: Slot<()> = Slot::new();
        sim::spawn(
            "client-session",
            sim::in_group(1, client_session(cs, plan, crecords.clone(), pair.mon.clone(), judge, sess_results.clone(), fin.clone())),
        );
        finished.push(fin);
    }
    for f in finished {
        if sim::op("client session", f.take()).await.is_none() {
            return;
        }
    }
    if sim::has_violation() {
        return;
    }
    // the connection must have survived every session and link teardown
    let close = sim::op("connection close", pair.client.close()).await;
    let lclose = tokio::time::timeout(std::time::Duration::from_secs(60), pair.listener.on_close()).await;
    world::quiesce_pair(&pair.net).await;
    pair.mon.borrow_mut().sync();
    if sim::has_violation() {
        return;
    }
    if judge.lifecycle {
        match close {
            Some(Ok(())) => {}
            Some(Err(e)) => {
                sim::violation(
                    "connection-torn-down",
                    format!("after all sessions and links were torn down the connection close returned {:?} (session results {:?})", e, sess_results.borrow()),
                );
                return;
            }
            None => return,
        }
        let _ = lclose;
        for (i, r) in sess_results.borrow().iter().enumerate() {
            let ok = r.ends_with("Ok(())") || r == "dropped";
            if !ok {
                sim::violation("session-end-result", format!("session teardown {:?} returned {}", sess_teardowns.get(i), r));
                return;
            }
        }
    }
    // per link lifetime: what was sent arrived at the designated link, in order; results as expected
    let small_peer_window = lcfg.incoming_window <= 64;
    let cr = crecords.borrow();
    let lr = lrecords.borrow();
    for (name, gen, client_sends, n, teardown) in &expected {
        let c = cr.iter().find(|r| &r.name == name && r.gen == *gen);
        let l = lr.iter().find(|r| &r.name == name && r.gen == *gen);
        let want: Vec<u64> = (0..*n).map(|k| uid(parse_name(name).0, *gen, k as u64 + 1)).collect();
        if judge.routing {
            let (sent, got) = if *client_sends {
                (c.map(|r| r.attempted.clone()), l.map(|r| r.received.clone()))
            } else {
                (l.map(|r| r.attempted.clone()), c.map(|r| r.received.clone()))
            };
            if let (Some(sent), Some(got)) = (&sent, &got) {
                if let Some(bad) = got.iter().find(|u| !want.contains(u)) {
                    sim::violation(
                        "misrouted-message",
                        format!("link {} generation {} received message {} which was sent on another link (expected {:?})", name, gen, bad, want),
                    );
                    return;
                }
                // what arrived is a prefix of what was handed to send(), in order (completeness is
                // C01's business; a send that failed may still have arrived)
                if got.len() > sent.len() || got[..] != sent[..got.len()] {
                    sim::violation(
                        "link-delivery-mismatch",
                        format!("link {} generation {}: sent {:?}, received {:?}", name, gen, sent, got),
                    );
                    return;
                }
            }
        }
        if judge.lifecycle && *client_sends {
            // everything the application had handed over before it tore the link (and then the
            // session) down must have been flushed to the peer
            if let (Some(c), Some(l)) = (c, l) {
                let flushed = l.received.len() >= c.sent.len() && l.received[..c.sent.len()] == c.sent[..] && l.received.len() <= c.attempted.len() && l.received[..] == c.attempted[..l.received.len()];
                if !flushed {
                    // two recorded findings: (1) end() discards transfers still held for the peer's
                    // window; (2) a session whose handle was dropped (no call to wait on) still has
                    // frames in its engine when the application closes the connection, and the close
                    // only drains the connection's own channel
                    let si = (parse_name(name).0 / 16) as usize;
                    let session_dropped = sess_teardowns.get(si) == Some(&SessTeardown::Drop);
                    let sig = if small_peer_window {
                        "session-end-discards-transfers-held-for-the-window"
                    } else if session_dropped {
                        "dropped-session-cut-off-by-connection-close"
                    } else {
                        ""
                    };
                    sim::violation_sig(
                        "queued-frames-not-flushed",
                        sig,
                        format!(
                            "link {} generation {} ({:?}): the application's sends {:?} had completed before the teardown, the peer application received {:?}",
                            name, gen, teardown, c.sent, l.received
                        ),
                    );
                    return;
                }
                sim::probe("flush-before-teardown-checked");
            }
        }
        if judge.lifecycle {
            let c = match c {
                Some(c) => c,
                None => {
                    sim::violation("link-lifetime-incomplete", format!("client link {} generation {} never completed", name, gen));
                    return;
                }
            };
            match teardown {
                Teardown::Close | Teardown::Detach | Teardown::CloseWithError | Teardown::DetachWithError | Teardown::DetachWithTimeout => {
                    if !c.result.starts_with("Ok") {
                        sim::violation("link-teardown-result", format!("{:?} of {} generation {} returned {}", teardown, name, gen, c.result));
                        return;
                    }
                }
                Teardown::PeerClosesFirst => {
                    if !*client_sends {
                        let e = c.error_seen.clone().unwrap_or_default();
                        if !e.contains("RemoteClosed") {
                            sim::violation(
                                "peer-close-not-reported",
                                format!("the peer closed link {} after its sends; the receiver's next recv returned {:?}", name, c.error_seen),
                            );
                            return;
                        }
                    }
                }
                Teardown::Drop => {}
            }
            // the error a local close carried is what the peer's application gets
            if matches!(teardown, Teardown::CloseWithError | Teardown::DetachWithError) {
                if let Some(l) = l {
                    let e = l.error_seen.clone().unwrap_or_default();
                    if !e.contains("local-link-error") {
                        sim::violation(
                            "detach-error-not-delivered",
                            format!("link {} generation {} was closed with an error; the peer application saw {:?}", name, gen, l.error_seen),
                        );
                        return;
                    }
                    sim::probe("detach-error-delivered");
                }
            }
        }
    }
    if judge.lifecycle {
        check_wire_handshakes(&pair.mon.borrow(), &expected);
    }
}

/// Every detach is answered in kind; every end is answered
fn check_wire_handshakes(m: &wire::Monitor, expected: &[(String, u64, bool, usize, Teardown)]) {
    for (name, gen, _, _, teardown) in expected {
        let find = |d: usize| -> Option<&wire::LinkView> { m.ends[d].sessions.iter().flat_map(|s| s.links.iter()).filter(|l| &l.name == name).nth(*gen as usize) };
        let (c, l) = (find(0), find(1));
        if let (Some(c), Some(l)) = (c, l) {
            if c.detached && l.detached && c.detach_closed != l.detach_closed {
                // answering a non-closing detach with a closing one (or vice versa) is only legal
                // when both sides initiated independently; here only one side initiates
                let client_first = c.detach_seq < l.detach_seq;
                let initiator_closed = if client_first { c.detach_closed } else { l.detach_closed };
                let only_one_initiator = !matches!(teardown, Teardown::Drop);
                if only_one_initiator {
                    sim::violation(
                        "detach-not-answered-in-kind",
                        format!(
                            "link {} generation {}: the {} detached with closed={}, the answer has closed={}",
                            name,
                            gen,
                            if client_first { "client" } else { "listener" },
                            initiator_closed,
                            !initiator_closed
                        ),
                    );
                    return;
                }
            }
        }
    }
    for d in 0..2 {
        for s in &m.ends[d].sessions {
            if s.ended {
                if let Some(p) = m.peer_session(d, s.channel) {
                    if !p.ended && m.ends[1 - d].close.is_none() {
                        sim::violation("end-not-answered", format!("{} ended channel {} and the peer never answered with an end", m.names[d], s.channel));
                        return;
                    }
                }
            }
        }
    }
}

pub async fn run_c13() {
    let models = Models {
        sess: true,
        link: true,
        ..Models::none()
    };
    run(Judge { lifecycle: true, routing: false }, models).await
}

pub async fn run_c11() {
    let models = Models {
        sess: true,
        link: true,
        delivery: true,
        ..Models::none()
    };
    run(Judge { lifecycle: false, routing: true }, models).await
}
