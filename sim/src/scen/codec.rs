//! C04 / C20 — the value codec behind a fault-injecting stream.
//!
//! The "network" here is a `std::io::Read` the simulator owns: it hands out the bytes in seeded
//! chunks, interrupts reads, cuts the stream at a chosen offset and corrupts bytes in transit
//! (structure-aware: size and count fields, format codes, string bodies, nesting).
//!
//! C04: whatever arrives, every decoder returns a value or an error - no panic, no stack
//!      exhaustion, no read loop without progress, no allocation out of proportion - and a
//!      decoded value survives re-encoding.
//! C20: the slice reader and the stream reader agree (result and bytes consumed, trailing bytes
//!      left in place), the size calculator agrees with the encoder, and the value tree agrees
//!      with the bytes.

use std::io::Read;

use bytes::BytesMut;
use fe2o3_amqp::frames::{amqp::FrameDecoder, sasl::FrameCodec};
use fe2o3_amqp_types::messaging::message::__private::Deserializable;
use fe2o3_amqp_types::messaging::{Body, Message};
use fe2o3_amqp_types::performatives::Performative;
use serde_amqp::{from_reader, from_slice, lazy::LazyValue, to_vec, Value};
use tokio_util::codec::Decoder;

use crate::chooser::{choice, pick};
use crate::msgs;
use crate::peer::{self, AttachArgs, FlowArgs, TransferArgs};
use crate::refcodec::{self, V};
use crate::sim;

// ---------------------------------------------------------------------------------------
// the simulated stream

pub struct SimRead {
    data: Vec<u8>,
    pub pos: usize,
    /// chunk size policy: 0 = all at once, n = at most n bytes per read, u32::MAX = seeded per read
    chunk: u32,
    /// one read in `interrupt_den` fails with ErrorKind::Interrupted (0 = never)
    interrupt_den: u32,
    /// a hard I/O error instead of data at this offset
    error_at: Option<usize>,
    pub reads: u64,
    pub interrupts: u64,
    just_interrupted: bool,
}

impl SimRead {
    pub fn new(data: Vec<u8>, chunk: u32, interrupt_den: u32, error_at: Option<usize>) -> Self {
        SimRead { data, pos: 0, chunk, interrupt_den, error_at, reads: 0, interrupts: 0, just_interrupted: false }
    }
}

impl Read for SimRead {
    fn read(&mut self, buf: &mut [u8]) -> std::io::Result<usize> {
        self.reads += 1;
        if buf.is_empty() {
            return Ok(0);
        }
        // (never twice in a row: callers retry an interrupted read, and a reader that is
        // interrupted every time would keep them retrying forever by contract)
        if self.interrupt_den > 0 && !self.just_interrupted && choice(self.interrupt_den) == 0 {
            self.interrupts += 1;
            self.just_interrupted = true;
            return Err(std::io::Error::new(std::io::ErrorKind::Interrupted, "simulated EINTR"));
        }
        self.just_interrupted = false;
        if let Some(at) = self.error_at {
            if self.pos >= at {
                return Err(std::io::Error::new(std::io::ErrorKind::ConnectionReset, "simulated reset"));
            }
        }
        let left = self.data.len() - self.pos;
        if left == 0 {
            return Ok(0);
        }
        let mut n = left.min(buf.len());
        if let Some(at) = self.error_at {
            n = n.min(at - self.pos);
        }
        n = match self.chunk {
            0 => n,
            u32::MAX => 1 + choice(n as u32) as usize,
            c => n.min(c as usize),
        };
        buf[..n].copy_from_slice(&self.data[self.pos..self.pos + n]);
        self.pos += n;
        Ok(n)
    }
}

// ---------------------------------------------------------------------------------------
// valid encodings

fn gen_v(depth: u32) -> V {
    let n = if depth >= 3 { 17 } else { 22 };
    match choice(n) {
        0 => V::Null,
        1 => V::Bool(choice(2) == 1),
        2 => V::Ubyte(choice(256) as u8),
        3 => V::Ushort(choice(65536) as u16),
        4 => V::Uint(pick(&[0u32, 1, 255, 256, 0xffff_ffff, 77777])),
        5 => V::Ulong(pick(&[0u64, 1, 255, 256, u64::MAX, 1 << 40])),
        6 => V::Byte(choice(256) as u8 as i8),
        7 => V::Short(choice(65536) as u16 as i16),
        8 => V::Int(pick(&[0i32, -1, 127, 128, -129, i32::MIN, i32::MAX])),
        9 => V::Long(pick(&[0i64, -1, 127, 128, -129, i64::MIN, i64::MAX])),
        10 => V::Float(pick(&[0u32, 0x3f80_0000, 0x7fc0_0000, 0xff80_0000, 0x0000_0001])),
        11 => V::Double(pick(&[0u64, 0x3ff0_0000_0000_0000, 0x7ff8_0000_0000_0000, 0xfff0_0000_0000_0000])),
        12 => V::Char(pick(&[0x41u32, 0x1F600, 0x10FFFF, 0])),
        13 => V::Timestamp(pick(&[0i64, -1, 1_600_000_000_000, i64::MAX])),
        14 => V::Uuid([choice(256) as u8; 16]),
        15 => V::Bin((0..pick(&[0u32, 1, 5, 255, 256, 300])).map(|i| i as u8).collect()),
        16 => {
            let s: String = match choice(4) {
                0 => String::new(),
                1 => "héllo wörld ✓".to_string(),
                2 => "a".repeat(pick(&[1usize, 255, 256, 400])),
                _ => format!("s{}", choice(1000)),
            };
            if choice(2) == 0 {
                V::Str(s)
            } else {
                V::Sym(s.chars().filter(|c| c.is_ascii()).collect())
            }
        }
        17 => V::List((0..pick(&[0u32, 1, 2, 3, 30])).map(|_| gen_v(depth + 1)).collect()),
        18 if choice(3) == 0 => {
            // maps whose key and value share a Rust representation but not a constructor:
            // timestamp / long, array / list
            if choice(2) == 0 {
                V::Map((0..1 + choice(3)).map(|i| (V::Timestamp(1_600_000_000_000 + i as i64), V::Long(pick(&[-7i64, 5, -70_000_000_000, i64::MAX])))).collect())
            } else {
                V::Map((0..1 + choice(2)).map(|i| (V::Array((0..i).map(|k| V::Uint(70_000 + k)).collect()), V::List((0..choice(3)).map(|k| V::Uint(k)).collect()))).collect())
            }
        }
        18 => {
            // keys of every kind that may precede a value of another kind (one serializer writes
            // both halves of an entry): strings, symbols, numbers, timestamps, binaries, uuids
            let kk = choice(7);
            V::Map(
                (0..choice(4))
                    .map(|i| {
                        let key = match kk {
                            0 | 1 => V::Str(format!("k{}", i)),
                            2 | 3 => V::Sym(format!("sym-key-{}", i)),
                            4 => V::Ulong(i as u64),
                            5 => V::Timestamp(1_600_000_000_000 + i as i64),
                            _ => V::Bin(vec![i as u8; 3]),
                        };
                        (key, gen_v(depth + 1))
                    })
                    .collect(),
            )
        }
        19 if choice(3) == 0 => {
            // arrays of compound or zero-width elements
            let n = 1 + choice(3);
            match choice(5) {
                0 => V::Array((0..n).map(|i| V::List(vec![V::Uint(300 + i), V::Str(format!("e{}", i))])).collect()),
                1 => V::Array((0..n).map(|i| V::Map(vec![(V::Str("k".into()), V::Uint(1000 + i))])).collect()),
                2 => V::Array((0..n).map(|i| V::Array(vec![V::Uint(70000 + i), V::Uint(5)])).collect()),
                3 => V::Array((0..n).map(|_| V::Null).collect()),
                _ => V::Array((0..n).map(|_| V::List(vec![])).collect()),
            }
        }
        19 => {
            // arrays: one element type
            let k = choice(18);
            let n = pick(&[0u32, 1, 3, 40]);
            V::Array(
                (0..n)
                    .map(|i| match k {
                        0 => V::Uint(1000 + i),
                        1 => V::Sym(format!("sym{}", i)),
                        2 => V::Ulong(1 << 33 | i as u64),
                        3 => V::Bool(i % 2 == 0),
                        4 => V::Uuid([i as u8; 16]),
                        5 => V::Dec32([i as u8; 4]),
                        6 => V::Dec64([i as u8; 8]),
                        7 => V::Dec128([i as u8; 16]),
                        8 => V::Timestamp(1_600_000_000_000 + i as i64),
                        9 => V::Char(0x41 + i),
                        10 => V::Float(0x3f80_0000 + i),
                        11 => V::Double(0x3ff0_0000_0000_0000 + i as u64),
                        12 => V::Ubyte(i as u8),
                        13 => V::Short(-(i as i16)),
                        14 => V::Long(-(i as i64) - (1 << 40)),
                        15 => V::Str(format!("é{}", i)),
                        16 => V::Bin(vec![i as u8; (i % 5) as usize]),
                        _ => V::Int(-(i as i32) - 70_000),
                    })
                    .collect(),
            )
        }
        20 => V::Described(Box::new(if choice(2) == 0 { V::Ulong(pick(&[0x70u64, 0x24, 0x99, 1 << 40])) } else { V::Sym("x:desc".into()) }), Box::new(gen_v(depth + 1))),
        _ => V::Dec64([choice(256) as u8; 8]),
    }
}

#[derive(Clone, Copy, Debug, PartialEq)]
pub enum Kind {
    AnyValue,
    PerformativeBody,
    SaslBody,
    MessageBytes,
    /// an outcome / delivery state with every form of descriptor and of (empty) field list
    OutcomeForms,
    /// an array of one element type, every type in turn (fixed width 0..16, variable, compound)
    TypedArray,
}

fn gen_typed_array() -> V {
    let k = choice(23);
    let n = pick(&[1u32, 2, 3, 40]);
    V::Array(
        (0..n)
            .map(|i| match k {
                0 => V::Uint(1000 + i),
                1 => V::Sym(format!("sym{}", i)),
                2 => V::Ulong(1 << 33 | i as u64),
                3 => V::Bool(i % 2 == 0),
                4 => V::Uuid([i as u8; 16]),
                5 => V::Dec32([i as u8; 4]),
                6 => V::Dec64([i as u8; 8]),
                7 => V::Dec128([i as u8; 16]),
                8 => V::Timestamp(1_600_000_000_000 + i as i64),
                9 => V::Char(0x41 + i),
                10 => V::Float(0x3f80_0000 + i),
                11 => V::Double(0x3ff0_0000_0000_0000 + i as u64),
                12 => V::Ubyte(i as u8),
                13 => V::Short(-(i as i16)),
                14 => V::Long(-(i as i64) - (1 << 40)),
                15 => V::Str(format!("é{}", i)),
                16 => V::Bin(vec![i as u8; (i % 5) as usize]),
                17 => V::Int(-(i as i32) - 70_000),
                18 => V::Null,
                19 => V::List(vec![V::Uint(300 + i), V::Str(format!("e{}", i))]),
                20 => V::Map(vec![(V::Str("k".into()), V::Uint(1000 + i))]),
                21 => V::Array(vec![V::Uuid([i as u8; 16]), V::Uuid([7; 16])]),
                _ => V::Ushort(i as u16),
            })
            .collect(),
    )
}

fn gen_encoding(kind: Kind) -> Vec<u8> {
    match kind {
        Kind::AnyValue => refcodec::encode_with(&gen_v(0), refcodec::EncOpts { wide: choice(3) == 0 }),
        Kind::PerformativeBody => {
            let v = match choice(9) {
                0 => peer::open("container", pick(&[None, Some(512u32), Some(u32::MAX)]), pick(&[None, Some(7u16)]), pick(&[None, Some(0u32), Some(30_000)])),
                1 => peer::begin(pick(&[None, Some(3u16)]), choice(1000), 2048, 2048),
                2 => peer::attach(&if choice(2) == 0 { AttachArgs::sender("link-a", choice(10)) } else { AttachArgs::receiver("link-b", choice(10)) }),
                3 => peer::flow(&FlowArgs { next_incoming_id: pick(&[None, Some(5u32)]), incoming_window: 100, next_outgoing_id: 7, outgoing_window: 100, handle: pick(&[None, Some(2u32)]), delivery_count: Some(3), link_credit: Some(10), ..Default::default() }),
                4 => peer::transfer(&TransferArgs { handle: 1, delivery_id: Some(choice(100)), delivery_tag: Some(vec![1, 2, 3]), message_format: Some(0), settled: pick(&[None, Some(true)]), more: pick(&[None, Some(true)]), ..Default::default() }),
                5 => peer::disposition(choice(2) == 1, 3, pick(&[None, Some(9u32)]), true, Some(pick(&[0u32, 1, 2]).pipe(|k| if k == 0 { peer::accepted() } else if k == 1 { peer::released() } else { peer::rejected(Some("why")) }))),
                6 => peer::detach(choice(5), choice(2) == 1, pick(&[0u32, 1]).pipe(|k| if k == 0 { None } else { Some(peer::error("amqp:link:detach-forced", Some("d"))) })),
                7 => peer::end(None),
                _ => peer::close(Some(peer::error("amqp:connection:forced", None))),
            };
            refcodec::encode_with(&v, refcodec::EncOpts { wide: choice(4) == 0 })
        }
        Kind::SaslBody => {
            let v = match choice(5) {
                0 => refcodec::described(0x40, vec![V::Array(vec![V::Sym("PLAIN".into()), V::Sym("ANONYMOUS".into())])]),
                1 => refcodec::described(0x41, vec![V::Sym("PLAIN".into()), V::Bin(b"\0u\0p".to_vec()), V::Str("host".into())]),
                2 => refcodec::described(0x42, vec![V::Bin(vec![1, 2, 3])]),
                3 => refcodec::described(0x43, vec![V::Bin(vec![4, 5])]),
                _ => refcodec::described(0x44, vec![V::Ubyte(choice(5) as u8), V::Bin(vec![9])]),
            };
            refcodec::encode(&v)
        }
        Kind::MessageBytes => msgs::encode(&msgs::gen_message(1 + choice(1000) as u64, 120, 1)),
        Kind::TypedArray => {
            let a = gen_typed_array();
            // on its own, or as a field among others
            let v = match choice(3) {
                0 => a,
                1 => V::List(vec![V::Uint(1), a, V::Str("after".into())]),
                _ => V::Map(vec![(V::Sym("k".into()), a), (V::Sym("l".into()), V::Uint(2))]),
            };
            refcodec::encode(&v)
        }
        Kind::OutcomeForms => {
            // accepted 0x24, released 0x26, rejected 0x25, modified 0x27, received 0x23
            let (code, sym, fields): (u8, &str, Vec<u8>) = match choice(4) {
                0 => (0x24, "amqp:accepted:list", vec![]),
                1 => (0x26, "amqp:released:list", vec![]),
                2 => (0x25, "amqp:rejected:list", vec![]),
                _ => (0x27, "amqp:modified:list", if choice(2) == 0 { vec![] } else { vec![0x41] }),
            };
            let mut out = vec![0x00];
            match choice(4) {
                0 => out.extend_from_slice(&[0x53, code]),
                1 => {
                    out.push(0x80);
                    out.extend_from_slice(&(code as u64).to_be_bytes());
                }
                2 => {
                    out.push(0xa3);
                    out.push(sym.len() as u8);
                    out.extend_from_slice(sym.as_bytes());
                }
                _ => {
                    out.push(0xb3);
                    out.extend_from_slice(&(sym.len() as u32).to_be_bytes());
                    out.extend_from_slice(sym.as_bytes());
                }
            }
            let n = fields.len();
            match choice(3) {
                0 if n == 0 => out.push(0x45),
                1 => {
                    out.extend_from_slice(&[0xc0, (n + 1) as u8, n as u8]);
                    out.extend_from_slice(&fields);
                }
                _ => {
                    out.push(0xd0);
                    out.extend_from_slice(&((n + 4) as u32).to_be_bytes());
                    out.extend_from_slice(&(n as u32).to_be_bytes());
                    out.extend_from_slice(&fields);
                }
            }
            out
        }
    }
}

trait Pipe: Sized {
    fn pipe<R>(self, f: impl FnOnce(Self) -> R) -> R {
        f(self)
    }
}
impl<T> Pipe for T {}

// ---------------------------------------------------------------------------------------
// structure-aware corruption

#[derive(Clone, Copy, Debug, PartialEq)]
enum FieldKind {
    FormatCode,
    Size,
    Count,
    Text,
}

#[derive(Clone, Copy, Debug)]
struct Field {
    off: usize,
    width: usize,
    kind: FieldKind,
}

/// Walk a (valid) encoding and note where format codes, size fields, count fields and string
/// bodies are. Generic over the AMQP constructor layout (subcategory nibble of the format code).
fn scan(buf: &[u8], mut pos: usize, out: &mut Vec<Field>, budget: &mut u32) -> Option<usize> {
    if *budget == 0 || pos >= buf.len() {
        return None;
    }
    *budget -= 1;
    let code = buf[pos];
    out.push(Field { off: pos, width: 1, kind: FieldKind::FormatCode });
    pos += 1;
    if code == 0x00 {
        // described: descriptor, then value
        let p = scan(buf, pos, out, budget)?;
        return scan(buf, p, out, budget);
    }
    let rd = |p: usize, w: usize| -> Option<usize> {
        if p + w > buf.len() {
            return None;
        }
        Some(buf[p..p + w].iter().fold(0usize, |a, b| (a << 8) | *b as usize))
    };
    match code >> 4 {
        0x4 => Some(pos),
        0x5 => Some(pos + 1),
        0x6 => Some(pos + 2),
        0x7 => Some(pos + 4),
        0x8 => Some(pos + 8),
        0x9 => Some(pos + 16),
        0xA | 0xB => {
            let w = if code >> 4 == 0xA { 1 } else { 4 };
            let n = rd(pos, w)?;
            out.push(Field { off: pos, width: w, kind: FieldKind::Size });
            if n > 0 && (code & 0x0f == 0x1 || code & 0x0f == 0x3) {
                out.push(Field { off: pos + w, width: n, kind: FieldKind::Text });
            }
            Some(pos + w + n)
        }
        0xC | 0xD => {
            let w = if code >> 4 == 0xC { 1 } else { 4 };
            let size = rd(pos, w)?;
            let count = rd(pos + w, w)?;
            out.push(Field { off: pos, width: w, kind: FieldKind::Size });
            out.push(Field { off: pos + w, width: w, kind: FieldKind::Count });
            let end = pos + w + size;
            let mut p = pos + 2 * w;
            for _ in 0..count {
                p = scan(buf, p, out, budget)?;
            }
            Some(end.max(p))
        }
        0xE | 0xF => {
            let w = if code >> 4 == 0xE { 1 } else { 4 };
            let size = rd(pos, w)?;
            out.push(Field { off: pos, width: w, kind: FieldKind::Size });
            out.push(Field { off: pos + w, width: w, kind: FieldKind::Count });
            if size > w {
                out.push(Field { off: pos + 2 * w, width: 1, kind: FieldKind::FormatCode });
            }
            Some(pos + w + size)
        }
        _ => None,
    }
}

fn put(buf: &mut [u8], f: &Field, v: u64) {
    for i in 0..f.width {
        buf[f.off + i] = (v >> (8 * (f.width - 1 - i))) as u8;
    }
}
fn get(buf: &[u8], f: &Field) -> u64 {
    buf[f.off..f.off + f.width].iter().fold(0u64, |a, b| (a << 8) | *b as u64)
}

/// One corruption in transit; returns a description
fn corrupt(buf: &mut Vec<u8>) -> String {
    let mut fields = Vec::new();
    let mut budget = 20_000;
    let _ = scan(buf, 0, &mut fields, &mut budget);
    let of = |k: FieldKind| -> Vec<Field> { fields.iter().filter(|f| f.kind == k && f.off + f.width <= buf.len()).cloned().collect() };
    match choice(8) {
        0 | 1 => {
            let fs = of(FieldKind::Size);
            if fs.is_empty() {
                return "none".into();
            }
            let f = fs[choice(fs.len() as u32) as usize];
            let cur = get(buf, &f);
            let max = if f.width == 1 { 0xff } else { 0xffff_ffff };
            let v = pick(&[0u64, 1, 2, 3, cur.wrapping_sub(1) & max, (cur + 1) & max, max, max / 2, 0x7fff_ffff & max]);
            put(buf, &f, v);
            format!("size@{}:{}->{}", f.off, cur, v)
        }
        2 | 3 => {
            let fs = of(FieldKind::Count);
            if fs.is_empty() {
                return "none".into();
            }
            let f = fs[choice(fs.len() as u32) as usize];
            let cur = get(buf, &f);
            let max = if f.width == 1 { 0xff } else { 0xffff_ffff };
            let v = pick(&[0u64, 1, cur | 1, cur.wrapping_sub(1) & max, (cur + 1) & max, max, max - 1, 0x0100_0000 & max, 100_000 & max]);
            put(buf, &f, v);
            format!("count@{}:{}->{}", f.off, cur, v)
        }
        4 => {
            let fs = of(FieldKind::FormatCode);
            if fs.is_empty() {
                return "none".into();
            }
            let f = fs[choice(fs.len() as u32) as usize];
            let cur = buf[f.off];
            let v = pick(&[0x00u8, 0x3f, 0x40, 0x45, 0xc0, 0xd0, 0xe0, 0xf0, 0xa1, 0xb3, 0x98, 0x74, 0xff, choice(256) as u8]);
            buf[f.off] = v;
            format!("code@{}:{:#x}->{:#x}", f.off, cur, v)
        }
        5 => {
            let fs = of(FieldKind::Text);
            if fs.is_empty() {
                return "none".into();
            }
            let f = fs[choice(fs.len() as u32) as usize];
            let i = f.off + choice(f.width as u32) as usize;
            buf[i] = pick(&[0xffu8, 0xc0, 0x80, 0xfe, 0xed]);
            format!("utf8@{}", i)
        }
        6 => {
            if buf.is_empty() {
                return "none".into();
            }
            let i = choice(buf.len() as u32) as usize;
            buf[i] ^= 1 << choice(8);
            format!("bitflip@{}", i)
        }
        _ => {
            // wrap into nested compound or described values
            let how = choice(6);
            if how == 5 {
                // compound headers that promise much and hold little, one inside the other: each
                // level is 9 bytes and claims tens of thousands of elements; the sizes are honest,
                // so nothing but the element count is wrong
                let k = pick(&[3usize, 30, 100, 300, 1000]);
                let claim = pick(&[65_536u32, 65_536, 65_535, 100_000, 1 << 20, 4096]);
                let code = pick(&[0xd0u8, 0xd0, 0xd1]);
                let mut inner = std::mem::take(buf);
                inner.truncate(64);
                for _ in 0..k {
                    let mut outer = Vec::with_capacity(inner.len() + 9);
                    outer.push(code);
                    outer.extend_from_slice(&((inner.len() + 4) as u32).to_be_bytes());
                    outer.extend_from_slice(&claim.to_be_bytes());
                    outer.extend_from_slice(&inner);
                    inner = outer;
                }
                *buf = inner;
                return format!("hungry-headers-{:#x}-x{}-claiming-{}", code, k, claim);
            }
            let depth = if how >= 2 { pick(&[10usize, 200, 2000, 8000, 40000]) } else { pick(&[10usize, 200, 2000, 8000]) };
            let inner = std::mem::take(buf);
            *buf = match how {
                0 | 1 => {
                    // lists (how = 0) or arrays of one list (how = 1), built from the inside out
                    let mut inner = inner;
                    for _ in 0..depth {
                        let mut outer = Vec::with_capacity(inner.len() + 9);
                        let code8 = if how == 0 { 0xc0 } else { 0xe0 };
                        if inner.len() + 1 <= 255 {
                            outer.extend_from_slice(&[code8, (inner.len() + 1) as u8, 1]);
                        } else {
                            outer.push(code8 + 0x10);
                            outer.extend_from_slice(&((inner.len() + 4) as u32).to_be_bytes());
                            outer.extend_from_slice(&1u32.to_be_bytes());
                        }
                        outer.extend_from_slice(&inner);
                        inner = outer;
                    }
                    inner
                }
                _ => {
                    // described values: a prefix per level, no size fields
                    let prefix: &[u8] = match how {
                        2 => &[0x00, 0x44],             // descriptor ulong0
                        3 => &[0x00, 0x53, 0x70],       // descriptor smallulong
                        _ => &[0x00, 0xa3, 0x01, b'x'], // descriptor symbol
                    };
                    let mut out = Vec::with_capacity(prefix.len() * depth + inner.len());
                    for _ in 0..depth {
                        out.extend_from_slice(prefix);
                    }
                    out.extend_from_slice(&inner);
                    out
                }
            };
            format!("nested-{}-x{}", ["lists", "arrays", "described-ulong0", "described-smallulong", "described-symbol"][how as usize], depth)
        }
    }
}

// ---------------------------------------------------------------------------------------
// decoding everything, both ways

#[derive(Debug, PartialEq)]
enum Out {
    Ok(String),
    Err,
}

fn measure<T>(input_len: usize, what: &str, f: impl FnOnce() -> T) -> T {
    let before = crate::alloc_now();
    crate::alloc_reset_peak();
    let r = f();
    let peak = crate::alloc_peak().saturating_sub(before);
    // proportionate: linear in the input (a decoded value tree takes 72 bytes per element, an
    // element at least one input byte) plus a constant for the one array that may claim up to
    // MAX_ARRAY_COUNT = 65536 zero-width elements before its declared size is checked against
    // the input (65536 x 72 bytes, while the vector doubles)
    let bound = 160 * input_len + (16 << 20);
    if peak > bound {
        sim::violation("allocation-out-of-proportion", format!("{}: {} input bytes made the decoder allocate {} bytes at its peak (bound {})", what, input_len, peak, bound));
    }
    r
}

fn reader_for(bytes: &[u8]) -> SimRead {
    let chunk = pick(&[0u32, 1, 2, 3, 7, 8, u32::MAX]);
    let interrupt_den = pick(&[0u32, 0, 5, 2]);
    SimRead::new(bytes.to_vec(), chunk, interrupt_den, None)
}

fn check_reads(what: &str, r: &SimRead, len: usize) {
    // never loops without consuming input: reads are bounded by the bytes plus the interruptions
    let bound = 4 * (len as u64 + 2) + 4 * r.interrupts + 64;
    if r.reads > bound {
        sim::violation("read-loop-without-progress", format!("{}: {} read calls for {} bytes ({} interrupted)", what, r.reads, len, r.interrupts));
    }
}

/// Decode `bytes` as every public type through the slice reader and the stream reader; returns
/// whether the Value decode succeeded
fn decode_all(bytes: &[u8], agree: bool) {
    // ---- Value
    let a: Result<Value, _> = measure(bytes.len(), "from_slice::<Value>", || from_slice(bytes));
    let mut rd = reader_for(bytes);
    let b: Result<Value, _> = measure(bytes.len(), "from_reader::<Value>", || from_reader(&mut rd));
    check_reads("from_reader::<Value>", &rd, bytes.len());
    if let Ok(v) = &a {
        // re-encoding and decoding again gives the same value
        match to_vec(v) {
            Ok(b2) => match from_slice::<Value>(&b2) {
                Ok(v2) => {
                    if &v2 != v {
                        sim::violation("decode-encode-decode", format!("bytes {} decode to {:?}, whose encoding decodes to {:?}", refcodec::hex(&bytes[..bytes.len().min(64)]), v, v2));
                    }
                }
                Err(e) => sim::violation("decode-encode-decode", format!("bytes {} decode to {:?}, whose encoding does not decode: {:?}", refcodec::hex(&bytes[..bytes.len().min(64)]), v, e)),
            },
            Err(e) => sim::violation("decode-encode-decode", format!("decoded value {:?} cannot be encoded: {:?}", v, e)),
        }
        sim::probe("value-decoded");
    } else {
        sim::probe("value-rejected");
    }
    if agree {
        // interruptions are an I/O matter: with them the stream reader may fail where the slice reader succeeds
        let comparable = rd.interrupts == 0;
        match (&a, &b) {
            (Ok(x), Ok(y)) => {
                if x != y {
                    sim::violation("readers-disagree", format!("slice reader gives {:?}, stream reader {:?}", x, y));
                }
            }
            (Ok(x), Err(e)) if comparable => sim::violation("readers-disagree", format!("slice reader gives {:?}, stream reader fails with {:?} (no I/O fault)", x, e)),
            (Err(e), Ok(y)) => sim::violation("readers-disagree", format!("slice reader fails with {:?}, stream reader gives {:?}", e, y)),
            _ => {}
        }
    }
    // ---- typed
    let _: Result<Performative, _> = measure(bytes.len(), "from_slice::<Performative>", || from_slice(bytes));
    let mut rd = reader_for(bytes);
    let _: Result<Performative, _> = measure(bytes.len(), "from_reader::<Performative>", || from_reader(&mut rd));
    check_reads("from_reader::<Performative>", &rd, bytes.len());
    let _: Result<Deserializable<Message<Body<Value>>>, _> = measure(bytes.len(), "from_slice::<Message>", || from_slice(bytes));
    let mut rd = reader_for(bytes);
    let _: Result<Deserializable<Message<Body<Value>>>, _> = measure(bytes.len(), "from_reader::<Message>", || from_reader(&mut rd));
    check_reads("from_reader::<Message>", &rd, bytes.len());
    // ---- lazy value
    let _ = measure(bytes.len(), "LazyValue (slice)", || {
        let mut r = serde_amqp::read::SliceReader::new(bytes);
        LazyValue::from_reader(&mut r)
    });
    let mut rd = reader_for(bytes);
    let _ = measure(bytes.len(), "LazyValue (stream)", || {
        let mut r = serde_amqp::read::IoReader::new(&mut rd);
        LazyValue::from_reader(&mut r)
    });
    check_reads("LazyValue (stream)", &rd, bytes.len());
    // ---- frame bodies: four header bytes (doff 2, type, channel) then the body
    let mut f = BytesMut::from(&[2u8, 0, 0, 0][..]);
    f.extend_from_slice(bytes);
    let _ = measure(bytes.len(), "amqp::FrameDecoder", || FrameDecoder {}.decode(&mut f));
    let mut f = BytesMut::from(&[2u8, 1, 0, 0][..]);
    f.extend_from_slice(bytes);
    let _ = measure(bytes.len(), "sasl::FrameCodec", || FrameCodec {}.decode(&mut f));
}

// ---------------------------------------------------------------------------------------
// C04 variants

/// Seeded: a valid encoding, corrupted in transit one to three times, possibly cut
pub async fn run_c04_corruption() {
    let kind = pick(&[Kind::AnyValue, Kind::AnyValue, Kind::PerformativeBody, Kind::SaslBody, Kind::MessageBytes]);
    let mut bytes = gen_encoding(kind);
    let n = 1 + choice(3);
    let mut notes = Vec::new();
    for _ in 0..n {
        notes.push(corrupt(&mut bytes));
        sim::fault("corruption-in-transit");
    }
    if choice(4) == 0 && !bytes.is_empty() {
        let t = choice(bytes.len() as u32) as usize;
        bytes.truncate(t);
        notes.push(format!("cut@{}", t));
        sim::fault("stream-cut");
    }
    sim::set_config(format!("variant=corruption kind={:?} len={} faults={:?} head={}", kind, bytes.len(), notes, refcodec::hex(&bytes[..bytes.len().min(48)])));
    sim::mark_nontrivial();
    sim::evh_bytes(0xC04, &bytes);
    decode_all(&bytes, false);
}

/// "Never exhausts the stack": compound values nested around the decoder's depth limit, decoded on a
/// thread whose stack is scaled to this build. The crate's limit (MAX_NESTING_DEPTH) is tuned for a
/// 2 MiB thread in an unoptimised build, where the deepest nesting it accepts takes about two thirds
/// of the stack; the optimised simulator build has smaller frames, so the same inputs are decoded
/// here on a stack of which the deepest accepted nesting of the unchanged tree takes the same share
/// (calibrated: NEST_STACK). A decoder that accepts deeper nesting, or needs more stack per level,
/// overflows it: the worker dies and the run is attributed by the orchestrator.
pub const NEST_STACK: usize = 248 * 1024;

fn nest(kind: u32, depth: usize, leaf: &[u8]) -> Vec<u8> {
    let mut inner = leaf.to_vec();
    for _ in 0..depth {
        let mut outer = Vec::with_capacity(inner.len() + 16);
        match kind {
            0 => {
                // list32 [ inner ]
                outer.push(0xd0);
                outer.extend_from_slice(&((inner.len() + 4) as u32).to_be_bytes());
                outer.extend_from_slice(&1u32.to_be_bytes());
                outer.extend_from_slice(&inner);
            }
            1 => {
                // map32 { null: inner }
                outer.push(0xd1);
                outer.extend_from_slice(&((inner.len() + 5) as u32).to_be_bytes());
                outer.extend_from_slice(&2u32.to_be_bytes());
                outer.push(0x40);
                outer.extend_from_slice(&inner);
            }
            2 => {
                // map32 { inner: null }
                outer.push(0xd1);
                outer.extend_from_slice(&((inner.len() + 5) as u32).to_be_bytes());
                outer.extend_from_slice(&2u32.to_be_bytes());
                outer.extend_from_slice(&inner);
                outer.push(0x40);
            }
            3 => {
                // array32 of one element of whatever the inner value is (constructor + body)
                outer.push(0xf0);
                outer.extend_from_slice(&((inner.len() + 4) as u32).to_be_bytes());
                outer.extend_from_slice(&1u32.to_be_bytes());
                outer.extend_from_slice(&inner);
            }
            4 => {
                // described by a small ulong
                outer.extend_from_slice(&[0x00, 0x53, 0x70]);
                outer.extend_from_slice(&inner);
            }
            _ => {
                // alternating list / map
                if inner.len() % 2 == 0 {
                    outer.push(0xd0);
                    outer.extend_from_slice(&((inner.len() + 4) as u32).to_be_bytes());
                    outer.extend_from_slice(&1u32.to_be_bytes());
                    outer.extend_from_slice(&inner);
                } else {
                    outer.push(0xd1);
                    outer.extend_from_slice(&((inner.len() + 5) as u32).to_be_bytes());
                    outer.extend_from_slice(&2u32.to_be_bytes());
                    outer.push(0x40);
                    outer.extend_from_slice(&inner);
                }
            }
        }
        inner = outer;
    }
    inner
}

/// Every decode of `decode_all`, without the bookkeeping (runs on a thread of its own)
fn decode_plain(bytes: &[u8]) -> (bool, bool) {
    let a: Result<Value, _> = from_slice(bytes);
    let mut cur = std::io::Cursor::new(bytes.to_vec());
    let b: Result<Value, _> = from_reader(&mut cur);
    let _: Result<Performative, _> = from_slice(bytes);
    let _: Result<Deserializable<Message<Body<Value>>>, _> = from_slice(bytes);
    let mut cur = std::io::Cursor::new(bytes.to_vec());
    let _: Result<Deserializable<Message<Body<Value>>>, _> = from_reader(&mut cur);
    let _ = {
        let mut r = serde_amqp::read::SliceReader::new(bytes);
        LazyValue::from_reader(&mut r)
    };
    let mut f = BytesMut::from(&[2u8, 0, 0, 0][..]);
    f.extend_from_slice(bytes);
    let _ = FrameDecoder {}.decode(&mut f);
    // the application-properties of a message: a map whose values are the nested value
    let mut m = vec![0x00, 0x53, 0x74, 0xd1];
    m.extend_from_slice(&((bytes.len() + 4 + 3) as u32).to_be_bytes());
    m.extend_from_slice(&2u32.to_be_bytes());
    m.extend_from_slice(&[0xa1, 0x01, b'k']);
    m.extend_from_slice(bytes);
    let _: Result<Deserializable<Message<Body<Value>>>, _> = from_slice(&m);
    if let Ok(v) = &a {
        // what was accepted is encoded and dropped again on the same stack
        let _ = to_vec(v);
    }
    (a.is_ok(), b.is_ok())
}

pub async fn run_c04_nesting_small_stack() {
    let kind = choice(6);
    let depth = pick(&[20usize, 60, 100, 120, 126, 127, 128, 129, 160, 190, 200, 254, 255, 256, 300, 600]);
    let leaf: &[u8] = pick(&[&[0x40u8][..], &[0x50, 7][..], &[0xa1, 0x01, b'x'][..], &[0x45][..]]);
    let bytes = nest(kind, depth, leaf);
    let stack: usize = std::env::var("VERIF_C04_NEST_STACK").ok().and_then(|s| s.parse().ok()).unwrap_or(NEST_STACK);
    sim::set_config(format!("variant=nesting-on-a-scaled-stack kind={} depth={} len={} stack={}B", ["lists", "maps-in-value-position", "maps-in-key-position", "arrays", "described", "lists-and-maps"][kind as usize], depth, bytes.len(), stack));
    sim::mark_nontrivial();
    sim::evh_bytes(0xC04, &bytes);
    sim::fault("deep-nesting");
    let b2 = bytes.clone();
    let h = std::thread::Builder::new().name("c04-nesting".into()).stack_size(stack).spawn(move || decode_plain(&b2));
    match h.map(|h| h.join()) {
        Ok(Ok((a, b))) => {
            if a != b {
                sim::violation("readers-disagree", format!("nesting depth {}: slice reader accepts = {}, stream reader accepts = {}", depth, a, b));
            }
            sim::probe(if a { "nested-value-accepted" } else { "nested-value-rejected" });
        }
        Ok(Err(_)) => sim::violation("panic", format!("decoding a value nested {} deep panicked", depth)),
        Err(e) => sim::harness_error("thread", format!("{:?}", e)),
    }
}

/// Valid encodings, uncorrupted: every one must decode (both readers, chunked, interrupted),
/// and what it decodes to must survive the crate's own encoder
pub async fn run_c04_valid() {
    let kind = pick(&[Kind::AnyValue, Kind::AnyValue, Kind::AnyValue, Kind::PerformativeBody, Kind::SaslBody, Kind::MessageBytes]);
    let bytes = gen_encoding(kind);
    sim::set_config(format!("variant=valid kind={:?} len={} head={}", kind, bytes.len(), refcodec::hex(&bytes[..bytes.len().min(64)])));
    sim::mark_nontrivial();
    sim::evh_bytes(0xC04, &bytes);
    if kind != Kind::MessageBytes {
        // (a message is a sequence of sections, not one value)
        // (C04 asks for a value or an error; that a valid encoding is accepted is C05's
        // business - counted, not judged)
        if from_slice::<Value>(&bytes).is_err() {
            sim::probe("valid-encoding-rejected");
        }
    }
    decode_all(&bytes, true);
    sim::probe("valid-encoding-decoded");
}

pub const CUT_MAX: u64 = 700;

/// Enumerated: per seed one valid encoding, cut at every offset (the run's case)
pub async fn run_c04_cut_sweep() {
    let kind = pick(&[Kind::AnyValue, Kind::PerformativeBody, Kind::SaslBody, Kind::MessageBytes]);
    let bytes = gen_encoding(kind);
    let at = sim::case() as usize;
    sim::set_config(format!("variant=cut-sweep kind={:?} len={} cut-at={}", kind, bytes.len(), at));
    if at >= bytes.len() {
        sim::probe("cut-beyond-encoding");
        return;
    }
    sim::mark_nontrivial();
    sim::fault("stream-cut");
    sim::evh_bytes(0xC04, &bytes[..at]);
    decode_all(&bytes[..at], true);
    // a hard error at that offset instead of EOF
    let mut rd = SimRead::new(bytes.clone(), pick(&[0u32, 1, 3]), 0, Some(at));
    let r: Result<Value, _> = from_reader(&mut rd);
    if let Ok(v) = r {
        // only possible if the value ends before the fault
        if to_vec(&v).map(|b| b.len()).unwrap_or(usize::MAX) > at {
            sim::violation("value-from-failed-stream", format!("the stream failed at offset {}, yet from_reader returned {:?}", at, v));
        }
    }
}

const ALPHABET: [u8; 16] = [0x00, 0x01, 0x02, 0x40, 0x41, 0x45, 0x53, 0x70, 0x80, 0xa0, 0xa1, 0xc0, 0xd0, 0xe0, 0xf0, 0xff];

/// Enumerated: all byte strings of length <= 2 and a grid of length-3 strings (the case is the first byte)
pub async fn run_c04_short_strings() {
    let c = sim::case();
    sim::set_config(format!("variant=short-strings first-byte={}", c));
    sim::evh(0xC04, c, 0);
    sim::mark_nontrivial();
    if c == 256 {
        decode_all(&[], true);
        return;
    }
    // the frame decoders get the frame without its size field: data offset, type, channel, then
    // extended header and body. Every data offset `c`, every frame type that matters, and every
    // length of what follows from 0 to 40 bytes (so that the data offset points before, at and
    // beyond the end of the frame), with a body of zeros and with a small valid performative
    {
        let doff = c as u8;
        let close: [u8; 4] = [0x00, 0x53, 0x18, 0x45]; // close, empty list
        for ftype in [0u8, 1, 2, 0xff] {
            for extra in 0..=40usize {
                for tail in 0..2 {
                    let mut f = BytesMut::from(&[doff, ftype, 0, 0][..]);
                    f.extend_from_slice(&vec![0u8; extra]);
                    if tail == 1 {
                        f.extend_from_slice(&close);
                    }
                    let n = f.len();
                    let mut g = f.clone();
                    let _ = measure(n, "amqp::FrameDecoder (header sweep)", || FrameDecoder {}.decode(&mut f));
                    let _ = measure(n, "sasl::FrameCodec (header sweep)", || FrameCodec {}.decode(&mut g));
                }
            }
        }
        sim::probe("frame-header-sweep-done");
    }
    let first = c as u8;
    decode_all(&[first], true);
    for b in 0..=255u8 {
        decode_all(&[first, b], true);
    }
    for b in ALPHABET {
        for d in ALPHABET {
            decode_all(&[first, b, d], true);
        }
    }
    sim::probe("short-strings-block-done");
}

// ---------------------------------------------------------------------------------------
// C20

/// A valid encoding followed by arbitrary trailing bytes, through both readers, in chunks of every size
thread_local! {
    static ARRAYS_ONLY: std::cell::Cell<bool> = std::cell::Cell::new(false);
}

/// The same comparison for arrays of every element type, one type per run; the chunk size is
/// seeded instead of enumerated
pub async fn run_c20_arrays() {
    ARRAYS_ONLY.with(|f| f.set(true));
    run_c20_trailing().await;
    ARRAYS_ONLY.with(|f| f.set(false));
}

pub async fn run_c20_trailing() {
    let arrays_only = ARRAYS_ONLY.with(|f| f.get());
    let kind = if arrays_only { Kind::TypedArray } else { pick(&[Kind::AnyValue, Kind::AnyValue, Kind::PerformativeBody, Kind::SaslBody, Kind::OutcomeForms, Kind::OutcomeForms]) };
    let enc = gen_encoding(kind);
    let trailing: Vec<u8> = (0..choice(40)).map(|_| choice(256) as u8).collect();
    let mut bytes = enc.clone();
    bytes.extend_from_slice(&trailing);
    // the run's case is the chunk size of the stream (0 = seeded per read)
    let case = if arrays_only { pick(&[0u32, 0, 1, 2, 3, 7, 8, 16, 17, 64]) } else { sim::case() as u32 };
    let chunk = if case == 0 { u32::MAX } else { case };
    sim::set_config(format!("variant=trailing kind={:?} value-len={} trailing={} chunk={} value={}", kind, enc.len(), trailing.len(), chunk, refcodec::hex(&enc[..enc.len().min(64)])));
    sim::evh_bytes(0xC20, &bytes);
    sim::mark_nontrivial();
    // slice reader: value and what is left
    let a: Result<Value, _> = from_slice(&bytes);
    let a = match a {
        Ok(v) => v,
        Err(_) => {
            // that a valid encoding is accepted is C05's business; both readers must agree on the refusal
            let mut rd = SimRead::new(bytes.clone(), chunk, 0, None);
            if let Ok(v) = from_reader::<Value>(&mut rd) {
                sim::violation("readers-disagree", format!("slice reader rejects {}, stream reader (chunk {}) gives {:?}", refcodec::hex(&enc[..enc.len().min(64)]), chunk, v));
            }
            sim::probe("valid-encoding-rejected");
            return;
        }
    };
    // stream reader, chunked, optionally interrupted
    let mut rd = SimRead::new(bytes.clone(), chunk, 0, None);
    let b: Result<Value, _> = from_reader(&mut rd);
    match b {
        Ok(v) => {
            if v != a {
                sim::violation("readers-disagree", format!("slice reader gives {:?}, stream reader (chunk {}) gives {:?}", a, chunk, v));
                return;
            }
        }
        Err(e) => {
            sim::violation("readers-disagree", format!("slice reader gives {:?}, stream reader (chunk {}) fails: {:?}", a, chunk, e));
            return;
        }
    }
    // the stream reader took exactly the value's bytes from the stream: what follows is untouched
    if rd.pos != enc.len() {
        sim::violation(
            "trailing-bytes-consumed",
            format!("the value is {} bytes long; the stream reader (chunk {}) took {} bytes from the stream ({} trailing bytes followed)", enc.len(), chunk, rd.pos, trailing.len()),
        );
        return;
    }
    // the same through the typed decoders and the lazy value: result and stream position
    {
        use fe2o3_amqp_types::messaging::{DeliveryState, Outcome};
        macro_rules! typed {
            ($t:ty, $name:expr) => {{
                let x: Result<$t, _> = from_slice(&bytes);
                let mut rd = SimRead::new(bytes.clone(), chunk, 0, None);
                let y: Result<$t, _> = from_reader(&mut rd);
                match (x, y) {
                    (Ok(x), Ok(y)) => {
                        if x != y {
                            sim::violation("readers-disagree", format!("{}: slice reader gives {:?}, stream reader (chunk {}) gives {:?}", $name, x, chunk, y));
                            return;
                        }
                        if rd.pos != enc.len() {
                            sim::violation(
                                "trailing-bytes-consumed",
                                format!("{}: the value is {} bytes long; the stream reader (chunk {}) took {} bytes from the stream ({} trailing bytes followed)", $name, enc.len(), chunk, rd.pos, trailing.len()),
                            );
                            return;
                        }
                        sim::probe("typed-stream-position-checked");
                    }
                    (Ok(x), Err(e)) => {
                        sim::violation("readers-disagree", format!("{}: slice reader gives {:?}, stream reader (chunk {}) fails: {:?}", $name, x, chunk, e));
                        return;
                    }
                    (Err(e), Ok(y)) => {
                        sim::violation("readers-disagree", format!("{}: slice reader fails with {:?}, stream reader (chunk {}) gives {:?}", $name, e, chunk, y));
                        return;
                    }
                    (Err(_), Err(_)) => {}
                }
            }};
        }
        // the lazy value through the serde entry points (its own from_reader follows below)
        typed!(LazyValue, "LazyValue (serde entry points)");
        if sim::has_violation() {
            return;
        }
        match kind {
            Kind::PerformativeBody => typed!(Performative, "Performative"),
            Kind::OutcomeForms => {
                typed!(DeliveryState, "DeliveryState");
                typed!(Outcome, "Outcome");
            }
            _ => {}
        }
        if sim::has_violation() {
            return;
        }
        // the lazy value copies exactly the bytes of the value, from either reader
        let mut sr = serde_amqp::read::SliceReader::new(&bytes);
        let lz_a = LazyValue::from_reader(&mut sr);
        let mut rd = SimRead::new(bytes.clone(), chunk, 0, None);
        let lz_b = {
            let mut r = serde_amqp::read::IoReader::new(&mut rd);
            LazyValue::from_reader(&mut r)
        };
        match (lz_a, lz_b) {
            (Ok(x), Ok(y)) => {
                if x.as_slice() != &enc[..] || y.as_slice() != &enc[..] {
                    sim::violation("lazy-value-bytes", format!("the value is {}; LazyValue holds {} (slice) and {} (stream)", refcodec::hex(&enc[..enc.len().min(48)]), refcodec::hex(x.as_slice()), refcodec::hex(y.as_slice())));
                    return;
                }
                if rd.pos != enc.len() {
                    sim::violation("trailing-bytes-consumed", format!("LazyValue: the value is {} bytes long; the stream reader (chunk {}) took {} bytes from the stream", enc.len(), chunk, rd.pos));
                    return;
                }
                sim::probe("lazy-value-stream-position-checked");
            }
            (Ok(_), Err(e)) | (Err(e), Ok(_)) => {
                sim::violation("readers-disagree", format!("LazyValue of {}: one reader fails ({:?}), the other does not", refcodec::hex(&enc[..enc.len().min(48)]), e));
                return;
            }
            (Err(_), Err(_)) => {}
        }
    }
    // the size calculator agrees with the encoder, the value tree with the bytes
    let re = to_vec(&a).unwrap_or_default();
    match serde_amqp::serialized_size(&a) {
        Ok(n) if n == re.len() => {}
        other => {
            sim::violation("serialized-size", format!("serialized_size gives {:?}, the encoding of {:?} is {} bytes", other, a, re.len()));
            return;
        }
    }
    match serde_amqp::to_value(&a) {
        Ok(t) if t == a => {}
        other => {
            sim::violation("value-tree", format!("to_value({:?}) gives {:?}", a, other));
            return;
        }
    }
    // the frame decoder finds the payload after a transfer performative
    if kind == Kind::PerformativeBody {
        if let Ok(Performative::Transfer(_)) = from_slice::<Performative>(&enc) {
            let mut f = BytesMut::from(&[2u8, 0, 0, 0][..]);
            f.extend_from_slice(&bytes);
            match (FrameDecoder {}).decode(&mut f) {
                Ok(Some(fr)) => {
                    if let fe2o3_amqp::frames::amqp::FrameBody::Transfer { payload, .. } = fr.body {
                        if payload[..] != trailing[..] {
                            sim::violation("payload-after-performative", format!("the transfer's payload is {} bytes, the frame decoder returned {}", trailing.len(), payload.len()));
                            return;
                        }
                        sim::probe("payload-after-performative-checked");
                    }
                }
                other => {
                    sim::violation("payload-after-performative", format!("the frame decoder failed on a valid transfer frame: {:?}", other.map(|_| ())));
                    return;
                }
            }
        }
    }
    sim::probe("trailing-bytes-left-in-place");
}

/// Typed values: size calculator vs encoder, value tree vs bytes
pub async fn run_c20_typed() {
    sim::mark_nontrivial();
    let enc = gen_encoding(Kind::PerformativeBody);
    sim::set_config(format!("variant=typed head={}", refcodec::hex(&enc[..enc.len().min(48)])));
    sim::evh_bytes(0xC20, &enc);
    let p: Performative = match from_slice(&enc) {
        Ok(p) => p,
        Err(e) => {
            sim::violation("valid-encoding-rejected", format!("performative {} rejected: {:?}", refcodec::hex(&enc[..enc.len().min(64)]), e));
            return;
        }
    };
    let bytes = match to_vec(&p) {
        Ok(b) => b,
        Err(e) => {
            sim::violation("encode-failed", format!("{:?}: {:?}", p, e));
            return;
        }
    };
    match serde_amqp::serialized_size(&p) {
        Ok(n) if n == bytes.len() => {}
        other => {
            sim::violation("serialized-size", format!("serialized_size gives {:?}, the encoding of {:?} is {} bytes", other, p, bytes.len()));
            return;
        }
    }
    // through the value tree and back == through bytes and back
    let via_bytes: Performative = match from_slice(&bytes) {
        Ok(x) => x,
        Err(e) => {
            sim::violation("decode-failed", format!("own encoding of {:?} rejected: {:?}", p, e));
            return;
        }
    };
    let tree = match serde_amqp::to_value(&p) {
        Ok(t) => t,
        Err(e) => {
            sim::violation("value-tree", format!("to_value({:?}) failed: {:?}", p, e));
            return;
        }
    };
    match serde_amqp::from_value::<Performative>(tree.clone()) {
        Ok(via_tree) => {
            if via_tree != via_bytes {
                sim::violation("value-tree", format!("{:?}: via the value tree {:?}, via bytes {:?}", p, via_tree, via_bytes));
                return;
            }
        }
        Err(e) => {
            // recorded finding: the value-tree deserializer has no case for described composites
            sim::violation_sig("value-tree", "from-value-of-described-composite", format!("from_value(to_value({:?})) failed: {:?}", p, e));
            return;
        }
    }
    // and the tree is what the bytes decode to as an untyped value
    match from_slice::<Value>(&bytes) {
        Ok(v) if v == tree => sim::probe("typed-agreement-checked"),
        other => sim::violation("value-tree", format!("to_value gives {:?}, the bytes decode to {:?}", tree, other)),
    }
}

/// Plain (non-described) typed values: value tree vs bytes, size calculator vs encoder
pub async fn run_c20_plain_typed() {
    use std::collections::BTreeMap;
    sim::mark_nontrivial();
    type T = (u8, i64, String, Vec<Option<u32>>, BTreeMap<String, u16>, Option<bool>, (i8, u64));
    let n = choice(5);
    let t: T = (
        choice(256) as u8,
        pick(&[0i64, -1, 127, 128, i64::MIN, i64::MAX]),
        pick(&["", "x", "héllo"]).repeat(pick(&[1usize, 90, 300])),
        (0..n).map(|i| if i % 2 == 0 { Some(pick(&[0u32, 255, 256, u32::MAX])) } else { None }).collect(),
        (0..choice(4)).map(|i| (format!("k{}", i), (i * 1000) as u16)).collect(),
        pick(&[None, Some(true), Some(false)]),
        (choice(256) as u8 as i8, pick(&[0u64, 255, 256, u64::MAX])),
    );
    sim::set_config(format!("variant=plain-typed value={:?}", t).chars().take(300).collect());
    let bytes = match to_vec(&t) {
        Ok(b) => b,
        Err(e) => {
            sim::violation("encode-failed", format!("{:?}: {:?}", t, e));
            return;
        }
    };
    sim::evh_bytes(0xC20, &bytes);
    match serde_amqp::serialized_size(&t) {
        Ok(n) if n == bytes.len() => {}
        other => {
            sim::violation("serialized-size", format!("serialized_size gives {:?}, the encoding of {:?} is {} bytes", other, t, bytes.len()));
            return;
        }
    }
    let via_bytes: T = match from_slice(&bytes) {
        Ok(x) => x,
        Err(e) => {
            sim::violation("decode-failed", format!("own encoding of {:?} rejected: {:?}", t, e));
            return;
        }
    };
    if via_bytes != t {
        sim::violation("round-trip", format!("{:?} came back from bytes as {:?}", t, via_bytes));
        return;
    }
    let mut rd = reader_for(&bytes);
    match from_reader::<T>(&mut rd) {
        Ok(x) if x == t => {}
        Ok(x) => {
            sim::violation("readers-disagree", format!("{:?} came back from the stream as {:?}", t, x));
            return;
        }
        Err(e) => {
            if rd.interrupts == 0 {
                sim::violation("readers-disagree", format!("{:?} from the stream: {:?}", t, e));
                return;
            }
        }
    }
    let tree = match serde_amqp::to_value(&t) {
        Ok(v) => v,
        Err(e) => {
            sim::violation("value-tree", format!("to_value({:?}) failed: {:?}", t, e));
            return;
        }
    };
    match from_slice::<Value>(&bytes) {
        Ok(v) if v == tree => {}
        other => {
            sim::violation("value-tree", format!("to_value gives {:?}, the bytes decode to {:?}", tree, other));
            return;
        }
    }
    match serde_amqp::from_value::<T>(tree) {
        Ok(x) if x == t => sim::probe("plain-typed-agreement-checked"),
        other => sim::violation("value-tree", format!("from_value(to_value({:?})) gives {:?}", t, other)),
    }
}

/// One generated value per run (no chunk enumeration): size calculator vs encoder and value tree vs
/// bytes, for untyped values with arrays of variable-width elements and for typed arrays
/// DESIGN section 5.2: the value-tree deserializer does not speak the protocol by which `Value`'s
/// own Deserialize tells the AMQP types apart that share a serde data-model type, and has no case
/// for compound values under `deserialize_any`'s enum route. The signature is attached when the
/// value at hand is (or is made of) one of those; a value of the other types must come back equal.
fn value_tree_sig(v: &Value) -> &'static str {
    match v {
        Value::Decimal32(_) | Value::Decimal64(_) | Value::Decimal128(_) | Value::Timestamp(_) | Value::Uuid(_) | Value::Symbol(_) | Value::List(_) | Value::Array(_) | Value::Map(_) | Value::Described(_) => {
            "from-value-of-untyped-value"
        }
        _ => "",
    }
}

pub async fn run_c20_sizes() {
    use serde_amqp::primitives::{Array, Symbol};
    sim::mark_nontrivial();
    // an untyped value from the independent encoder
    let enc = gen_encoding(Kind::AnyValue);
    sim::set_config(format!("variant=sizes value={}", refcodec::hex(&enc[..enc.len().min(64)])));
    sim::evh_bytes(0xC20, &enc);
    if let Ok(v) = from_slice::<Value>(&enc) {
        let bytes = to_vec(&v).unwrap_or_default();
        match serde_amqp::serialized_size(&v) {
            Ok(n) if n == bytes.len() => {}
            other => {
                sim::violation("serialized-size", format!("serialized_size gives {:?}, the encoding of {:?} is {} bytes", other, v, bytes.len()));
                return;
            }
        }
        match serde_amqp::to_value(&v) {
            Ok(t) if t == v => {}
            other => {
                sim::violation("value-tree", format!("to_value({:?}) gives {:?}", v, other));
                return;
            }
        }
        // ... and back out of the tree
        match serde_amqp::from_value::<Value>(v.clone()) {
            Ok(t) if t == v => {}
            other => {
                sim::violation_sig("value-tree-back", value_tree_sig(&v), format!("from_value::<Value>({:?}) gives {:?}", v, other));
                return;
            }
        }
    }
    // typed arrays of variable-width elements, alone and inside a composite
    let n = pick(&[0usize, 1, 2, 3, 5, 40]);
    let unit = pick(&["x", "x", "é", "✓"]);
    let strs: Vec<String> = (0..n).map(|i| unit.repeat(pick(&[0usize, 1, 2, 7, 30, 300]) + i % 2)).collect();
    let syms: Array<Symbol> = Array::from(strs.iter().map(|s| Symbol::from(s.as_str())).collect::<Vec<_>>());
    let arr: Array<String> = Array::from(strs.clone());
    let bins: Array<serde_amqp::primitives::Binary> = Array::from(strs.iter().map(|s| serde_amqp::primitives::Binary::from(s.as_bytes().to_vec())).collect::<Vec<_>>());
    let lists: Array<Vec<u32>> = Array::from((0..n).map(|i| (0..(i % 4) as u32).collect::<Vec<u32>>()).collect::<Vec<_>>());
    let open = fe2o3_amqp_types::performatives::Open {
        container_id: "c".into(),
        hostname: None,
        max_frame_size: Default::default(),
        channel_max: Default::default(),
        idle_time_out: None,
        outgoing_locales: None,
        incoming_locales: None,
        offered_capabilities: if n == 0 { None } else { Some(syms.clone()) },
        desired_capabilities: if n % 2 == 0 { None } else { Some(syms.clone()) },
        properties: None,
    };
    macro_rules! sized {
        ($v:expr, $name:expr) => {{
            let bytes = match to_vec(&$v) {
                Ok(b) => b,
                Err(e) => {
                    sim::violation("encode-failed", format!("{}: {:?}", $name, e));
                    return;
                }
            };
            match serde_amqp::serialized_size(&$v) {
                Ok(k) if k == bytes.len() => {}
                other => {
                    sim::violation("serialized-size", format!("{}: serialized_size gives {:?}, the encoding of {:?} is {} bytes", $name, other, $v, bytes.len()));
                    return;
                }
            }
        }};
    }
    sized!(syms, "Array<Symbol>");
    sized!(arr, "Array<String>");
    // ... and the typed array comes back from its own encoding
    match to_vec(&arr).map_err(|e| format!("{:?}", e)).and_then(|b| from_slice::<Array<String>>(&b).map_err(|e| format!("{:?}", e))) {
        Ok(back) if back == arr => {}
        other => {
            sim::violation("round-trip", format!("Array<String> {:?} came back from its own encoding as {:?}", arr, other));
            return;
        }
    }
    sized!(bins, "Array<Binary>");
    sized!(lists, "Array<Vec<u32>>");
    sized!(open, "Open with capability arrays");
    // the 8-bit / 32-bit boundary of every variable-width and compound encoding: a body whose
    // length sweeps across 255 (the size field of the compound forms counts the count field too,
    // so each form has its own boundary), alone and nested
    {
        use std::collections::BTreeMap;
        let l = 235 + choice(40) as usize; // 235..=274
        let s = "s".repeat(l);
        let b = serde_amqp::primitives::Binary::from(vec![7u8; l]);
        let sym = Symbol::from(s.as_str());
        sized!(s, "String at the width boundary");
        sized!(b, "Binary at the width boundary");
        sized!(sym, "Symbol at the width boundary");
        let mut m: BTreeMap<String, String> = BTreeMap::new();
        m.insert("k".into(), s.clone());
        sized!(m, "Map<String,String> at the width boundary");
        let mut m2: BTreeMap<String, serde_amqp::primitives::Binary> = BTreeMap::new();
        m2.insert("k".into(), b.clone());
        m2.insert("l".into(), serde_amqp::primitives::Binary::from(vec![1u8; choice(4) as usize]));
        sized!(m2, "Map<String,Binary> at the width boundary");
        let lst: Vec<String> = vec![s.clone()];
        sized!(lst, "Vec<String> at the width boundary");
        let bytes_list: Vec<u8> = vec![200u8; l / 2 + choice(12) as usize];
        sized!(bytes_list, "Vec<u8> at the width boundary");
        let arr8: Array<u8> = Array::from(vec![9u8; l]);
        sized!(arr8, "Array<u8> at the width boundary");
        let nested = vec![m.clone()];
        sized!(nested, "Vec<Map> at the width boundary");
        let tup = (1u8, m.clone(), lst.clone());
        sized!(tup, "tuple holding a map and a list at the width boundary");
        // and each of them comes back from its own encoding
        match to_vec(&m).map_err(|e| format!("{:?}", e)).and_then(|x| from_slice::<BTreeMap<String, String>>(&x).map_err(|e| format!("{:?}", e))) {
            Ok(back) if back == m => {}
            other => {
                sim::violation("round-trip", format!("a map with a {}-byte value came back from its own encoding as {:?}", l, other.map(|m| m.len())));
                return;
            }
        }
        sim::probe("width-boundary-checked");
    }
    sim::probe("sizes-checked");
}

// ---------------------------------------------------------------------------------------
// C04, typed: "decoding it as any public type returns either a value or an error". The decoder
// keeps a little state between the values of one input (which AMQP-only type the next value is
// announced as); two typed values decoded one after the other from a valid encoding of a list
// must both come out as they do alone, whatever the first one was.

pub async fn run_c04_typed_pairs() {
    use serde_amqp::primitives::{Array, Binary, Dec128, Dec32, Dec64, Symbol, SymbolRef, Timestamp, Uuid};
    sim::mark_nontrivial();
    let firsts: Vec<(&str, V)> = vec![
        ("Symbol", V::Sym("sym-a".into())),
        ("SymbolRef", V::Sym("sym-b".into())),
        ("LazyValue", V::List(vec![V::Uint(7), V::Str("lazy".into())])),
        ("Uuid", V::Uuid([3; 16])),
        ("Timestamp", V::Timestamp(1_600_000_000_123)),
        ("Dec32", V::Dec32([1; 4])),
        ("Dec64", V::Dec64([2; 8])),
        ("Dec128", V::Dec128([4; 16])),
        ("Array<u32>", V::Array(vec![V::Uint(70_000), V::Uint(1)])),
        ("String", V::Str("first".into())),
        ("Binary", V::Bin(vec![9, 8, 7])),
        ("u32", V::Uint(300)),
    ];
    let seconds: Vec<(&str, V)> = vec![
        ("Binary", V::Bin(vec![1, 2, 3, 4])),
        ("String", V::Str("second".into())),
        ("Symbol", V::Sym("sym-c".into())),
        ("i64", V::Long(-5_000_000_000)),
        ("Timestamp", V::Timestamp(42)),
        ("Uuid", V::Uuid([5; 16])),
        ("Vec<u32>", V::List(vec![V::Uint(1), V::Uint(70_000)])),
        ("Array<u32>", V::Array(vec![V::Uint(2), V::Uint(70_001)])),
        ("LazyValue", V::Map(vec![(V::Str("k".into()), V::Uint(1))])),
    ];
    let fi = choice(firsts.len() as u32) as usize;
    let si = choice(seconds.len() as u32) as usize;
    let (fname, fv) = firsts[fi].clone();
    let (sname, sv) = seconds[si].clone();
    let wide = choice(3) == 0;
    let bytes = refcodec::encode_with(&V::List(vec![fv.clone(), sv.clone()]), refcodec::EncOpts { wide });
    let chunk = pick(&[u32::MAX, 1, 2, 3, 7, 64]);
    sim::set_config(format!("variant=typed-pairs first={} second={} wide={} chunk={} bytes={}", fname, sname, wide, chunk, refcodec::hex(&bytes[..bytes.len().min(64)])));
    sim::evh_bytes(0xC04, &bytes);
    let e1 = refcodec::encode_with(&fv, refcodec::EncOpts { wide });
    let e2 = refcodec::encode_with(&sv, refcodec::EncOpts { wide });
    macro_rules! second {
        ($A:ty, $B:ty) => {{
            let alone_a: Result<$A, _> = from_slice(&e1);
            let alone_b: Result<$B, _> = from_slice(&e2);
            let pair: Result<($A, $B), _> = from_slice(&bytes);
            let mut rd = SimRead::new(bytes.clone(), chunk, 0, None);
            let pair_stream: Result<($A, $B), _> = from_reader(&mut rd);
            match (alone_a, alone_b) {
                (Ok(a), Ok(b)) => {
                    for (how, p) in [("slice", pair), ("stream", pair_stream)] {
                        match p {
                            Ok((x, y)) if format!("{:?}", x) == format!("{:?}", a) && format!("{:?}", y) == format!("{:?}", b) => {}
                            other => {
                                sim::violation(
                                    "typed-pair",
                                    format!("({}, {}) from the {} reader: the values decode alone as {:?} and {:?}; one after the other they give {:?}", fname, sname, how, a, b, other.map(|(x, y)| format!("({:?}, {:?})", x, y))),
                                );
                                return;
                            }
                        }
                    }
                    sim::probe("typed-pair-decoded");
                }
                _ => sim::probe("valid-encoding-rejected"),
            }
        }};
    }
    macro_rules! second_slice {
        ($A:ty, $B:ty) => {{
            let alone_a: Result<$A, _> = from_slice(&e1);
            let alone_b: Result<$B, _> = from_slice(&e2);
            let pair: Result<($A, $B), _> = from_slice(&bytes);
            match (alone_a, alone_b) {
                (Ok(a), Ok(b)) => {
                    for (how, p) in [("slice", pair)] {
                        match p {
                            Ok((x, y)) if format!("{:?}", x) == format!("{:?}", a) && format!("{:?}", y) == format!("{:?}", b) => {}
                            other => {
                                sim::violation(
                                    "typed-pair",
                                    format!("({}, {}) from the {} reader: the values decode alone as {:?} and {:?}; one after the other they give {:?}", fname, sname, how, a, b, other.map(|(x, y)| format!("({:?}, {:?})", x, y))),
                                );
                                return;
                            }
                        }
                    }
                    sim::probe("typed-pair-decoded");
                }
                _ => sim::probe("valid-encoding-rejected"),
            }
        }};
    }
    macro_rules! first {
        ($A:ty) => {
            match si {
                0 => second!($A, Binary),
                1 => second!($A, String),
                2 => second!($A, Symbol),
                3 => second!($A, i64),
                4 => second!($A, Timestamp),
                5 => second!($A, Uuid),
                6 => second!($A, Vec<u32>),
                7 => second!($A, Array<u32>),
                _ => second!($A, LazyValue),
            }
        };
    }
    macro_rules! first_slice {
        ($A:ty) => {
            match si {
                0 => second_slice!($A, Binary),
                1 => second_slice!($A, String),
                2 => second_slice!($A, Symbol),
                3 => second_slice!($A, i64),
                4 => second_slice!($A, Timestamp),
                5 => second_slice!($A, Uuid),
                6 => second_slice!($A, Vec<u32>),
                7 => second_slice!($A, Array<u32>),
                _ => second_slice!($A, LazyValue),
            }
        };
    }
    match fi {
        0 => first!(Symbol),
        // (a borrowed symbol cannot come out of a stream)
        1 => first_slice!(SymbolRef<'_>),
        2 => first!(LazyValue),
        3 => first!(Uuid),
        4 => first!(Timestamp),
        5 => first!(Dec32),
        6 => first!(Dec64),
        7 => first!(Dec128),
        8 => first!(Array<u32>),
        9 => first!(String),
        10 => first!(Binary),
        _ => first!(u32),
    }
}
