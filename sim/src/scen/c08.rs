//! C08 — sender link credit: a real `Sender` against a scripted receiver peer that
//! produces arbitrary flow histories. The multi-thread lost-wake-up window between
//! the failed credit check and the start of the wait is explored through schedule
//! point H2 (`sender.consume.after_failed_check`).

use std::cell::RefCell;
use std::rc::Rc;

use fe2o3_amqp::acceptor::{LinkAcceptor, LinkEndpoint, SessionAcceptor};
use fe2o3_amqp::types::definitions::SenderSettleMode;
use fe2o3_amqp::{Sender, Session};

use crate::chooser::{choice, pick};
use crate::msgs::{self, Msg};
use crate::peer::{self, AttachArgs, Peer, PeerSession};
use crate::refcodec::V;
use crate::sim;
use crate::wire::{self, Models};
use crate::world::{self, EndpointCfg};

struct St {
    ps: PeerSession,
    /// handle the endpoint uses for the link
    ep_handle: u32,
    peer_handle: u32,
    initial_dc: u32,
    completed: u32,
    open_delivery: bool,
    /// last grant the peer made: (delivery-count it stated or assumed, credit)
    limit: u32,
    ep_flows: Vec<V>,
    unsettled_mode: bool,
    to_settle: Vec<u32>,
    detached: bool,
    /// transfer frames received when the peer last stated its session window
    win_mark: u64,
}

fn absorb_frame(st: &mut St, f: &wire::WFrame) {
    let p = match &f.perf {
        Some(p) => p,
        None => return,
    };
    match f.code {
        wire::TRANSFER => {
            st.ps.on_transfer_received();
            if p.field(0).as_u32() == Some(st.ep_handle) {
                let more = p.field(5).as_bool().unwrap_or(false);
                if !st.open_delivery {
                    if let Some(id) = p.field(1).as_u32() {
                        if !p.field(4).as_bool().unwrap_or(false) {
                            st.to_settle.push(id);
                        }
                    }
                }
                st.open_delivery = more;
                if !more {
                    st.completed += 1;
                }
            }
        }
        wire::FLOW => {
            if p.field(4).as_u32() == Some(st.ep_handle) {
                st.ep_flows.push(p.clone());
            }
        }
        wire::DETACH => st.detached = true,
        _ => {}
    }
}

async fn absorb(peer: &mut Peer, st: &mut St, ms: u64) {
    for f in peer.drain_for(ms).await {
        absorb_frame(st, &f);
    }
    settle_pending(peer, st).await;
}

async fn settle_pending(peer: &mut Peer, st: &mut St) {
    if st.unsettled_mode {
        for id in std::mem::take(&mut st.to_settle) {
            peer.send(st.ps.channel, &peer::disposition(true, id, None, true, Some(peer::accepted()))).await;
        }
    } else {
        st.to_settle.clear();
    }
}

fn dc_rcv(st: &St) -> u32 {
    st.initial_dc.wrapping_add(st.completed)
}

async fn quiesce(peer: &mut Peer, st: &mut St, net: &crate::net::NetHandle, mon: &wire::MonitorRef, peer_dir: usize) -> bool {
    loop {
        let ok = peer::settle(peer, net, |f| absorb_frame(st, f)).await;
        if !ok {
            sim::violation("no-quiescence", "the endpoint kept producing traffic for the whole virtual deadline with a silent peer".into());
            return false;
        }
        if st.unsettled_mode && !st.to_settle.is_empty() {
            settle_pending(peer, st).await;
            continue;
        }
        break;
    }
    // with the peer's session window used up the endpoint may be holding transfers of deliveries
    // that its link sent under an earlier grant: nothing is superseded yet
    if st.ps.transfers_received - st.win_mark >= st.ps.incoming_window as u64 {
        sim::probe("quiescent-with-window-used-up");
        return true;
    }
    let mut m = mon.borrow_mut();
    m.sync();
    // every credit statement so far has been processed by the endpoint
    let last = m.ends[peer_dir]
        .sessions
        .last()
        .and_then(|s| s.links.iter().flat_map(|l| l.flows.iter()).map(|f| f.seq).max());
    if let Some(last) = last {
        m.credit_floor[peer_dir] = last + 1;
    }
    sim::probe("quiescence-floor");
    true
}

/// Every flow restates the peer's session window from where it stands
async fn send_flow(peer: &mut Peer, st: &mut St, f: &peer::FlowArgs) {
    st.win_mark = st.ps.transfers_received;
    peer.send(st.ps.channel, &peer::flow(f)).await;
}

/// Quiescence with nothing held back by the peer's session window: as long as the window is
/// used up the endpoint may be holding transfers, so it is opened again (a session-level flow,
/// which says nothing about link credit) until a quiescent moment finds room left in it
async fn quiesce_unheld(peer: &mut Peer, st: &mut St, net: &crate::net::NetHandle, mon: &wire::MonitorRef, peer_dir: usize) -> bool {
    loop {
        if !quiesce(peer, st, net, mon, peer_dir).await {
            return false;
        }
        let used = st.ps.transfers_received - st.win_mark;
        if used < st.ps.incoming_window as u64 || st.detached {
            return true;
        }
        sim::probe("session-window-reopened");
        let f = st.ps.flow_args();
        send_flow(peer, st, &f).await;
    }
}

/// The peer's side of the conversation once the link is attached
async fn credit_script(
    peer: &mut Peer,
    st: &mut St,
    net: &crate::net::NetHandle,
    mon: &wire::MonitorRef,
    peer_dir: usize,
    total: u32,
    send_state: &Rc<RefCell<SendState>>,
) {
    let steps = 3 + choice(10);
    for _ in 0..steps {
        absorb(peer, st, pick(&[0u64, 1, 3, 20])).await;
        if sim::has_violation() || st.completed >= total {
            break;
        }
        match choice(8) {
            0..=3 => {
                // grant
                let c = pick(&[1u32, 1, 1, 2, 3, 5]);
                let mut f = st.ps.flow_args();
                f.handle = Some(st.peer_handle);
                let unset = choice(7) == 1 && st.completed == 0;
                f.delivery_count = if unset { None } else { Some(dc_rcv(st)) };
                f.link_credit = Some(c);
                if unset {
                    sim::probe("flow-with-unset-delivery-count");
                }
                if choice(6) == 1 {
                    f.echo = Some(true);
                }
                st.limit = dc_rcv(st).wrapping_add(c);
                send_flow(peer, st, &f).await;
                sim::probe("credit-granted");
            }
            4 => {
                // reduce to zero
                let mut f = st.ps.flow_args();
                f.handle = Some(st.peer_handle);
                f.delivery_count = Some(dc_rcv(st));
                f.link_credit = Some(0);
                st.limit = dc_rcv(st);
                send_flow(peer, st, &f).await;
                sim::probe("credit-reduced-to-zero");
            }
            5 => {
                // drain: grant c and ask the sender to use it up or give it back
                let c = pick(&[1u32, 2, 4, 9]);
                let mut f = st.ps.flow_args();
                f.handle = Some(st.peer_handle);
                f.delivery_count = Some(dc_rcv(st));
                f.link_credit = Some(c);
                f.drain = Some(true);
                let limit = dc_rcv(st).wrapping_add(c);
                st.limit = limit;
                let before = st.ep_flows.len();
                send_flow(peer, st, &f).await;
                if !quiesce_unheld(peer, st, net, mon, peer_dir).await {
                    return;
                }
                if st.detached {
                    return;
                }
                // the sender must have told the receiver: zero credit, delivery-count at the limit
                match st.ep_flows[before..].last() {
                    None => {
                        sim::violation(
                            "drain-not-answered",
                            format!("drain request (credit {} at delivery-count {}) was not answered with a flow", c, dc_rcv(st).wrapping_sub(0)),
                        );
                        return;
                    }
                    Some(reply) => {
                        let credit = reply.field(6).as_u32();
                        let dc = reply.field(5).as_u32();
                        // deliveries that were already in flight when the peer asked may have
                        // taken the sender beyond the limit the (stale) request stated
                        let sent = dc_rcv(st);
                        let expect = if limit.wrapping_sub(sent) <= u32::MAX / 2 { limit } else { sent };
                        if credit != Some(0) || dc != Some(expect) {
                            sim::violation(
                                "drain-accounting",
                                format!(
                                    "after drain with limit {} (expected delivery-count {}) the sender reports delivery-count {:?} link-credit {:?} (received {} deliveries, initial {})",
                                    limit, expect, dc, credit, st.completed, st.initial_dc
                                ),
                            );
                            return;
                        }
                    }
                }
                // drained credit counts as used: the receiver's delivery-count moves to the limit
                let gave_back = limit.wrapping_sub(dc_rcv(st));
                if gave_back <= u32::MAX / 2 {
                    st.initial_dc = st.initial_dc.wrapping_add(gave_back);
                }
                sim::probe("drain-consumed");
                // drain off, zero credit
                let mut f = st.ps.flow_args();
                f.handle = Some(st.peer_handle);
                f.delivery_count = Some(dc_rcv(st));
                f.link_credit = Some(0);
                f.drain = Some(false);
                send_flow(peer, st, &f).await;
                if !quiesce_unheld(peer, st, net, mon, peer_dir).await {
                    return;
                }
            }
            6 => {
                if !quiesce_unheld(peer, st, net, mon, peer_dir).await {
                    return;
                }
            }
            _ => {
                // echo request without changing anything
                let mut f = st.ps.flow_args();
                f.handle = Some(st.peer_handle);
                f.delivery_count = Some(dc_rcv(st));
                f.link_credit = Some(st.limit.wrapping_sub(dc_rcv(st)).min(1 << 20));
                f.echo = Some(true);
                send_flow(peer, st, &f).await;
            }
        }
    }
    if sim::has_violation() || st.detached {
        return;
    }
    // final grant: enough for everything that is left, then silence
    absorb(peer, st, 1).await;
    let remaining = total.saturating_sub(st.completed);
    let mut f = st.ps.flow_args();
    f.handle = Some(st.peer_handle);
    f.delivery_count = Some(dc_rcv(st));
    // the credit is a plain uint: 2^31 and 2^32-1 ("send as much as you like") are grants like any other
    let final_credit = if choice(4) == 1 {
        sim::probe("credit-of-2^31-or-more-granted");
        pick(&[u32::MAX, 0x8000_0000u32, 0x8000_0001])
    } else {
        remaining + 2
    };
    f.link_credit = Some(final_credit);
    st.limit = dc_rcv(st).wrapping_add(final_credit);
    send_flow(peer, st, &f).await;
    let deadline = tokio::time::Instant::now() + sim::OP_DEADLINE;
    loop {
        if st.completed >= total && send_state.borrow().done {
            break;
        }
        if sim::has_violation() {
            return;
        }
        if tokio::time::Instant::now() >= deadline || peer.eof || peer.read_error.is_some() || st.detached {
            let ss = send_state.borrow();
            sim::violation(
                "blocked-send-not-woken",
                format!(
                    "{} virtual seconds after credit for all remaining deliveries was granted (peer silent since), {} of {} deliveries arrived and {} sends completed (error: {:?}; eof={} detached={})",
                    sim::OP_DEADLINE.as_secs(),
                    st.completed,
                    total,
                    ss.completed,
                    ss.error,
                    peer.eof,
                    st.detached
                ),
            );
            return;
        }
        // the peer stays silent as far as link credit goes; it only reads (and settles in unsettled
        // mode) and keeps its session window open
        absorb(peer, st, 200).await;
        if st.ps.transfers_received - st.win_mark >= st.ps.incoming_window as u64 {
            let f = st.ps.flow_args();
            send_flow(peer, st, &f).await;
        }
    }
}

#[derive(Default)]
pub struct SendState {
    pub completed: usize,
    pub done: bool,
    pub error: Option<String>,
}

fn spawn_sender(mut sender: Sender, msgs_v: Vec<Msg>, state: Rc<RefCell<SendState>>, batchable: bool) {
    sim::spawn("app-sender", async move {
        let mut futs = Vec::new();
        for (k, m) in msgs_v.into_iter().enumerate() {
            if batchable {
                match sender.send_batchable(m).await {
                    Ok(f) => futs.push(f),
                    Err(e) => {
                        state.borrow_mut().error = Some(format!("send_batchable #{}: {:?}", k, e));
                        return;
                    }
                }
            } else {
                match sender.send(m).await {
                    Ok(_) => {}
                    Err(e) => {
                        state.borrow_mut().error = Some(format!("send #{}: {:?}", k, e));
                        return;
                    }
                }
            }
            state.borrow_mut().completed = k + 1;
            if choice(3) == 1 {
                sim::yield_now().await;
            }
        }
        for f in futs {
            let _ = f.await;
        }
        state.borrow_mut().done = true;
        std::future::pending::<()>().await;
        drop(sender);
    });
}

fn gen_msgs(n: usize, mms: Option<u64>) -> Vec<Msg> {
    let mut uid = 3000u64;
    (0..n)
        .map(|_| {
            uid += 1;
            let _ = mms;
            msgs::gen_message(uid, 150, 2)
        })
        .collect()
}

fn check_payloads(mon: &wire::MonitorRef, dir: usize, name: &str, msgs_v: &[Msg]) {
    let mut m = mon.borrow_mut();
    m.sync();
    let dels = m.deliveries_on(dir, name);
    if dels.len() != msgs_v.len() {
        sim::violation(
            "delivery-count-mismatch",
            format!("{} deliveries on the wire for {} messages", dels.len(), msgs_v.len()),
        );
        return;
    }
    for (k, (d, msg)) in dels.iter().zip(msgs_v).enumerate() {
        if d.payload != msgs::encode(msg) {
            sim::violation("delivery-altered", format!("delivery #{} differs from message #{}", k, k));
            return;
        }
    }
}

/// Real client `Sender` against a scripted receiver
pub async fn run_client() {
    let initial_dc: u32 = match choice(6) {
        0 | 1 => 0,
        2 => 5,
        3 => 0x7fff_fffe,
        4 => u32::MAX - choice(12),
        _ => choice(1 << 20),
    };
    let n = 2 + choice(pick(&[4u32, 8, 16])) as usize;
    let mms = pick(&[None, None, Some(40u64), Some(100)]);
    let unsettled = choice(3) == 1;
    let batchable = unsettled && choice(2) == 1;
    let yield_den = pick(&[2u32, 2, 3, 0]);
    // a small session window at the peer: transfers are held back by the session and released
    // by the next flow, which may be the very flow that asks for a drain
    let peer_window = pick(&[5000u32, 5000, 5000, 1, 2, 4]);
    let mut ccfg = EndpointCfg::default_cfg();
    ccfg.sess_buffer = pick(&[2048usize, 2048, 4, 1]);
    let (nab, nba, nd) = world::draw_net(true);
    sim::set_sched_yield_den(yield_den);
    sim::set_config(format!(
        "side=client initial-delivery-count={} msgs={} mms={:?} unsettled={} batchable={} h2-yield=1/{} sbuf={} peer-session-window={} {}",
        initial_dc, n, mms, unsettled, batchable, yield_den, ccfg.sess_buffer, peer_window, nd
    ));
    sim::mark_nontrivial();
    let models = Models {
        credit: true,
        delivery: true,
        ..Models::none()
    };
    let cvp = match peer::client_vs_peer(&ccfg, peer::open("peer", Some(65536), Some(255), None), nab, nba, models).await {
        Some(x) => x,
        None => return,
    };
    let peer::ClientVsPeer { mut client, mut peer, net, mon, .. } = cvp;
    let mut ps = PeerSession::new(0, 100, peer_window, 5000);
    let begin_fut = sim::in_group(1, Session::builder().buffer_size(ccfg.sess_buffer).begin(&mut client));
    let peer_begin = async {
        let b = peer.expect(wire::BEGIN).await?;
        ps.on_remote_begin(b.perf.as_ref().unwrap(), b.channel);
        peer.send(ps.channel, &peer::begin(Some(b.channel), ps.next_outgoing_id, ps.incoming_window, ps.outgoing_window)).await;
        Some(())
    };
    let mut session = match sim::op("begin", world::join2(begin_fut, peer_begin)).await {
        Some((Ok(s), Some(()))) => s,
        Some((r, _)) => {
            sim::violation("begin-failed", format!("{:?}", r.map(|_| ())));
            return;
        }
        None => return,
    };
    let peer_handle = pick(&[0u32, 9, 4000]);
    let att = sim::in_group(
        1,
        Sender::builder()
            .name("snd")
            .target("q")
            .sender_settle_mode(if unsettled { SenderSettleMode::Unsettled } else { SenderSettleMode::Settled })
            .initial_delivery_count(initial_dc)
            .attach(&mut session),
    );
    let mut ep_handle = 0;
    let mut seen_initial = None;
    let peer_att = async {
        let a = peer.expect(wire::ATTACH).await?;
        let p = a.perf.clone().unwrap();
        ep_handle = p.field(1).as_u32().unwrap_or(0);
        seen_initial = p.field(9).as_u32();
        let mut args = AttachArgs::receiver("snd", peer_handle);
        args.snd_settle_mode = Some(if unsettled { 0 } else { 1 });
        args.max_message_size = mms;
        peer.send(ps.channel, &peer::attach(&args)).await;
        Some(())
    };
    let sender = match sim::op("attach sender", world::join2(att, peer_att)).await {
        Some((Ok(s), Some(()))) => s,
        Some((r, _)) => {
            sim::violation("attach-failed", format!("{:?}", r.map(|_| ())));
            return;
        }
        None => return,
    };
    if seen_initial != Some(initial_dc) {
        sim::violation(
            "initial-delivery-count",
            format!("attach carries initial-delivery-count {:?}, configured {}", seen_initial, initial_dc),
        );
        return;
    }
    let msgs_v = gen_msgs(n, mms);
    let send_state = Rc::new(RefCell::new(SendState::default()));
    spawn_sender(sender, msgs_v.clone(), send_state.clone(), batchable);
    let mut st = St {
        ps,
        ep_handle,
        peer_handle,
        initial_dc,
        completed: 0,
        open_delivery: false,
        limit: initial_dc,
        ep_flows: Vec::new(),
        unsettled_mode: unsettled,
        to_settle: Vec::new(),
        detached: false,
        win_mark: 0,
    };
    credit_script(&mut peer, &mut st, &net, &mon, 1, n as u32, &send_state).await;
    if sim::has_violation() {
        return;
    }
    check_payloads(&mon, 0, "snd", &msgs_v);
    let td = async {
        let _ = tokio::time::timeout(std::time::Duration::from_secs(20), session.end()).await;
        let _ = tokio::time::timeout(std::time::Duration::from_secs(20), client.close()).await;
    };
    let _ = world::join2(td, peer::serve_teardown(&mut peer, 30_000)).await;
}

/// Real listener-side `Sender` (obtained through `LinkAcceptor`) against a scripted
/// client that attaches a receiver link
thread_local! {
    static WINDOW_ONLY: std::cell::Cell<bool> = std::cell::Cell::new(false);
}

/// The same scenario as C07 uses it: what is under test there is the session window that the peer's
/// begin and its (also pipelined) flows state; drain and echo requests are C08's business
pub async fn run_listener_window() {
    WINDOW_ONLY.with(|f| f.set(true));
    run_listener().await;
    WINDOW_ONLY.with(|f| f.set(false));
}

pub async fn run_listener() {
    let n = 2 + choice(pick(&[4u32, 8, 16])) as usize;
    let unsettled = choice(3) == 1;
    let yield_den = pick(&[2u32, 2, 3, 0]);
    let lcfg = EndpointCfg::default_cfg();
    let (nab, nba, nd) = world::draw_net(true);
    sim::set_sched_yield_den(yield_den);
    // flows the peer pipelines behind its attach, before the application has accepted the link:
    // 0 none; 1 plain grants; 2 the last one asks for a drain; 3 the last one asks for an echo
    let window_only = WINDOW_ONLY.with(|f| f.get());
    let pipelined = if window_only { pick(&[0u32, 1, 1]) } else { pick(&[0u32, 0, 1, 1, 2, 3]) };
    let pipelined_credits: Vec<u32> = (0..1 + choice(3)).map(|_| pick(&[1u32, 3, 2, 5, 0])).collect();
    // the listener's sending links start counting where the application says
    let l_initial_dc: u32 = match choice(6) {
        0 | 1 => 0,
        2 => 1000,
        3 => 0x7fff_fffe,
        4 => u32::MAX - choice(12),
        _ => choice(1 << 20),
    };
    sim::set_config(format!(
        "side=listener msgs={} unsettled={} h2-yield=1/{} pipelined-flows={} credits={:?} initial-delivery-count={} {}",
        n, unsettled, yield_den, pipelined, pipelined_credits, l_initial_dc, nd
    ));
    sim::mark_nontrivial();
    let models = Models {
        credit: true,
        delivery: true,
        window: window_only,
        sess: window_only,
        ..Models::none()
    };
    let pvl = match peer::peer_vs_listener(&lcfg, peer::open("peer", Some(65536), Some(255), None), nab, nba, models).await {
        Some(x) => x,
        None => return,
    };
    let peer::ListenerVsPeer { mut listener, mut peer, net, mon, .. } = pvl;
    // the session window the peer states in its begin; a flow pipelined behind the attach (before
    // the link exists on the listener's side) restates it, and the session half of such a flow
    // counts at once whatever becomes of its link half
    let w0 = if window_only { pick(&[5000u32, 5000, 1, 2, 3]) } else { pick(&[5000u32, 5000, 1, 2]) };
    // (C07) the window the pipelined flows state instead
    let w1 = if window_only { pick(&[1u32, 2, 3, 5000]) } else { 5000 };
    let mut ps = PeerSession::new(pick(&[0u16, 5]), 100, w0, 5000);
    sim::append_config(&format!(" peer-session-window-at-begin={}", w0));
    let peer_handle = pick(&[0u32, 3, 777]);
    let acc = SessionAcceptor::new();
    let msgs_v = gen_msgs(n, None);
    let send_state = Rc::new(RefCell::new(SendState::default()));
    let ss2 = send_state.clone();
    let msgs2 = msgs_v.clone();
    let got_sender: world::Slot<Result<(), String>> = world::Slot::new();
    let got2 = got_sender.clone();
    let accept_gate: world::Slot<()> = world::Slot::new();
    let gate2 = accept_gate.clone();
    // listener application: accept the session and the link, then send
    sim::spawn(
        "listener-app",
        sim::in_group(2, async move {
            let mut sess = match acc.accept(&mut listener).await {
                Ok(s) => s,
                Err(e) => {
                    got2.put(Err(format!("session accept: {:?}", e)));
                    return;
                }
            };
            let la = if l_initial_dc == 0 && choice(2) == 0 { LinkAcceptor::new() } else { LinkAcceptor::builder().initial_delivery_count(l_initial_dc).build() };
            gate2.take().await;
            match la.accept(&mut sess).await {
                Ok(LinkEndpoint::Sender(s)) => {
                    got2.put(Ok(()));
                    spawn_sender(s, msgs2, ss2, false);
                }
                Ok(_) => got2.put(Err("expected a sender endpoint".into())),
                Err(e) => got2.put(Err(format!("link accept: {:?}", e))),
            }
            // keep session and connection handles alive
            let _ = sess.on_end().await;
            let _ = listener.on_close().await;
        }),
    );
    peer.send(ps.channel, &peer::begin(None, ps.next_outgoing_id, ps.incoming_window, ps.outgoing_window)).await;
    let b = match peer.expect(wire::BEGIN).await {
        Some(b) => b,
        None => {
            sim::violation("begin-failed", "listener did not answer begin".into());
            return;
        }
    };
    ps.on_remote_begin(b.perf.as_ref().unwrap(), b.channel);
    let mut args = AttachArgs::receiver("lsnd", peer_handle);
    args.snd_settle_mode = Some(if unsettled { 0 } else { 1 });
    peer.send(ps.channel, &peer::attach(&args)).await;
    let mut st = St {
        ps,
        ep_handle: 0,
        peer_handle,
        initial_dc: 0,
        completed: 0,
        open_delivery: false,
        limit: 0,
        ep_flows: Vec::new(),
        unsettled_mode: false,
        to_settle: Vec::new(),
        detached: false,
        win_mark: 0,
    };
    let mut last_credit = None;
    if pipelined > 0 && (window_only || choice(2) == 0) {
        st.ps.incoming_window = w1;
    }
    if pipelined > 0 {
        // the receiver does not know the sender's delivery-count yet: the field stays unset and the
        // sender has to take its own initial delivery-count for it
        let k = pipelined_credits.len();
        for (i, c) in pipelined_credits.iter().enumerate() {
            let mut f = st.ps.flow_args();
            f.handle = Some(peer_handle);
            f.delivery_count = None;
            f.link_credit = Some(*c);
            if i + 1 == k {
                match pipelined {
                    2 => f.drain = Some(true),
                    3 => f.echo = Some(true),
                    _ => {}
                }
            }
            send_flow(&mut peer, &mut st, &f).await;
            sim::fault("flow-pipelined-before-accept");
        }
        last_credit = pipelined_credits.last().copied();
        // the listener session has provably received all of them before the application accepts
        // the link: only the last one counts from here on
        if !quiesce(&mut peer, &mut st, &net, &mon, 0).await {
            return;
        }
        if window_only {
            // ... and only the window it states: the listener session has read it
            let mut m = mon.borrow_mut();
            m.sync();
            if let Some(last) = m.ends[0].sessions.last().and_then(|s| s.stmts.last()).map(|s| s.seq) {
                m.window_floor[0] = last + 1;
            }
            sim::probe("window-floor-before-accept");
        }
    }
    accept_gate.put(());
    let a = match peer.expect(wire::ATTACH).await {
        Some(a) => a,
        None => {
            sim::violation("attach-failed", "listener did not answer attach".into());
            return;
        }
    };
    let ap = a.perf.clone().unwrap();
    match sim::op("listener link accept", got_sender.take()).await {
        Some(Ok(())) => {}
        Some(Err(e)) => {
            sim::violation("attach-failed", e);
            return;
        }
        None => return,
    }
    st.ep_handle = ap.field(1).as_u32().unwrap_or(0);
    st.initial_dc = ap.field(9).as_u32().unwrap_or(0);
    if st.initial_dc != l_initial_dc {
        sim::violation("initial-delivery-count", format!("the listener's attach carries initial-delivery-count {:?}, configured {}", ap.field(9), l_initial_dc));
        return;
    }
    st.limit = st.initial_dc.wrapping_add(last_credit.unwrap_or(0));
    st.unsettled_mode = unsettled && ap.field(3).as_u32() != Some(1);
    for f in std::mem::take(&mut peer.skipped) {
        absorb_frame(&mut st, &f);
    }
    if pipelined >= 2 {
        // the request that came with the last pipelined flow is owed an answer once the link exists
        if !quiesce(&mut peer, &mut st, &net, &mon, 0).await {
            return;
        }
        let c = last_credit.unwrap_or(0);
        let limit = st.initial_dc.wrapping_add(c);
        match st.ep_flows.last() {
            None if pipelined == 3 => {
                // an unanswered echo request is not in the property's statement: counted only
                sim::probe("pipelined-echo-unanswered");
            }
            None => {
                // DESIGN section 5.2: the listener session applies flows that arrived before the link
                // was accepted when the link is registered, and throws the answer away
                sim::violation_sig(
                    "drain-not-answered",
                    "flow-pipelined-before-accept",
                    format!(
                        "the peer pipelined a flow (credit {}, drain=true) behind its attach; after the link was accepted the listener's sender wrote no flow ({} deliveries arrived)",
                        c, st.completed
                    ),
                );
                return;
            }
            Some(reply) if pipelined == 2 => {
                let credit = reply.field(6).as_u32();
                let dc = reply.field(5).as_u32();
                if credit != Some(0) || dc != Some(limit) {
                    sim::violation(
                        "drain-accounting",
                        format!("after a pipelined drain with limit {} the sender reports delivery-count {:?} link-credit {:?} ({} deliveries arrived)", limit, dc, credit, st.completed),
                    );
                    return;
                }
                let gave_back = limit.wrapping_sub(dc_rcv(&st));
                if gave_back <= u32::MAX / 2 {
                    st.initial_dc = st.initial_dc.wrapping_add(gave_back);
                }
                sim::probe("drain-consumed");
                let mut f = st.ps.flow_args();
                f.handle = Some(peer_handle);
                f.delivery_count = Some(dc_rcv(&st));
                f.link_credit = Some(0);
                f.drain = Some(false);
                st.limit = dc_rcv(&st);
                send_flow(&mut peer, &mut st, &f).await;
                if !quiesce(&mut peer, &mut st, &net, &mon, 0).await {
                    return;
                }
            }
            Some(_) => sim::probe("pipelined-echo-answered"),
        }
    }
    credit_script(&mut peer, &mut st, &net, &mon, 0, n as u32, &send_state).await;
    if sim::has_violation() {
        return;
    }
    check_payloads(&mon, 1, "lsnd", &msgs_v);
    peer.send(0, &peer::close(None)).await;
    let _ = peer.drain_for(2000).await;
}
