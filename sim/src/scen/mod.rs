pub mod c01;
