pub mod c01;
pub mod c07;
pub mod c08;
