pub mod c01;
pub mod c07;
