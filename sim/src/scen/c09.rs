//! C09 — receiver link credit: a real `Receiver` against a scripted sender peer.
//!
//! Oracles: (a) every flow the receiver writes reports the sender's delivery-count
//! as last learnt from the sender (attach or flow) plus the deliveries completed
//! since (feasible prefix while traffic flows, exact at quiescence) and a credit it
//! may grant; (b) a delivery beyond the issued credit is never returned by `recv`,
//! which fails with the transfer-limit error instead; (c) in automatic credit mode a
//! long stream from a credit-respecting sender completes within the deadline.

use std::cell::RefCell;
use std::rc::Rc;

use fe2o3_amqp::acceptor::{LinkAcceptor, LinkEndpoint, SessionAcceptor};
use fe2o3_amqp::link::receiver::CreditMode;
use fe2o3_amqp::link::delivery::DeliveryInfo;
use fe2o3_amqp::link::RecvError;
use fe2o3_amqp::types::definitions::ReceiverSettleMode;
use fe2o3_amqp::link::receiver::TerminalDeliveryState;
use fe2o3_amqp::types::messaging::{Accepted, Body, Modified};
use fe2o3_amqp::types::primitives::Value;
use fe2o3_amqp::{Receiver, Session};

use crate::chooser::{choice, pick};
use crate::msgs::{self, Msg};
use crate::peer::{self, AttachArgs, Peer, PeerSession, TransferArgs};
use crate::refcodec::V;
use crate::sim;
use crate::wire::{self, Models};
use crate::world::{self, EndpointCfg};

#[derive(Clone, Copy, Debug, PartialEq)]
enum Mode {
    /// Auto(n), application disposes of everything, sender respects credit: long stream
    Stream,
    /// sender goes beyond the credit that was issued
    Overrun,
    /// Manual credit with set_credit / drain
    Manual,
}

#[derive(Default)]
struct AppLog {
    /// None: a delivery whose payload did not decode (recv failed with MessageDecode and the
    /// application rejected it)
    received: Vec<Option<Msg>>,
    error: Option<String>,
    transfer_limit_error: bool,
    done: bool,
    credit_calls: Vec<u32>,
    drains: u32,
    /// deliveries the scripted sender has completely written
    peer_sent: u32,
    /// the scripted sender has written its answer to the drain request
    drain_answered: bool,
    /// the application stopped waiting for that answer
    drain_wait_given_up: bool,
    /// the application lowered the credit (at a quiescent moment) to less than the number of
    /// deliveries that had arrived within the earlier credit and that it had not read yet
    credit_cut_below_backlog: bool,
}

struct DcStmt {
    value: u32,
    completed_at: u32,
}

struct St {
    ps: PeerSession,
    ep_handle: u32,
    peer_handle: u32,
    /// sender's delivery-count
    dc_snd: u32,
    /// deliveries fully written by the peer
    completed: u32,
    stmts: Vec<DcStmt>,
    /// lower bound on how many of the peer's deliveries the receiver had seen at its last flow
    seen_lower: u32,
    /// latest (delivery-count, credit, drain) the receiver stated
    grant: Option<(u32, u32, bool)>,
    flows_seen: u32,
    max_credit_allowed: u32,
    dispositions: Vec<V>,
    detached: Option<V>,
    next_uid: u64,
    sent: Vec<Option<Msg>>,
    /// one in `bad_den` deliveries carries a payload that does not decode (0: none)
    bad_den: u32,
    rcv_second: bool,
    unsettled_ids: Vec<u32>,
    /// delivery-ids covered by the dispositions the receiver has written
    disposed: std::collections::BTreeSet<u32>,
    /// the sender wrote a flow carrying its delivery-count while deliveries it had sent
    /// earlier may still have been queued inside the receiving endpoint
    restated: bool,
    may_restate: bool,
    cap_before_drain: bool,
    log: Rc<RefCell<AppLog>>,
    /// the application is going to detach the link (non-closing) and resume it once
    expect_resume: bool,
    owe_detach: bool,
    owe_attach: bool,
    resumed: bool,
}

/// Signature of the known ordering defect (DESIGN section 5, S16): the session task applies
/// a sender's flow (delivery-count) at once, while transfers that preceded it on the wire are
/// still queued for the link; they are then counted on top of the restated value.
///
/// The precondition is observed, not assumed: at the moment the scripted sender writes such a
/// flow, some delivery it has completed has not been returned by `recv` yet (it is in flight or
/// queued inside the endpoint). A flow written when the application has read everything
/// cannot be overtaken by anything.
fn unread_backlog(st: &St) -> bool {
    (st.log.borrow().received.len() as u32) < st.completed
}

/// Second signature, same root (the link's credit is consumed when the application reads a
/// delivery, not when it arrives): the application lowers the credit while deliveries that
/// arrived within the earlier credit wait unread; they are then charged to the new credit.
fn sig_of(st: &St) -> &'static str {
    if st.restated {
        "sender-flow-overtakes-queued-transfers"
    } else if st.log.borrow().credit_cut_below_backlog {
        "credit-lowered-below-unread-deliveries"
    } else {
        ""
    }
}

fn check_receiver_flow(st: &mut St, p: &V) {
    let dc = match p.field(5).as_u32() {
        Some(d) => d,
        None => {
            sim::violation("flow-without-delivery-count", format!("receiver flow carries no delivery-count: {:?}", p.fields()));
            return;
        }
    };
    let credit = p.field(6).as_u32().unwrap_or(0);
    let drain = p.field(8).as_bool().unwrap_or(false);
    // feasible: some statement s of the sender plus j deliveries completed since, with
    // seen_lower <= completed_at + j <= completed
    let mut best: Option<u32> = None;
    for s in &st.stmts {
        let j = dc.wrapping_sub(s.value);
        let seen = s.completed_at as u64 + j as u64;
        if seen <= st.completed as u64 && seen >= st.seen_lower as u64 {
            let seen = seen as u32;
            best = Some(best.map(|b| b.min(seen)).unwrap_or(seen));
        }
    }
    match best {
        Some(seen) => st.seen_lower = seen,
        None => {
            sim::violation_sig(
                "reported-delivery-count",
                sig_of(st),
                format!(
                    "receiver flow reports delivery-count {} which is not (a delivery-count the sender stated) + (deliveries received since): sender statements {:?}, sender completed {} deliveries, receiver had seen at least {}",
                    dc,
                    st.stmts.iter().map(|s| (s.value, s.completed_at)).collect::<Vec<_>>(),
                    st.completed,
                    st.seen_lower
                ),
            );
            return;
        }
    }
    if credit > st.max_credit_allowed {
        sim::violation(
            "reported-link-credit",
            format!("receiver flow grants link-credit {} but the application never asked for more than {}", credit, st.max_credit_allowed),
        );
        return;
    }
    st.grant = Some((dc, credit, drain));
    st.flows_seen += 1;
}

fn absorb_frame(st: &mut St, f: &wire::WFrame) {
    let p = match &f.perf {
        Some(p) => p,
        None => return,
    };
    match f.code {
        wire::FLOW => {
            if p.field(4).as_u32() == Some(st.ep_handle) {
                check_receiver_flow(st, p);
            }
        }
        wire::DISPOSITION => {
            let first = p.field(1).as_u32().unwrap_or(0);
            let last = p.field(2).as_u32().unwrap_or(first);
            let mut id = first;
            for _ in 0..10_000 {
                st.disposed.insert(id);
                if id == last {
                    break;
                }
                id = id.wrapping_add(1);
            }
            st.dispositions.push(p.clone());
        }
        wire::DETACH => {
            if st.expect_resume && !st.resumed && !st.owe_attach && p.field(1).as_bool() != Some(true) {
                st.owe_detach = true;
            } else {
                st.detached = Some(p.clone());
            }
        }
        wire::ATTACH => {
            // the link comes back
            st.ep_handle = p.field(1).as_u32().unwrap_or(st.ep_handle);
            st.owe_attach = true;
        }
        _ => {}
    }
}

/// The scripted sender's part in a detach / resume of the link: answer the detach in kind, answer
/// the attach with its current delivery-count as the initial one (nothing is unsettled, nothing in
/// flight: the application resumes only when its credit is used up)
async fn answer_pending(peer: &mut Peer, st: &mut St) {
    if st.owe_detach {
        st.owe_detach = false;
        peer.send(st.ps.channel, &peer::detach(st.peer_handle, false, None)).await;
        sim::fault("link-detached-by-the-application");
    }
    if st.owe_attach {
        st.owe_attach = false;
        st.resumed = true;
        let mut args = AttachArgs::sender("rcv", st.peer_handle);
        args.initial_delivery_count = Some(st.dc_snd);
        args.rcv_settle_mode = Some(if st.rcv_second { 1 } else { 0 });
        peer.send(st.ps.channel, &peer::attach(&args)).await;
        st.stmts.push(DcStmt { value: st.dc_snd, completed_at: st.completed });
        // the credit of the old attachment is gone with it
        st.grant = None;
        sim::probe("link-resumed");
    }
}

async fn absorb(peer: &mut Peer, st: &mut St, ms: u64) {
    for f in peer.drain_for(ms).await {
        absorb_frame(st, &f);
    }
    answer_pending(peer, st).await;
}

fn available_credit(st: &St) -> u32 {
    match st.grant {
        Some((dc, credit, _)) => {
            let limit = dc.wrapping_add(credit);
            let avail = limit.wrapping_sub(st.dc_snd);
            if avail > u32::MAX / 2 {
                0
            } else {
                avail
            }
        }
        None => 0,
    }
}

/// Send one delivery in 1..3 transfer frames
async fn send_delivery(peer: &mut Peer, st: &mut St, settled: bool) {
    st.next_uid += 1;
    let msg = msgs::gen_message(st.next_uid, 120, 2);
    let bad = st.bad_den > 0 && choice(st.bad_den) == 0;
    // an amqp-value section announcing a 5-byte string and carrying one byte
    let payload = if bad { vec![0x00, 0x53, 0x77, 0xa1, 0x05, b'h'] } else { msgs::encode(&msg) };
    if bad {
        sim::fault("undecodable-delivery");
    }
    let nframes = (1 + choice(3) as usize).min(payload.len().max(1));
    let id = st.ps.next_delivery_id;
    st.ps.next_delivery_id = id.wrapping_add(1);
    let tag = st.next_uid.to_be_bytes().to_vec();
    let mut cuts: Vec<usize> = (1..nframes).map(|_| 1 + choice(payload.len() as u32 - 1) as usize).collect();
    cuts.sort();
    cuts.dedup();
    let mut start = 0;
    let mut pieces: Vec<&[u8]> = Vec::new();
    for c in &cuts {
        pieces.push(&payload[start..*c]);
        start = *c;
    }
    pieces.push(&payload[start..]);
    let n = pieces.len();
    for (i, piece) in pieces.iter().enumerate() {
        let first = i == 0;
        let last = i + 1 == n;
        let t = TransferArgs {
            handle: st.peer_handle,
            delivery_id: if first || choice(2) == 1 { Some(id) } else { None },
            delivery_tag: if first || choice(2) == 1 { Some(tag.clone()) } else { None },
            message_format: if first { Some(0) } else { None },
            settled: if first { Some(settled) } else { None },
            more: if last { None } else { Some(true) },
            ..Default::default()
        };
        peer.send_with_payload(st.ps.channel, &peer::transfer(&t), piece).await;
        st.ps.on_transfer_sent();
        if n > 1 {
            sim::probe("multi-frame-delivery");
        }
    }
    st.dc_snd = st.dc_snd.wrapping_add(1);
    st.completed += 1;
    st.log.borrow_mut().peer_sent += 1;
    st.sent.push(if bad { None } else { Some(msg) });
    if !settled {
        st.unsettled_ids.push(id);
    }
}

/// In rcv-settle-mode second the sender owes a settling disposition for every terminal outcome
async fn settle_second(peer: &mut Peer, st: &mut St) {
    if !st.rcv_second {
        st.dispositions.clear();
        return;
    }
    for d in std::mem::take(&mut st.dispositions) {
        let settled = d.field(3).as_bool().unwrap_or(false);
        if !settled {
            let first = d.field(1).as_u32().unwrap_or(0);
            let last = d.field(2).as_u32();
            peer.send(st.ps.channel, &peer::disposition(false, first, last, true, Some(d.field(4).clone()))).await;
        }
    }
}

async fn quiesce(peer: &mut Peer, st: &mut St, net: &crate::net::NetHandle) -> bool {
    loop {
        if !peer::settle(peer, net, |f| absorb_frame(st, f)).await {
            sim::violation("no-quiescence", "the endpoint kept producing traffic for the whole virtual deadline".into());
            return false;
        }
        if st.owe_detach || st.owe_attach {
            answer_pending(peer, st).await;
            continue;
        }
        if st.rcv_second && st.dispositions.iter().any(|d| !d.field(3).as_bool().unwrap_or(false)) {
            settle_second(peer, st).await;
            continue;
        }
        st.dispositions.clear();
        return !sim::has_violation();
    }
}

/// Manual credit policy, run after every delivery the application has got hold of
#[allow(clippy::too_many_arguments)]
async fn after_delivery(
    r: &mut Receiver,
    log: &Rc<RefCell<AppLog>>,
    mode: Mode,
    manual_credits: &[u32],
    drain_after: Option<usize>,
    net: &crate::net::NetHandle,
    manual_idx: &mut usize,
    since_credit: &mut u32,
    cur_credit: &mut u32,
    resume_due: &mut bool,
    resume_after: Option<usize>,
) -> bool {
    // any flow the link writes is subject to the accounting oracle, not only credit updates
    if mode != Mode::Overrun && choice(12) == 0 {
        sim::probe("send-properties-flow");
        let _ = r.send_properties().await;
    }
    if mode != Mode::Manual {
        return true;
    }
    let n = log.borrow().received.len();
    if Some(n) == drain_after {
        log.borrow_mut().drains += 1;
        let _ = r.drain().await;
        // after the sender has answered the drain and everything it had sent under the
        // old credit has arrived (simulator-proven: nothing in flight, nothing runnable),
        // issue fresh credit - a smaller credit while transfers are in flight would turn
        // them into overruns, and fresh credit that crosses the sender's answer would be
        // worth less to the sender than the application thinks, by the application's own doing
        let mut waited = 0;
        while !log.borrow().drain_answered && waited < 30_000 {
            sim::sleep_ms(10).await;
            waited += 10;
        }
        if !log.borrow().drain_answered {
            log.borrow_mut().drain_wait_given_up = true;
        }
        world::quiesce_pair(net).await;
        *since_credit = *cur_credit;
    }
    if *since_credit >= *cur_credit && *manual_idx < manual_credits.len() && resume_after.is_some() && Some(n) >= resume_after {
        // the credit is used up: the moment to detach and resume (the caller does it and issues
        // the next credit on the resumed link)
        *resume_due = true;
        return true;
    }
    if *since_credit >= *cur_credit && *manual_idx < manual_credits.len() {
        *cur_credit = manual_credits[*manual_idx];
        *manual_idx += 1;
        *since_credit = 0;
        {
            let mut l = log.borrow_mut();
            l.credit_calls.push(*cur_credit);
            let backlog = l.peer_sent.saturating_sub(l.received.len() as u32);
            if backlog > *cur_credit {
                l.credit_cut_below_backlog = true;
                sim::probe("credit-lowered-below-unread-deliveries");
            }
        }
        if r.set_credit(*cur_credit).await.is_err() {
            return false;
        }
    }
    true
}

thread_local! {
    /// stream mode: hold the first k deliveries undisposed, call drain(), wait for the sender's answer,
    /// then dispose of them: the automatic top-up that follows must get the stream going again
    static STREAM_DRAIN_AT: std::cell::Cell<Option<usize>> = std::cell::Cell::new(None);
}

fn spawn_app(mut r: Receiver, log: Rc<RefCell<AppLog>>, mode: Mode, dispose_kind: u32, batch: usize, manual_credits: Vec<u32>, drain_after: Option<usize>, net: crate::net::NetHandle, resume_after: Option<usize>) {
    sim::spawn("app-receiver", async move {
        let mut pending = Vec::new();
        let mut manual_idx = 0usize;
        let mut since_credit = 0u32;
        let mut cur_credit = 0u32;
        if mode == Mode::Manual {
            cur_credit = manual_credits[0];
            log.borrow_mut().credit_calls.push(cur_credit);
            if r.set_credit(cur_credit).await.is_err() {
                return;
            }
            manual_idx = 1;
        }
        let mut disposer = r.disposer();
        let mut resume_after = resume_after;
        let mut resume_due = false;
        let stream_drain_at = STREAM_DRAIN_AT.with(|c| c.take());
        let mut held_for_drain: Vec<DeliveryInfo> = Vec::new();
        let mut drained = false;
        loop {
            // detach (non-closing) and resume: when the credit is used up and everything that was
            // received has been disposed of, so that nothing is in flight and nothing unsettled
            if resume_due {
                resume_due = false;
                resume_after = None;
                if !pending.is_empty() {
                    let _ = r.accept_all(pending.drain(..).collect::<Vec<_>>()).await;
                }
                world::quiesce_pair(&net).await;
                let detached = match sim::op("detach before resume", r.detach()).await {
                    Some(Ok(d)) => d,
                    Some(Err((_, e))) => {
                        sim::violation("detach-failed", format!("{:?}", e));
                        return;
                    }
                    None => return,
                };
                r = match sim::op("resume", detached.resume()).await {
                    Some(Ok(fe2o3_amqp::link::receiver::ResumingReceiver::Complete(r))) => r,
                    Some(Ok(other)) => {
                        sim::violation("resume-incomplete", format!("nothing was unsettled; resume gave {:?}", other));
                        return;
                    }
                    Some(Err(e)) => {
                        sim::violation("resume-failed", format!("{:?}", e));
                        return;
                    }
                    None => return,
                };
                disposer = r.disposer();
                // the credit of the old attachment is gone with it: issue the next amount
                if manual_idx < manual_credits.len() {
                    cur_credit = manual_credits[manual_idx];
                    manual_idx += 1;
                    since_credit = 0;
                    log.borrow_mut().credit_calls.push(cur_credit);
                    if r.set_credit(cur_credit).await.is_err() {
                        break;
                    }
                }
            }
            let info: DeliveryInfo = match r.recv::<Body<Value>>().await {
                Ok(d) => {
                    log.borrow_mut().received.push(Some(d.message().clone()));
                    DeliveryInfo::from(&d)
                }
                Err(RecvError::MessageDecode(e)) => {
                    // a recoverable error: the delivery is complete, the application disposes of it
                    log.borrow_mut().received.push(None);
                    sim::probe("undecodable-delivery-reported");
                    since_credit += 1;
                    if mode != Mode::Overrun {
                        let _ = r.reject(e.info, None).await;
                    }
                    if !after_delivery(&mut r, &log, mode, &manual_credits, drain_after, &net, &mut manual_idx, &mut since_credit, &mut cur_credit, &mut resume_due, resume_after).await {
                        break;
                    }
                    continue;
                }
                Err(e) => {
                    let mut l = log.borrow_mut();
                    l.transfer_limit_error = matches!(e, RecvError::TransferLimitExceeded);
                    l.error = Some(format!("{:?}", e));
                    break;
                }
            };
            since_credit += 1;
            if let (Some(k), false) = (stream_drain_at, drained) {
                held_for_drain.push(info);
                if held_for_drain.len() >= k {
                    drained = true;
                    log.borrow_mut().drains += 1;
                    let _ = r.drain().await;
                    sim::fault("drain-called-in-automatic-credit-mode");
                    let mut waited = 0;
                    while !log.borrow().drain_answered && waited < 30_000 {
                        sim::sleep_ms(10).await;
                        waited += 10;
                    }
                    world::quiesce_pair(&net).await;
                    // now the held deliveries are disposed of, one by one: the link tops the credit up
                    for h in held_for_drain.drain(..) {
                        let _ = r.accept(h).await;
                    }
                    sim::probe("disposals-after-a-drain-in-automatic-mode");
                }
                continue;
            }
            match dispose_kind {
                // 0: accept each; 1: batches via accept_all; 2: alternate outcomes; 3: via the disposer; 4: never
                0 => {
                    let _ = r.accept(info).await;
                }
                1 => {
                    pending.push(info);
                    if pending.len() >= batch {
                        let _ = r.accept_all(pending.drain(..).collect::<Vec<_>>()).await;
                    }
                }
                2 => match since_credit % 4 {
                    0 => {
                        let _ = r.release(info).await;
                    }
                    1 => {
                        let _ = r.accept(info).await;
                    }
                    2 => {
                        let _ = r.dispose(info, TerminalDeliveryState::Modified(Modified { delivery_failed: Some(true), undeliverable_here: None, message_annotations: None })).await;
                    }
                    _ => {
                        let _ = r.dispose_all(vec![info], TerminalDeliveryState::Accepted(Accepted {})).await;
                    }
                },
                3 => {
                    let _ = disposer.accept(info).await;
                }
                _ => {}
            }
            if !after_delivery(&mut r, &log, mode, &manual_credits, drain_after, &net, &mut manual_idx, &mut since_credit, &mut cur_credit, &mut resume_due, resume_after).await {
                break;
            }
        }
        log.borrow_mut().done = true;
        std::future::pending::<()>().await;
        drop(r);
    });
}

#[allow(clippy::too_many_arguments)]
async fn script(
    peer: &mut Peer,
    st: &mut St,
    net: &crate::net::NetHandle,
    log: &Rc<RefCell<AppLog>>,
    mode: Mode,
    total: u32,
    settled_by_sender: bool,
    drain_after: Option<usize>,
) {
    let mut drain_answered = false;
    match mode {
        Mode::Stream | Mode::Manual => {
            let deadline = tokio::time::Instant::now() + sim::OP_DEADLINE;
            while st.completed < total {
                if sim::has_violation() {
                    return;
                }
                absorb(peer, st, pick(&[0u64, 1, 5])).await;
                settle_second(peer, st).await;
                if let Some((_, _, true)) = st.grant {
                    // drain requested: use up the credit by advancing the delivery-count and say so
                    let (dc, credit, _) = st.grant.unwrap();
                    let limit = dc.wrapping_add(credit);
                    if limit.wrapping_sub(st.dc_snd) <= u32::MAX / 2 {
                        st.dc_snd = limit;
                    }
                    st.restated = st.restated || unread_backlog(st);
                    st.stmts.push(DcStmt { value: st.dc_snd, completed_at: st.completed });
                    let mut f = st.ps.flow_args();
                    f.handle = Some(st.peer_handle);
                    f.delivery_count = Some(st.dc_snd);
                    f.link_credit = Some(0);
                    f.drain = Some(true);
                    peer.send(st.ps.channel, &peer::flow(&f)).await;
                    st.grant = Some((st.dc_snd, 0, false));
                    sim::probe("drain-answered");
                    drain_answered = true;
                    log.borrow_mut().drain_answered = true;
                    continue;
                }
                let mut avail = available_credit(st);
                if let (Some(k), false, true) = (drain_after, drain_answered, st.cap_before_drain) {
                    // the application will ask for a drain after k deliveries; this sender has no
                    // more than k to send until then. (The other kind of sender goes on to use the
                    // credit it has until it sees the drain request.)
                    avail = avail.min((k as u32).saturating_sub(st.completed));
                    if avail == 0 && log.borrow().drain_wait_given_up {
                        // the drain request was superseded before the sender saw it
                        drain_answered = true;
                    }
                }
                if avail > 0 {
                    // sometimes restate the delivery-count first
                    if st.may_restate && choice(4) == 1 {
                        st.restated = st.restated || unread_backlog(st);
                        st.stmts.push(DcStmt { value: st.dc_snd, completed_at: st.completed });
                        let mut f = st.ps.flow_args();
                        f.handle = Some(st.peer_handle);
                        f.delivery_count = Some(st.dc_snd);
                        f.link_credit = Some(avail);
                        f.available = Some(total - st.completed);
                        peer.send(st.ps.channel, &peer::flow(&f)).await;
                        sim::probe("sender-restated-delivery-count");
                    }
                    let burst = 1 + choice(avail.min(4));
                    for _ in 0..burst.min(total - st.completed) {
                        send_delivery(peer, st, settled_by_sender).await;
                    }
                    if avail == burst {
                        sim::probe("sent-exactly-to-the-limit");
                    }
                } else if mode == Mode::Manual && log.borrow().credit_calls.len() >= 6 && quiesce(peer, st, net).await && available_credit(st) == 0 {
                    // manual mode: the application has issued all the credit it is going to
                    // issue and the sender has used it up
                    sim::probe("manual-credit-exhausted");
                    break;
                } else if tokio::time::Instant::now() >= deadline {
                    let l = log.borrow();
                    sim::violation_sig(
                        "credit-not-replenished",
                        sig_of(st),
                        format!(
                            "a sender that respects credit stalled: {} of {} deliveries sent, application received {} (all disposed of), last grant {:?}, {} virtual seconds without new credit",
                            st.completed,
                            total,
                            l.received.len(),
                            st.grant,
                            sim::OP_DEADLINE.as_secs()
                        ),
                    );
                    return;
                } else {
                    sim::probe("sender-waited-for-credit");
                    absorb(peer, st, 100).await;
                }
                if peer.eof || st.detached.is_some() {
                    sim::violation_sig(
                        "receiver-gave-up",
                        sig_of(st),
                        format!("the receiver detached or the stream ended while a credit-respecting sender was sending: detach={:?} app error={:?}", st.detached, log.borrow().error),
                    );
                    return;
                }
            }
            // everything was sent within credit: the application must get all of it
            let deadline = tokio::time::Instant::now() + sim::OP_DEADLINE;
            loop {
                if !quiesce(peer, st, net).await {
                    return;
                }
                if log.borrow().received.len() as u32 >= total || log.borrow().error.is_some() {
                    break;
                }
                if tokio::time::Instant::now() >= deadline {
                    break;
                }
                tokio::time::sleep(std::time::Duration::from_millis(50)).await;
            }
            // The stream is over and the application has read everything: nothing is in flight and
            // nobody is about to write a flow. The sender now advances its delivery-count on its own
            // (only the sender may do that; it gives up some of the credit it holds) and asks for the
            // receiver's state with echo. Whatever flow the receiver writes now is written after it
            // has learnt that delivery-count, and must report it.
            if mode == Mode::Stream && st.detached.is_none() && !unread_backlog(st) && log.borrow().error.is_none() && choice(2) == 1 {
                let avail = available_credit(st);
                if avail >= 1 {
                    let jump = 1 + choice(avail.min(5));
                    st.dc_snd = st.dc_snd.wrapping_add(jump);
                    st.stmts.push(DcStmt { value: st.dc_snd, completed_at: st.completed });
                    let flows_before = st.flows_seen;
                    let mut f = st.ps.flow_args();
                    f.handle = Some(st.peer_handle);
                    f.delivery_count = Some(st.dc_snd);
                    f.link_credit = Some(avail - jump.min(avail));
                    f.available = Some(0);
                    f.echo = Some(true);
                    peer.send(st.ps.channel, &peer::flow(&f)).await;
                    sim::fault("sender-advanced-its-delivery-count-and-asked-for-an-echo");
                    if !quiesce(peer, st, net).await {
                        return;
                    }
                    if st.flows_seen > flows_before {
                        match st.grant {
                            Some((dc, _, _)) if dc == st.dc_snd => sim::probe("echo-answer-reports-the-delivery-count-just-learnt"),
                            other => {
                                sim::violation(
                                    "echo-answer-reports-stale-delivery-count",
                                    format!(
                                        "with nothing in flight the sender stated delivery-count {} in a flow that asked for an echo; the receiver's answer reports {:?} (delivery-count, link-credit, drain)",
                                        st.dc_snd, other
                                    ),
                                );
                                return;
                            }
                        }
                    }
                }
            }
        }
        Mode::Overrun => {
            // wait for the first grant, then send exactly the credit plus `extra`
            let deadline = tokio::time::Instant::now() + sim::OP_DEADLINE;
            while st.grant.is_none() && tokio::time::Instant::now() < deadline {
                absorb(peer, st, 5).await;
            }
            if !quiesce(peer, st, net).await {
                return;
            }
            let avail = available_credit(st);
            let extra = 1 + choice(3);
            for _ in 0..avail {
                send_delivery(peer, st, settled_by_sender).await;
            }
            sim::probe("sent-exactly-to-the-limit");
            for _ in 0..extra {
                send_delivery(peer, st, settled_by_sender).await;
                sim::fault("transfer-beyond-credit");
            }
            // the application does not dispose in this mode, so no new credit is issued:
            // exactly `avail` deliveries may come out, then the transfer-limit error
            if !peer::settle(peer, net, |f| absorb_frame(st, f)).await {
                return;
            }
            tokio::time::sleep(std::time::Duration::from_millis(100)).await;
            let _ = peer::settle(peer, net, |f| absorb_frame(st, f)).await;
            let l = log.borrow();
            if l.received.len() as u32 > avail {
                sim::violation(
                    "delivery-beyond-credit-accepted",
                    format!("credit for {} deliveries was issued, the sender sent {}, the application received {}", avail, avail + extra, l.received.len()),
                );
                return;
            }
            if (l.received.len() as u32) < avail {
                sim::violation(
                    "delivery-within-credit-lost",
                    format!("credit for {} deliveries was issued and used, the application received {} (error {:?})", avail, l.received.len(), l.error),
                );
                return;
            }
            if !l.transfer_limit_error {
                sim::violation(
                    "overrun-not-reported",
                    format!("after {} deliveries beyond credit recv did not fail with the transfer-limit error: {:?}", extra, l.error),
                );
                return;
            }
        }
    }
}

fn check_received(st: &St, log: &Rc<RefCell<AppLog>>, expect: usize) {
    let l = log.borrow();
    if l.received.len() != expect {
        sim::violation_sig(
            "received-count",
            sig_of(st),
            format!("{} deliveries were sent within credit, the application received {} (error: {:?})", expect, l.received.len(), l.error),
        );
        return;
    }
    for (k, (got, sent)) in l.received.iter().zip(st.sent.iter()).enumerate() {
        let same = match (got, sent) {
            (Some(g), Some(x)) => msgs::same_message(g, x),
            (None, None) => true,
            _ => false,
        };
        if !same {
            sim::violation("received-content", format!("delivery #{} differs from what was sent (decodable as received: {}, as sent: {})", k, got.is_some(), sent.is_some()));
            return;
        }
    }
}

thread_local! {
    static STREAM_ONLY: std::cell::Cell<bool> = std::cell::Cell::new(false);
}

/// The scenario as C01 uses it: a credit-respecting scripted sender streams single- and
/// multi-frame deliveries, some of which do not decode (the application rejects those and goes on),
/// to a real receiver with automatic credit; every delivery must come out, once, in order, intact.
/// Nothing that the recorded C09 findings need (restated delivery-counts, drains, manual credit)
/// takes part.
pub async fn run_client_stream_only() {
    STREAM_ONLY.with(|f| f.set(true));
    run_client().await;
    STREAM_ONLY.with(|f| f.set(false));
}

fn draw_common() -> (Mode, CreditMode, bool, bool, u32, usize, Vec<u32>, Option<usize>, u32, u32) {
    let stream_only = STREAM_ONLY.with(|f| f.get());
    let mode = if stream_only {
        Mode::Stream
    } else {
        match choice(8) {
            0..=3 => Mode::Stream,
            4 | 5 => Mode::Overrun,
            _ => Mode::Manual,
        }
    };
    let n = pick(&[1u32, 2, 3, 4, 5, 10, 200]);
    let credit_mode = if mode == Mode::Manual { CreditMode::Manual } else { CreditMode::Auto(n) };
    let auto_accept = mode == Mode::Stream && choice(3) == 1;
    let rcv_second = choice(3) == 1;
    let dispose_kind = if mode == Mode::Overrun { 4 } else if auto_accept { 4 } else { choice(4) };
    let batch = 1 + choice(n.min(3)) as usize;
    let manual_credits: Vec<u32> = (0..6).map(|_| pick(&[1u32, 2, 3, 7])).collect();
    let drain_after = if mode == Mode::Manual && choice(2) == 1 { Some(1 + choice(3) as usize) } else { None };
    let total = match mode {
        Mode::Stream => (3 * n + 7).min(60),
        Mode::Overrun => 0,
        Mode::Manual => manual_credits.iter().sum::<u32>(),
    };
    let initial_dc = pick(&[0u32, 7, u32::MAX - 3, 0x7fff_ffff]);
    (mode, credit_mode, auto_accept, rcv_second, dispose_kind, batch, manual_credits, drain_after, total, initial_dc)
}

/// Real client `Receiver` against a scripted sender
pub async fn run_client() {
    let (mode, credit_mode, auto_accept, rcv_second, dispose_kind, batch, manual_credits, drain_after, total, initial_dc) = draw_common();
    let settled_by_sender = choice(3) == 1;
    let bad_den = if STREAM_ONLY.with(|f| f.get()) { pick(&[3u32, 6, 2]) } else { pick(&[0u32, 0, 3, 6]) };
    // (client side only) the application detaches the link and resumes it after so many deliveries
    let resume_after: Option<usize> = if mode == Mode::Manual && drain_after.is_none() && choice(2) == 1 { Some(1 + choice(4) as usize) } else { None };
    let ccfg = EndpointCfg::default_cfg();
    let (nab, nba, nd) = world::draw_net(true);
    sim::set_config(format!(
        "side=client mode={:?} credit={:?} auto_accept={} rcv_second={} dispose={} batch={} manual={:?} drain_after={:?} total={} initial-dc={} presettled={} undecodable=1/{} resume-after={:?} {}",
        mode, credit_mode, auto_accept, rcv_second, dispose_kind, batch, manual_credits, drain_after, total, initial_dc, settled_by_sender, bad_den, resume_after, nd
    ));
    sim::mark_nontrivial();
    let cvp = match peer::client_vs_peer(&ccfg, peer::open("peer", Some(65536), Some(255), None), nab, nba, Models::none()).await {
        Some(x) => x,
        None => return,
    };
    let peer::ClientVsPeer { mut client, mut peer, net, mon: _mon, .. } = cvp;
    let mut ps = PeerSession::new(0, pick(&[0u32, 50, u32::MAX - 1]), 5000, 5000);
    let begin_fut = sim::in_group(1, Session::builder().begin(&mut client));
    let peer_begin = async {
        let b = peer.expect(wire::BEGIN).await?;
        ps.on_remote_begin(b.perf.as_ref().unwrap(), b.channel);
        peer.send(ps.channel, &peer::begin(Some(b.channel), ps.next_outgoing_id, ps.incoming_window, ps.outgoing_window)).await;
        Some(())
    };
    let mut session = match sim::op("begin", world::join2(begin_fut, peer_begin)).await {
        Some((Ok(s), Some(()))) => s,
        Some((r, _)) => {
            sim::violation("begin-failed", format!("{:?}", r.map(|_| ())));
            return;
        }
        None => return,
    };
    let peer_handle = pick(&[0u32, 6, 90_000]);
    let att = sim::in_group(
        1,
        Receiver::builder()
            .name("rcv")
            .source("q")
            .credit_mode(credit_mode.clone())
            .auto_accept(auto_accept)
            .receiver_settle_mode(if rcv_second { ReceiverSettleMode::Second } else { ReceiverSettleMode::First })
            .attach(&mut session),
    );
    let mut ep_handle = 0;
    let peer_att = async {
        let a = peer.expect(wire::ATTACH).await?;
        ep_handle = a.perf.as_ref().unwrap().field(1).as_u32().unwrap_or(0);
        let mut args = AttachArgs::sender("rcv", peer_handle);
        args.initial_delivery_count = Some(initial_dc);
        args.rcv_settle_mode = Some(if rcv_second { 1 } else { 0 });
        peer.send(ps.channel, &peer::attach(&args)).await;
        Some(())
    };
    let receiver = match sim::op("attach receiver", world::join2(att, peer_att)).await {
        Some((Ok(r), Some(()))) => r,
        Some((r, _)) => {
            sim::violation("attach-failed", format!("{:?}", r.map(|_| ())));
            return;
        }
        None => return,
    };
    let log = Rc::new(RefCell::new(AppLog::default()));
    if let (Mode::Stream, false, CreditMode::Auto(n)) = (mode, auto_accept, &credit_mode) {
        if *n >= 2 && *n <= 10 && bad_den == 0 && choice(3) == 0 && !STREAM_ONLY.with(|f| f.get()) {
            let k = (*n / 2).max(1) as usize;
            STREAM_DRAIN_AT.with(|c| c.set(Some(k)));
            sim::append_config(&format!(" drain-in-auto-mode-after={}", k));
        }
    }
    spawn_app(receiver, log.clone(), mode, dispose_kind, batch, manual_credits.clone(), drain_after, net.clone(), resume_after);
    let max_credit = match &credit_mode {
        CreditMode::Auto(n) => *n,
        CreditMode::Manual => *manual_credits.iter().max().unwrap(),
    };
    let mut st = St {
        ps,
        ep_handle,
        peer_handle,
        dc_snd: initial_dc,
        completed: 0,
        stmts: vec![DcStmt { value: initial_dc, completed_at: 0 }],
        seen_lower: 0,
        grant: None,
        flows_seen: 0,
        max_credit_allowed: max_credit,
        dispositions: Vec::new(),
        detached: None,
        next_uid: 50_000,
        sent: Vec::new(),
        bad_den,
        rcv_second,
        unsettled_ids: Vec::new(),
        disposed: Default::default(),
        restated: false,
        may_restate: choice(4) == 1 && !STREAM_ONLY.with(|f| f.get()),
        cap_before_drain: choice(3) != 0,
        log: log.clone(),
        expect_resume: resume_after.is_some(),
        owe_detach: false,
        owe_attach: false,
        resumed: false,
    };
    script(&mut peer, &mut st, &net, &log, mode, total, settled_by_sender, drain_after).await;
    if sim::has_violation() {
        return;
    }
    if mode != Mode::Overrun {
        let expect = if mode == Mode::Manual { st.completed as usize } else { total as usize };
        check_received(&st, &log, expect);
    }
    // what the application has disposed of, the sender is told about: every unsettled delivery of a
    // run in which the application disposes of each one (accepting, releasing, modifying, or
    // rejecting the ones that did not decode) is covered by a disposition on the wire
    if !sim::has_violation() && mode == Mode::Stream && (auto_accept || matches!(dispose_kind, 0 | 2 | 3)) {
        let _ = quiesce(&mut peer, &mut st, &net).await;
        let missing: Vec<u32> = st.unsettled_ids.iter().filter(|id| !st.disposed.contains(id)).cloned().collect();
        if !missing.is_empty() {
            let bad: Vec<bool> = st.sent.iter().map(|m| m.is_none()).collect();
            sim::violation(
                "disposed-delivery-not-reported",
                format!(
                    "the application disposed of every delivery it received ({} of them, {} undecodable and rejected); no disposition covers the delivery-ids {:?}",
                    st.sent.len(),
                    bad.iter().filter(|b| **b).count(),
                    missing
                ),
            );
            return;
        }
        sim::probe("every-disposal-reported");
    }
    let td = async {
        let _ = tokio::time::timeout(std::time::Duration::from_secs(20), session.end()).await;
        let _ = tokio::time::timeout(std::time::Duration::from_secs(20), client.close()).await;
    };
    let _ = world::join2(td, peer::serve_teardown(&mut peer, 30_000)).await;
}

/// Real listener-side `Receiver` against a scripted client that attaches a sender link
pub async fn run_listener() {
    let (mode, credit_mode, auto_accept, rcv_second, dispose_kind, batch, manual_credits, drain_after, total, initial_dc) = draw_common();
    let settled_by_sender = choice(3) == 1;
    let bad_den = pick(&[0u32, 0, 3, 6]);
    let resume_after: Option<usize> = None;
    let lcfg = EndpointCfg::default_cfg();
    let (nab, nba, nd) = world::draw_net(true);
    sim::set_config(format!(
        "side=listener mode={:?} credit={:?} auto_accept={} rcv_second={} dispose={} batch={} manual={:?} drain_after={:?} total={} initial-dc={} presettled={} undecodable=1/{} {}",
        mode, credit_mode, auto_accept, rcv_second, dispose_kind, batch, manual_credits, drain_after, total, initial_dc, settled_by_sender, bad_den, nd
    ));
    sim::mark_nontrivial();
    let pvl = match peer::peer_vs_listener(&lcfg, peer::open("peer", Some(65536), Some(255), None), nab, nba, Models::none()).await {
        Some(x) => x,
        None => return,
    };
    let peer::ListenerVsPeer { mut listener, mut peer, net, .. } = pvl;
    let mut ps = PeerSession::new(pick(&[0u16, 2]), pick(&[0u32, 9]), 5000, 5000);
    let peer_handle = pick(&[0u32, 12]);
    let log = Rc::new(RefCell::new(AppLog::default()));
    let log2 = log.clone();
    let acc = SessionAcceptor::new();
    let ready: world::Slot<Result<(), String>> = world::Slot::new();
    let ready2 = ready.clone();
    let cm = credit_mode.clone();
    let mc = manual_credits.clone();
    let net2 = net.clone();
    sim::spawn(
        "listener-app",
        sim::in_group(2, async move {
            let mut sess = match acc.accept(&mut listener).await {
                Ok(s) => s,
                Err(e) => {
                    ready2.put(Err(format!("session accept: {:?}", e)));
                    return;
                }
            };
            let la = LinkAcceptor::new();
            match la.accept(&mut sess).await {
                Ok(LinkEndpoint::Receiver(mut r)) => {
                    r.set_credit_mode(cm.clone());
                    r.set_auto_accept(auto_accept);
                    if let CreditMode::Auto(n) = cm {
                        let _ = r.set_credit(n).await;
                    }
                    ready2.put(Ok(()));
                    spawn_app(r, log2, mode, dispose_kind, batch, mc, drain_after, net2.clone(), None);
                }
                Ok(_) => ready2.put(Err("expected a receiver endpoint".into())),
                Err(e) => ready2.put(Err(format!("link accept: {:?}", e))),
            }
            let _ = sess.on_end().await;
            let _ = listener.on_close().await;
        }),
    );
    peer.send(ps.channel, &peer::begin(None, ps.next_outgoing_id, ps.incoming_window, ps.outgoing_window)).await;
    let b = match peer.expect(wire::BEGIN).await {
        Some(b) => b,
        None => {
            sim::violation("begin-failed", "listener did not answer begin".into());
            return;
        }
    };
    ps.on_remote_begin(b.perf.as_ref().unwrap(), b.channel);
    let mut args = AttachArgs::sender("lrcv", peer_handle);
    args.initial_delivery_count = Some(initial_dc);
    args.rcv_settle_mode = Some(if rcv_second { 1 } else { 0 });
    peer.send(ps.channel, &peer::attach(&args)).await;
    let a = match peer.expect(wire::ATTACH).await {
        Some(a) => a,
        None => {
            sim::violation("attach-failed", "listener did not answer attach".into());
            return;
        }
    };
    let ap = a.perf.clone().unwrap();
    let rcv_second = ap.field(4).as_u32() == Some(1);
    let max_credit = match &credit_mode {
        CreditMode::Auto(n) => (*n).max(200),
        CreditMode::Manual => (*manual_credits.iter().max().unwrap()).max(200),
    };
    let mut st = St {
        ps,
        ep_handle: ap.field(1).as_u32().unwrap_or(0),
        peer_handle,
        dc_snd: initial_dc,
        completed: 0,
        stmts: vec![DcStmt { value: initial_dc, completed_at: 0 }],
        seen_lower: 0,
        grant: None,
        flows_seen: 0,
        // the acceptor issues its default credit (200) before the application changes it
        max_credit_allowed: max_credit,
        dispositions: Vec::new(),
        detached: None,
        next_uid: 60_000,
        sent: Vec::new(),
        bad_den,
        rcv_second,
        unsettled_ids: Vec::new(),
        disposed: Default::default(),
        restated: false,
        may_restate: choice(4) == 1,
        cap_before_drain: choice(3) != 0,
        log: log.clone(),
        expect_resume: resume_after.is_some(),
        owe_detach: false,
        owe_attach: false,
        resumed: false,
    };
    // the flows the acceptor sent before the application configured the link
    for f in std::mem::take(&mut peer.skipped) {
        absorb_frame(&mut st, &f);
    }
    match sim::op("listener link accept", ready.take()).await {
        Some(Ok(())) => {}
        Some(Err(e)) => {
            sim::violation("attach-failed", e);
            return;
        }
        None => return,
    }
    // let the application's own credit setting arrive before the sender starts
    if !quiesce(&mut peer, &mut st, &net).await {
        return;
    }
    script(&mut peer, &mut st, &net, &log, mode, total, settled_by_sender, drain_after).await;
    if sim::has_violation() {
        return;
    }
    if mode != Mode::Overrun {
        let expect = if mode == Mode::Manual { st.completed as usize } else { total as usize };
        check_received(&st, &log, expect);
    }
    peer.send(0, &peer::close(None)).await;
    let _ = peer.drain_for(2000).await;
}
