//! C13, listener side against a scripted peer: teardown that is already on the wire when the
//! listener's application gets round to accepting.
//!
//! A real client writes its attach and waits for the answer before it does anything else with the
//! link; a peer need not. Here the scripted peer writes, in one go,
//!
//!  * attach + detach (closing or not, with or without an error) of a link, before the listener's
//!    application has accepted the link (or even the session);
//!  * begin + end of a session before the application has accepted the session;
//!  * attach + a transfer + detach: a link that lived and died before anybody looked at it.
//!
//! What C13 says about that: whatever the listener writes obeys the lifecycle models (one attach,
//! at most one detach for it, nothing for the handle afterwards; one begin, one end); a detach the
//! peer sent for a link the listener did attach is answered in kind no later than the
//! application's next operation on the link; the peer's end is answered with an end; and none of it
//! tears down the enclosing session or connection: a sibling link attached afterwards on the very
//! same handle, and a sibling session begun afterwards on the very same channel, work.

use std::cell::RefCell;
use std::collections::BTreeMap;
use std::rc::Rc;

use fe2o3_amqp::acceptor::{LinkAcceptor, LinkEndpoint, ListenerSessionHandle};
use fe2o3_amqp::types::messaging::{AmqpValue, Body, Message};
use fe2o3_amqp::types::primitives::Value;
use fe2o3_amqp_types::messaging::message::__private::Serializable;

use crate::chooser::{choice, pick};
use crate::peer::{self, AttachArgs, TransferArgs};
use crate::sim;
use crate::wire::{self, Models};
use crate::world::{self, EndpointCfg};

#[derive(Default, Debug)]
struct AppLink {
    received: Vec<String>,
    error: Option<String>,
    answered_with: Option<&'static str>,
}
type Logs = Rc<RefCell<BTreeMap<String, AppLink>>>;

fn text_of(m: &Message<Body<Value>>) -> String {
    match &m.body {
        Body::Value(AmqpValue(Value::String(s))) => s.clone(),
        other => format!("{:?}", other),
    }
}

async fn app_link(ep: LinkEndpoint, logs: Logs) {
    match ep {
        LinkEndpoint::Receiver(mut r) => {
            let name = r.name().to_string();
            logs.borrow_mut().entry(name.clone()).or_default();
            loop {
                match r.recv::<Body<Value>>().await {
                    Ok(d) => {
                        logs.borrow_mut().get_mut(&name).unwrap().received.push(text_of(d.message()));
                        let _ = r.accept(&d).await;
                    }
                    Err(e) => {
                        let es = format!("{:?}", e);
                        logs.borrow_mut().get_mut(&name).unwrap().error = Some(es.clone());
                        // the application's next operation on the link answers the peer in kind
                        if es.contains("RemoteDetached") {
                            logs.borrow_mut().get_mut(&name).unwrap().answered_with = Some("detach");
                            let _ = tokio::time::timeout(std::time::Duration::from_secs(30), r.detach()).await;
                        } else {
                            logs.borrow_mut().get_mut(&name).unwrap().answered_with = Some("close");
                            let _ = tokio::time::timeout(std::time::Duration::from_secs(30), r.close()).await;
                        }
                        break;
                    }
                }
            }
        }
        LinkEndpoint::Sender(mut s) => {
            let name = s.name().to_string();
            logs.borrow_mut().entry(name.clone()).or_default();
            let e = s.on_detach().await;
            let es = format!("{:?}", e);
            logs.borrow_mut().get_mut(&name).unwrap().error = Some(es.clone());
            if es.contains("DetachedByRemote") || es.contains("RemoteDetached") {
                logs.borrow_mut().get_mut(&name).unwrap().answered_with = Some("detach");
                let _ = tokio::time::timeout(std::time::Duration::from_secs(30), s.detach()).await;
            } else {
                logs.borrow_mut().get_mut(&name).unwrap().answered_with = Some("close");
                let _ = tokio::time::timeout(std::time::Duration::from_secs(30), s.close()).await;
            }
        }
    }
}

async fn app_session(mut sess: ListenerSessionHandle, logs: Logs, delay_ms: u64) {
    let la = LinkAcceptor::new();
    let mut errors = 0;
    loop {
        if delay_ms > 0 {
            tokio::time::sleep(std::time::Duration::from_millis(delay_ms)).await;
        }
        match la.accept(&mut sess).await {
            Ok(ep) => sim::spawn("app-link", sim::in_group(2, app_link(ep, logs.clone()))),
            Err(e) => {
                let es = format!("{:?}", e);
                errors += 1;
                if es.contains("SessionStopped") || es.contains("IllegalSessionState") || errors > 3 {
                    break;
                }
            }
        }
    }
    let _ = sess.on_end().await;
}

fn message_bytes(text: &str) -> Vec<u8> {
    let m: Message<Body<Value>> = Message::builder().body(Body::Value(AmqpValue(Value::String(text.to_string())))).build();
    serde_amqp::to_vec(&Serializable(m)).expect("message serialises")
}

#[derive(Clone, Copy, Debug, PartialEq)]
enum Script {
    /// begin answered first; then attach + detach in one write
    LinkGoneBeforeAccept,
    /// attach + one settled transfer + detach in one write
    LinkLivedAndDied,
    /// begin + attach + detach in one write, before the session is accepted
    AllBeforeSessionAccept,
    /// begin + end in one write
    SessionGoneBeforeAccept,
}

pub async fn run() {
    let script = pick(&[Script::LinkGoneBeforeAccept, Script::LinkGoneBeforeAccept, Script::LinkLivedAndDied, Script::AllBeforeSessionAccept, Script::SessionGoneBeforeAccept]);
    let closed = choice(2) == 1;
    let with_error = choice(3) == 0;
    let peer_is_sender = script == Script::LinkLivedAndDied || choice(2) == 1;
    let accept_delay = pick(&[0u64, 0, 3, 50]);
    let lcfg = EndpointCfg::default_cfg();
    let (nab, nba, nd) = world::draw_net(false);
    sim::set_config(format!("variant=listener-pipelined-teardown script={:?} closing={} with-error={} peer-link-role={} accept-delay={}ms {}", script, closed, with_error, if peer_is_sender { "sender" } else { "receiver" }, accept_delay, nd));
    sim::mark_nontrivial();
    sim::set_panic_is_violation(true);
    let models = Models { sess: true, link: true, ..Models::none() };
    let pvl = match peer::peer_vs_listener(&lcfg, peer::open("peer", Some(65536), Some(255), None), nab, nba, models).await {
        Some(x) => x,
        None => return,
    };
    let peer::ListenerVsPeer { mut listener, mut peer, net, mon, .. } = pvl;
    let logs: Logs = Rc::new(RefCell::new(BTreeMap::new()));
    {
        let logs = logs.clone();
        let lcfg = lcfg.clone();
        sim::spawn(
            "listener-app",
            sim::in_group(2, async move {
                let sa = world::session_acceptor(&lcfg);
                loop {
                    if accept_delay > 0 {
                        tokio::time::sleep(std::time::Duration::from_millis(accept_delay)).await;
                    }
                    match sa.accept(&mut listener).await {
                        Ok(sess) => sim::spawn("listener-session", sim::in_group(2, app_session(sess, logs.clone(), accept_delay))),
                        Err(_) => break,
                    }
                }
                let _ = listener.on_close().await;
            }),
        );
    }
    let ch = pick(&[0u16, 3]);
    let h = pick(&[0u32, 7]);
    let err = || if with_error { Some(peer::error("amqp:internal-error", Some("gone-before-you-looked"))) } else { None };
    let begin = peer::perf_frame(ch, &peer::begin(None, 0, 5000, 5000), &[]);
    let mut a = if peer_is_sender { AttachArgs::sender("early", h) } else { AttachArgs::receiver("early", h) };
    if peer_is_sender {
        a.initial_delivery_count = Some(0);
    }
    let attach = peer::perf_frame(ch, &peer::attach(&a), &[]);
    let detach = peer::perf_frame(ch, &peer::detach(h, closed, err()), &[]);
    let mut ep_channel: Option<u16> = None;
    let mut frames: Vec<wire::WFrame> = Vec::new();
    match script {
        Script::LinkGoneBeforeAccept | Script::LinkLivedAndDied => {
            peer.send_raw(&begin).await;
            match peer.expect(wire::BEGIN).await {
                Some(b) => ep_channel = Some(b.channel),
                None => {
                    sim::violation("begin-not-answered", "the listener did not answer the begin".into());
                    return;
                }
            }
            let mut bytes = attach.clone();
            if script == Script::LinkLivedAndDied {
                // a pre-settled delivery needs no credit from a receiver that has not spoken yet? It does:
                // the transfer is sent without credit, which a listener may refuse by detaching the link
                // with an error - both are "the link is gone"; what matters here is what follows
                let t = TransferArgs { handle: h, delivery_id: Some(0), delivery_tag: Some(b"t0".to_vec()), message_format: Some(0), settled: Some(true), more: Some(false), ..Default::default() };
                bytes.extend_from_slice(&peer::perf_frame(ch, &peer::transfer(&t), &message_bytes("early#1")));
                sim::fault("transfer-pipelined-behind-the-attach");
            }
            bytes.extend_from_slice(&detach);
            peer.send_raw(&bytes).await;
            sim::fault("detach-pipelined-behind-the-attach");
        }
        Script::AllBeforeSessionAccept => {
            let mut bytes = begin.clone();
            bytes.extend_from_slice(&attach);
            bytes.extend_from_slice(&detach);
            peer.send_raw(&bytes).await;
            sim::fault("begin-attach-detach-in-one-write");
        }
        Script::SessionGoneBeforeAccept => {
            let mut bytes = begin.clone();
            bytes.extend_from_slice(&peer::perf_frame(ch, &peer::end(err()), &[]));
            peer.send_raw(&bytes).await;
            sim::fault("end-pipelined-behind-the-begin");
        }
    }
    // let the listener and its application do whatever they do with that (an application that
    // sleeps before it accepts counts as blocked: wait for it first)
    tokio::time::sleep(std::time::Duration::from_millis(accept_delay * 4 + 20)).await;
    if !peer::settle(&mut peer, &net, |f| frames.push(f.clone())).await {
        if !sim::has_violation() {
            sim::violation("no-quiescence", format!("the listener did not come to rest (eof={} read-error={:?})", peer.eof, peer.read_error));
        }
        return;
    }
    frames.extend(std::mem::take(&mut peer.skipped));
    mon.borrow_mut().sync();
    if sim::has_violation() {
        return;
    }
    for f in &frames {
        if f.code == wire::BEGIN && ep_channel.is_none() {
            ep_channel = Some(f.channel);
        }
        if f.code == wire::CLOSE {
            // (a defect found here and repaired: the session engine, started when the application accepts, finds the
            // pipelined end, answers and releases its slot through the control channel, which can
            // overtake the begin (and end) it queued on the frame channel: the connection engine then
            // finds no session for that begin and closes the connection with amqp:not-found; the signature
            // names that case should it come back)
            let cond = wire::error_condition(f.perf.as_ref().unwrap().field(0)).unwrap_or_default();
            let sig = if script == Script::SessionGoneBeforeAccept && cond == "amqp:not-found" { "end-pipelined-before-the-listener-accepted-the-session" } else { "" };
            sim::violation_sig("connection-torn-down", sig, format!("the listener closed the connection: {}", wire::describe_frame(f)));
            return;
        }
    }
    let ended_by_listener = frames.iter().any(|f| f.code == wire::END);
    if script == Script::SessionGoneBeforeAccept {
        // a begin the listener answered obliges it to answer the end too
        let began = frames.iter().any(|f| f.code == wire::BEGIN);
        if began && !ended_by_listener {
            sim::violation("peer-end-not-answered", "the peer sent begin and end in one write; the listener answered the begin and never the end".into());
            return;
        }
        if began {
            sim::probe("pipelined-end-answered");
        }
    } else {
        if ended_by_listener {
            // (a defect found here and repaired, ed87a93: a detach for a link whose attach was still waiting
            // for the application's accept was taken for a detach of an unattached handle; the signature
            // names that case should it come back)
            let unattached = frames.iter().filter(|f| f.code == wire::END).all(|f| wire::error_condition(f.perf.as_ref().unwrap().field(0)).as_deref() == Some("amqp:session:unattached-handle"));
            let sig = if unattached { "detach-pipelined-before-the-listener-accepted-the-link" } else { "" };
            sim::violation_sig("session-torn-down", sig, format!("a link that came and went before the application looked made the listener end the session: {:?}", frames.iter().filter(|f| f.code == wire::END).map(wire::describe_frame).collect::<Vec<_>>()));
            return;
        }
        // if the listener attached the link, the peer's detach has to be answered by now: the
        // application's next operation on the link has run (everything is at rest)
        let attached = frames.iter().any(|f| f.code == wire::ATTACH && f.perf.as_ref().unwrap().field(0).as_str() == Some("early"));
        let detaches: Vec<&wire::WFrame> = frames.iter().filter(|f| f.code == wire::DETACH).collect();
        if attached {
            sim::probe("pipelined-link-was-attached-by-the-listener");
            match detaches.first() {
                None => {
                    sim::violation(
                        "peer-detach-not-answered",
                        format!("the listener attached link 'early' although the peer's detach was already there, and never answered that detach (application log {:?})", logs.borrow().get("early")),
                    );
                    return;
                }
                Some(d) => {
                    let dc = d.perf.as_ref().unwrap().field(1).as_bool().unwrap_or(false);
                    // a refusal of the early transfer (no credit had been issued) is a closing detach with an error: also an answer
                    let refused = !wire::error_condition(d.perf.as_ref().unwrap().field(2)).is_none();
                    if dc != closed && !refused {
                        sim::violation("detach-not-answered-in-kind", format!("the peer's detach had closed={}, the listener answered with closed={}", closed, dc));
                        return;
                    }
                    sim::probe("pipelined-detach-answered-in-kind");
                }
            }
        }
    }
    // the session and the connection are still good: a sibling on the same handle / channel works
    let (ch2, new_session) = if script == Script::SessionGoneBeforeAccept { (ch, true) } else { (ch, false) };
    if new_session {
        peer.send_raw(&begin).await;
        match peer.expect(wire::BEGIN).await {
            Some(_) => sim::probe("channel-usable-after-pipelined-end"),
            None => {
                sim::violation("sibling-session-refused", "after begin + end in one write the listener does not answer another begin on that channel".into());
                return;
            }
        }
    }
    // for a non-closing detach the link name stays in use (suspended link); the sibling gets another name anyway
    let sib = AttachArgs { initial_delivery_count: Some(0), ..AttachArgs::sender("sibling", h) };
    peer.send(ch2, &peer::attach(&sib)).await;
    let deadline = tokio::time::Instant::now() + sim::OP_DEADLINE;
    let mut credit = false;
    let mut attached = false;
    while tokio::time::Instant::now() < deadline && !(credit && attached) {
        match peer.recv_within(1000).await {
            Some(wire::Item::Frame(f)) => {
                let p = match &f.perf {
                    Some(p) => p,
                    None => continue,
                };
                if f.code == wire::ATTACH && p.field(0).as_str() == Some("sibling") {
                    attached = true;
                } else if f.code == wire::FLOW && p.field(4).as_u32().is_some() && attached {
                    credit = p.field(6).as_u32().unwrap_or(0) > 0;
                } else if f.code == wire::END || f.code == wire::CLOSE || (f.code == wire::DETACH && attached) {
                    sim::violation("sibling-link-refused", format!("attaching a sibling link on the handle the early link had used was answered with {}", wire::describe_frame(&f)));
                    return;
                }
            }
            Some(_) => {}
            None => {
                if peer.eof || peer.read_error.is_some() {
                    break;
                }
            }
        }
    }
    if !(attached && credit) {
        sim::violation("sibling-link-refused", format!("a sibling link on the same handle did not come up: attach answered={} credit={} (eof={})", attached, credit, peer.eof));
        return;
    }
    let t = TransferArgs { handle: h, delivery_id: Some(if script == Script::LinkLivedAndDied { 1 } else { 0 }), delivery_tag: Some(b"s1".to_vec()), message_format: Some(0), settled: Some(true), more: Some(false), ..Default::default() };
    peer.send_with_payload(ch2, &peer::transfer(&t), &message_bytes("sibling#1")).await;
    if !peer::settle(&mut peer, &net, |_| {}).await {
        return;
    }
    {
        let l = logs.borrow();
        let got = l.get("sibling").map(|x| x.received.clone()).unwrap_or_default();
        if got != vec!["sibling#1".to_string()] {
            sim::violation("sibling-link-broken", format!("a message sent on the sibling link did not reach its receiver: {:?} (all links: {:?})", got, *l));
            return;
        }
        sim::probe("sibling-link-works");
        for (name, x) in l.iter() {
            for m in &x.received {
                if !m.starts_with(&format!("{}#", name)) {
                    sim::violation("message-on-wrong-link", format!("receiver {:?} returned {:?}", name, m));
                    return;
                }
            }
        }
    }
    mon.borrow_mut().sync();
    if sim::has_violation() {
        return;
    }
    peer.send(ch2, &peer::end(None)).await;
    if peer.expect(wire::END).await.is_none() {
        sim::violation("peer-end-not-answered", "the peer's end was not answered with an end".into());
        return;
    }
    peer.send(0, &peer::close(None)).await;
    let _ = peer.drain_for(2000).await;
}
