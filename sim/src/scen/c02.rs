//! C02 — settlement: each send resolves exactly once, with the outcome the receiver
//! applied to that same delivery.
//!
//! (a) pair: a real receiver applies a seeded, distinguishable outcome to every
//!     delivery (one by one, in `*_all` batches, out of order, through the disposer,
//!     late) while the real sender keeps many batchable deliveries in flight.
//! (b) a scripted receiver produces arbitrary disposition histories against a real
//!     sender: ranges, ranges spanning links, duplicates, out-of-order, non-terminal
//!     first, unsettled-then-settled, ids never sent.
//! In rcv-settle-mode second the wire is checked for the sender's settling echo of
//! every terminal outcome.

use std::cell::RefCell;
use std::collections::BTreeMap;
use std::rc::Rc;

use fe2o3_amqp::acceptor::{LinkAcceptor, LinkEndpoint};
use fe2o3_amqp::link::receiver::CreditMode;
use fe2o3_amqp::types::definitions::{self, AmqpError, ReceiverSettleMode, SenderSettleMode};
use fe2o3_amqp::types::messaging::{Accepted, Body, Modified, Outcome, Rejected, Released};
use fe2o3_amqp::types::primitives::Value;
use fe2o3_amqp::{Delivery, Receiver, Sendable, Sender, Session};

use crate::chooser::{choice, pick};
use crate::msgs::{self, Msg};
use crate::peer::{self, AttachArgs, Peer, PeerSession};
use crate::refcodec::V;
use crate::sim;
use crate::wire::{self, Item, Models};
use crate::world::{self, EndpointCfg, Slot};

#[derive(Clone, Debug, PartialEq)]
pub enum Out {
    Accept,
    Reject(String),
    Release,
    Modify(bool, bool),
}

impl Out {
    pub fn draw(uid: u64) -> Out {
        match choice(5) {
            0 | 1 => Out::Accept,
            2 => Out::Reject(format!("rejected-{}", uid)),
            3 => Out::Release,
            _ => Out::Modify(choice(2) == 1, choice(2) == 1),
        }
    }
    pub fn matches(&self, o: &Outcome) -> bool {
        match (self, o) {
            (Out::Accept, Outcome::Accepted(_)) => true,
            (Out::Release, Outcome::Released(_)) => true,
            (Out::Reject(d), Outcome::Rejected(r)) => r.error.as_ref().and_then(|e| e.description.as_deref()) == Some(d.as_str()),
            (Out::Modify(f, u), Outcome::Modified(m)) => {
                m.delivery_failed.unwrap_or(false) == *f && m.undeliverable_here.unwrap_or(false) == *u
            }
            _ => false,
        }
    }
    fn error(d: &str) -> definitions::Error {
        definitions::Error::new(AmqpError::InternalError, Some(d.to_string()), None)
    }
    fn modified(f: bool, u: bool) -> Modified {
        Modified {
            delivery_failed: Some(f),
            undeliverable_here: Some(u),
            message_annotations: None,
        }
    }
    pub fn to_v(&self) -> V {
        match self {
            Out::Accept => peer::accepted(),
            Out::Release => peer::released(),
            Out::Reject(d) => peer::rejected(Some(d)),
            Out::Modify(f, u) => peer::modified(*f, *u),
        }
    }
}

#[derive(Default)]
struct SendLog {
    /// uid -> results observed (must end up with exactly one each)
    results: BTreeMap<u64, Vec<String>>,
    mismatches: Vec<String>,
    done: bool,
    /// uids whose outcome future the application dropped without looking at it
    discarded: Vec<u64>,
}

fn snd_mode(m: u32) -> SenderSettleMode {
    match m {
        1 => SenderSettleMode::Unsettled,
        2 => SenderSettleMode::Settled,
        _ => SenderSettleMode::Mixed,
    }
}

/// Sender application: every message batchable, outcomes awaited afterwards in a seeded order
/// `late`: (go_close, link_closed, torn_down) - the outcomes of the batchable sends are awaited only
/// after the link has been closed and the session and the connection are gone
fn spawn_sender(s: Sender, plan: Vec<(Msg, Out, bool)>, log: Rc<RefCell<SendLog>>, mode: u32, finished: Slot<()>, plain_allowed: bool, late: Option<(Slot<()>, Slot<()>, Slot<()>)>) {
    sim::spawn("app-sender", async move {
        let mut s = s;
        // the application is not interested in every outcome: it drops some of the futures
        // `send_batchable` hands out (the delivery is settled like any other all the same)
        let discard_some = late.is_none() && choice(4) == 0;
        let plain_allowed = plain_allowed && late.is_none();
        let mut futs = Vec::new();
        for (m, out, presettle) in plan.iter() {
            let uid = msgs::uid_of(m).unwrap();
            let sendable = Sendable::builder()
                .message(m.clone())
                .settled(if mode == 0 && *presettle { Some(true) } else { None })
                .build();
            let presettled = mode == 2 || (mode == 0 && *presettle);
            if plain_allowed && choice(3) == 0 {
                // plain send: resolves before the next one starts
                let r = sim::op(&format!("send uid {}", uid), s.send(sendable)).await;
                match r {
                    Some(r) => record(&log, uid, out, presettled, r.map_err(|e| format!("{:?}", e))),
                    None => return,
                }
            } else {
                match sim::op(&format!("send_batchable uid {}", uid), s.send_batchable(sendable)).await {
                    Some(Ok(f)) => {
                        if discard_some && choice(2) == 0 {
                            drop(f);
                            log.borrow_mut().discarded.push(uid);
                            sim::probe("outcome-future-discarded");
                        } else {
                            futs.push((uid, out.clone(), presettled, f))
                        }
                    }
                    Some(Err(e)) => {
                        log.borrow_mut().mismatches.push(format!("send_batchable uid {} failed: {:?}", uid, e));
                        return;
                    }
                    None => return,
                }
            }
        }
        let mut keep: Option<Sender> = Some(s);
        if let Some((go_close, link_closed, torn_down)) = late {
            go_close.take().await;
            if let Some(s) = keep.take() {
                let _ = sim::op("close before the outcomes are looked at", s.close()).await;
            }
            link_closed.put(());
            torn_down.take().await;
            sim::fault("outcomes-awaited-after-teardown");
        }
        // await the outstanding outcomes in a seeded order
        while !futs.is_empty() {
            let i = choice(futs.len() as u32) as usize;
            let (uid, out, presettled, f) = futs.remove(i);
            match sim::op(&format!("outcome of uid {}", uid), f).await {
                Some(r) => record(&log, uid, &out, presettled, r.map_err(|e| format!("{:?}", e))),
                None => return,
            }
        }
        log.borrow_mut().done = true;
        finished.put(());
        std::future::pending::<()>().await;
        drop(keep);
    });
}

fn record(log: &Rc<RefCell<SendLog>>, uid: u64, out: &Out, presettled: bool, r: Result<Outcome, String>) {
    let mut l = log.borrow_mut();
    l.results.entry(uid).or_default().push(format!("{:?}", r));
    match r {
        Ok(o) => {
            let want = if presettled { Out::Accept } else { out.clone() };
            if !want.matches(&o) {
                l.mismatches.push(format!(
                    "send of uid {} resolved with {:?}, but the receiver applied {:?} to that delivery{}",
                    uid,
                    o,
                    out,
                    if presettled { " (pre-settled: expected accepted)" } else { "" }
                ));
            }
        }
        Err(e) => l.mismatches.push(format!("send of uid {} failed: {}", uid, e)),
    }
}

/// Receiver application: applies the planned outcome to each delivery, in seeded groupings
fn spawn_receiver(mut r: Receiver, outs: BTreeMap<u64, Out>, n: usize, errors: Rc<RefCell<Vec<String>>>, finished: Slot<()>, strategy: u32) {
    sim::spawn("app-receiver", async move {
        let disposer = r.disposer();
        let mut held: Vec<(Delivery<Body<Value>>, Out)> = Vec::new();
        for k in 0..n {
            let d = match sim::op(&format!("recv #{}", k), r.recv::<Body<Value>>()).await {
                Some(Ok(d)) => d,
                Some(Err(e)) => {
                    errors.borrow_mut().push(format!("recv #{} failed: {:?}", k, e));
                    finished.put(());
                    return;
                }
                None => return,
            };
            let uid = msgs::uid_of(d.message()).unwrap_or(0);
            let out = match outs.get(&uid) {
                Some(o) => o.clone(),
                None => {
                    errors.borrow_mut().push(format!("received an unknown message uid {}", uid));
                    Out::Accept
                }
            };
            held.push((d, out));
            let flush = match strategy {
                0 => true,                       // one by one
                1 => held.len() >= 3,            // batches
                2 => choice(3) == 0,             // irregular, out of order
                3 => true,                       // via the disposer where possible
                _ => k + 1 == n,                 // late: everything at the end
            };
            if flush || k + 1 == n {
                if strategy == 2 || strategy == 4 {
                    // out of order
                    for i in (1..held.len()).rev() {
                        let j = choice(i as u32 + 1) as usize;
                        held.swap(i, j);
                    }
                }
                if strategy == 1 || strategy == 4 {
                    // group equal outcomes and use the *_all calls
                    let mut groups: Vec<(Out, Vec<Delivery<Body<Value>>>)> = Vec::new();
                    for (d, o) in held.drain(..) {
                        match groups.iter_mut().find(|(g, _)| *g == o) {
                            Some((_, v)) => v.push(d),
                            None => groups.push((o, vec![d])),
                        }
                    }
                    for (o, ds) in groups {
                        let res = match &o {
                            Out::Accept => r.accept_all(ds.iter()).await,
                            Out::Release => r.release_all(ds.iter()).await,
                            Out::Reject(desc) => r.reject_all(ds.iter(), Out::error(desc)).await,
                            Out::Modify(f, u) => r.modify_all(ds.iter(), Out::modified(*f, *u)).await,
                        };
                        if let Err(e) = res {
                            errors.borrow_mut().push(format!("dispose_all failed: {:?}", e));
                        }
                    }
                } else {
                    for (d, o) in held.drain(..) {
                        let res = match (&o, strategy) {
                            (Out::Accept, 3) => disposer.accept(&d).await,
                            (Out::Release, 3) => disposer.release(&d).await,
                            (Out::Accept, _) => r.accept(&d).await,
                            (Out::Release, _) => r.release(&d).await,
                            (Out::Reject(desc), _) => r.reject(&d, Out::error(desc)).await,
                            (Out::Modify(f, u), _) => r.modify(&d, Out::modified(*f, *u)).await,
                        };
                        if let Err(e) = res {
                            errors.borrow_mut().push(format!("dispose failed: {:?}", e));
                        }
                    }
                }
            }
        }
        finished.put(());
        // stay on the link: a close from the sender is answered
        match r.recv::<Body<Value>>().await {
            Ok(_) => errors.borrow_mut().push("a delivery beyond the planned ones arrived".into()),
            Err(_) => {
                let _ = tokio::time::timeout(std::time::Duration::from_secs(60), r.close()).await;
            }
        }
        std::future::pending::<()>().await;
    });
}

fn plan_messages(n: usize, uid: &mut u64) -> Vec<(Msg, Out, bool)> {
    (0..n)
        .map(|_| {
            *uid += 1;
            (msgs::gen_message(*uid, 300, 2), Out::draw(*uid), choice(4) == 1)
        })
        .collect()
}

/// Mode second: every terminal, unsettled disposition from the receiver must be echoed
/// by a settled disposition from the sender that covers the same delivery-ids.
fn check_echo(mon: &wire::Monitor, sender_dir: usize, rcv_second_links: bool) {
    if !rcv_second_links {
        return;
    }
    let rdir = 1 - sender_dir;
    let presettled: Vec<u32> = mon.ends[sender_dir].deliveries.iter().filter(|d| d.settled).map(|d| d.delivery_id).collect();
    let mut owed: Vec<u32> = Vec::new();
    let mut echoed: Vec<u32> = Vec::new();
    for st in &mon.log {
        if let Item::Frame(f) = &st.item {
            if f.code != wire::DISPOSITION {
                continue;
            }
            let p = f.perf.as_ref().unwrap();
            let first = p.field(1).as_u32().unwrap_or(0);
            let last = p.field(2).as_u32().unwrap_or(first);
            let settled = p.field(3).as_bool().unwrap_or(false);
            let terminal = matches!(p.field(4).descriptor_code(), Some(0x24..=0x27));
            let is_receiver_role = p.field(0).as_bool().unwrap_or(false);
            let n = last.wrapping_sub(first).min(10_000);
            if st.dir == rdir && is_receiver_role && !settled && terminal {
                for k in 0..=n {
                    let id = first.wrapping_add(k);
                    if presettled.contains(&id) {
                        // the sender settled this delivery when it sent it: a receiver that
                        // still reports on it has kept it in its unsettled state
                        sim::violation(
                            "presettled-delivery-retained-by-receiver",
                            format!("delivery {} was sent settled, yet the receiver still holds it unsettled and reports an outcome for it (and waits for a settling disposition that cannot come)", id),
                        );
                        return;
                    }
                    owed.push(id);
                }
            }
            if st.dir == sender_dir && !is_receiver_role && settled {
                for k in 0..=n {
                    echoed.push(first.wrapping_add(k));
                }
            }
        }
    }
    let missing: Vec<u32> = owed.iter().copied().filter(|id| !echoed.contains(id)).collect();
    if !missing.is_empty() {
        sim::violation(
            "settling-echo-missing",
            format!(
                "receiver settles second: it reported a terminal outcome for delivery-ids {:?}, the sender's settling dispositions cover {:?}; never settled: {:?}",
                owed, echoed, missing
            ),
        );
    } else if !owed.is_empty() {
        sim::probe("settling-echo-checked");
    }
}

// ---------------------------------------------------------------------------------------
// (a) pair

pub async fn run_pair() {
    let mut ccfg = EndpointCfg::default_cfg();
    let mut lcfg = EndpointCfg::default_cfg();
    ccfg.max_frame_size = pick(&[65536u32, 512, 1024]);
    lcfg.max_frame_size = pick(&[65536u32, 512, 1024]);
    let (nab, nba, nd) = world::draw_net(true);
    let client_sends = choice(2) == 0;
    let smode = choice(3);
    let rcv_second = choice(2) == 1;
    let n = 1 + choice(pick(&[4u32, 10, 20])) as usize;
    let credit = pick(&[200u32, 3, 1, 10]);
    // receiver strategies that hold deliveries back need a sender that does not wait for
    // each outcome before sending the next message
    let strategy = choice(5);
    let plain_allowed = strategy == 0 || strategy == 3;
    // ... and enough credit for everything they hold back
    let credit = if plain_allowed { credit } else { 200 };
    let mut uid = 40_000u64;
    let plan = plan_messages(n, &mut uid);
    // max-message-size in the client's attach: the sending link cuts larger messages into several
    // transfers of its own (link-level split); settlement is per delivery all the same
    let mms = pick(&[None, None, Some(100u64), Some(700)]);
    // the sender looks at the outcomes of its batchable sends only after everything is over: the
    // link closed, the session ended, the connection closed (they were all reported before that)
    let late_await = client_sends && choice(4) == 0;
    let late: Option<(Slot<()>, Slot<()>, Slot<()>)> = if late_await { Some((Slot::new(), Slot::new(), Slot::new())) } else { None };
    sim::set_config(format!(
        "variant=pair {} snd-mode={} rcv-second={} msgs={} credit={} strategy={} mms={:?} outcomes-awaited-after-teardown={} mfs={}/{} {}",
        if client_sends { "C>L" } else { "L>C" },
        smode,
        rcv_second,
        n,
        credit,
        strategy,
        mms,
        late_await,
        ccfg.max_frame_size,
        lcfg.max_frame_size,
        nd
    ));
    sim::mark_nontrivial();
    let mut pair = match world::open_pair(&ccfg, &lcfg, nab, nba, Models::none()).await {
        Some(p) => p,
        None => return,
    };
    let (mut csess, mut lsess) = match world::begin_pair(&ccfg, &lcfg, &mut pair).await {
        Some(x) => x,
        None => return,
    };
    let slog = Rc::new(RefCell::new(SendLog::default()));
    let rerrors: Rc<RefCell<Vec<String>>> = Rc::new(RefCell::new(Vec::new()));
    let outs: BTreeMap<u64, Out> = plan.iter().map(|(m, o, _)| (msgs::uid_of(m).unwrap(), o.clone())).collect();
    let sdone: Slot<()> = Slot::new();
    let rdone: Slot<()> = Slot::new();
    let rcv = if rcv_second { ReceiverSettleMode::Second } else { ReceiverSettleMode::First };
    let first_only_acceptor = !client_sends && choice(3) == 0;
    // a link in the other direction on the same session, its receiver settling second: the two
    // directions count their delivery-ids separately, both from 0
    let reverse: u64 = if client_sends && rcv_second && late.is_none() && choice(2) == 1 { 1 + choice(3) as u64 } else { 0 };
    let rev_results: Rc<RefCell<Vec<String>>> = Rc::new(RefCell::new(Vec::new()));
    let rev_done: Slot<()> = Slot::new();
    if reverse > 0 {
        sim::append_config(&format!(" reverse-link-deliveries={}", reverse));
        sim::probe("session-used-in-both-directions");
    }
    if first_only_acceptor {
        sim::append_config(" listener-link-acceptor=rcv-settle-mode-first-only");
        sim::probe("acceptor-supporting-first-only");
    }
    // listener side
    {
        let plan2 = plan.clone();
        let slog2 = slog.clone();
        let rerr2 = rerrors.clone();
        let outs2 = outs.clone();
        let sdone2 = sdone.clone();
        let rdone2 = rdone.clone();
        let rev_results2 = rev_results.clone();
        let rev_done2 = rev_done.clone();
        sim::spawn(
            "listener-session",
            sim::in_group(2, async move {
                // one listener in three says it supports rcv-settle-mode first only (falling back to it): what
                // the link negotiates is its business, but a receiver that goes on to report unsettled outcomes
                // is owed the settling echo all the same
                let acceptor = if first_only_acceptor {
                    LinkAcceptor::builder()
                        .supported_receiver_settle_modes(fe2o3_amqp::acceptor::SupportedReceiverSettleModes::First)
                        .fallback_receiver_settle_mode(ReceiverSettleMode::First)
                        .build()
                } else {
                    LinkAcceptor::new()
                };
                match sim::op("link accept", acceptor.accept(&mut lsess)).await {
                    Some(Ok(LinkEndpoint::Sender(s))) => spawn_sender(s, plan2, slog2, smode, sdone2, plain_allowed, None),
                    Some(Ok(LinkEndpoint::Receiver(mut r))) => {
                        r.set_credit_mode(CreditMode::Auto(credit));
                        let _ = r.set_credit(credit).await;
                        spawn_receiver(r, outs2, n, rerr2, rdone2, strategy)
                    }
                    Some(Err(e)) => {
                        sim::violation("attach-failed", format!("listener link accept failed: {:?}", e));
                        return;
                    }
                    None => return,
                }
                if reverse > 0 {
                    match sim::op("reverse link accept", acceptor.accept(&mut lsess)).await {
                        Some(Ok(LinkEndpoint::Sender(mut s))) => {
                            let (rr, rd) = (rev_results2.clone(), rev_done2.clone());
                            sim::spawn("listener-reverse-sender", async move {
                                let mut futs = Vec::new();
                                for i in 0..reverse {
                                    match sim::op(&format!("reverse send {}", i), s.send_batchable(msgs::gen_message(88_000 + i, 100, 1))).await {
                                        Some(Ok(f)) => futs.push(f),
                                        Some(Err(e)) => rr.borrow_mut().push(format!("send failed: {:?}", e)),
                                        None => return,
                                    }
                                }
                                for (i, f) in futs.into_iter().enumerate() {
                                    match sim::op(&format!("reverse outcome {}", i), f).await {
                                        Some(r) => rr.borrow_mut().push(format!("{:?}", r)),
                                        None => return,
                                    }
                                }
                                rd.put(());
                                std::future::pending::<()>().await;
                                drop(s);
                            });
                        }
                        Some(other) => {
                            sim::violation("attach-failed", format!("reverse link accept: {:?}", other.map(|_| ())));
                            return;
                        }
                        None => return,
                    }
                }
                let _ = tokio::time::timeout(std::time::Duration::from_secs(3600), lsess.on_end()).await;
            }),
        );
    }
    if client_sends {
        let r = sim::op(
            "attach sender",
            sim::in_group(
                1,
                {
                    let b = Sender::builder().name("l").target("q").sender_settle_mode(snd_mode(smode)).receiver_settle_mode(rcv);
                    match mms {
                        Some(m) => b.max_message_size(m).attach(&mut csess),
                        None => b.attach(&mut csess),
                    }
                },
            ),
        )
        .await;
        match r {
            Some(Ok(s)) => spawn_sender(s, plan.clone(), slog.clone(), smode, sdone.clone(), plain_allowed, late.clone()),
            Some(Err(e)) => {
                sim::violation("attach-failed", format!("{:?}", e));
                return;
            }
            None => return,
        }
    } else {
        let r = sim::op(
            "attach receiver",
            sim::in_group(
                1,
                {
                    let b = Receiver::builder()
                        .name("l")
                        .source("q")
                        .sender_settle_mode(snd_mode(smode))
                        .receiver_settle_mode(rcv)
                        .credit_mode(CreditMode::Auto(credit));
                    match mms {
                        Some(m) => b.max_message_size(m).attach(&mut csess),
                        None => b.attach(&mut csess),
                    }
                },
            ),
        )
        .await;
        match r {
            Some(Ok(r)) => spawn_receiver(r, outs.clone(), n, rerrors.clone(), rdone.clone(), strategy),
            Some(Err(e)) => {
                sim::violation("attach-failed", format!("{:?}", e));
                return;
            }
            None => return,
        }
    }
    if reverse > 0 {
        match sim::op("attach reverse receiver", sim::in_group(1, Receiver::builder().name("rev").source("q").receiver_settle_mode(ReceiverSettleMode::Second).credit_mode(CreditMode::Auto(10)).attach(&mut csess))).await {
            Some(Ok(mut r)) => {
                sim::spawn("client-reverse-receiver", async move {
                    for _ in 0..reverse {
                        match r.recv::<fe2o3_amqp::types::messaging::Body<Value>>().await {
                            Ok(d) => {
                                let _ = r.accept(&d).await;
                            }
                            Err(_) => break,
                        }
                    }
                    std::future::pending::<()>().await;
                    drop(r);
                });
            }
            Some(Err(e)) => {
                sim::violation("attach-failed", format!("reverse receiver: {:?}", e));
                return;
            }
            None => return,
        }
    }
    if sim::op("receiver application", rdone.take()).await.is_none() {
        return;
    }
    if !rerrors.borrow().is_empty() {
        sim::violation("receiver-error", format!("{:?}", rerrors.borrow()));
        return;
    }
    if let Some((go_close, link_closed, torn_down)) = &late {
        // every outcome has reached the sending endpoint; now the link, the session and the connection go
        world::quiesce_pair(&pair.net).await;
        go_close.put(());
        if sim::op("sender closes its link", link_closed.take()).await.is_none() {
            return;
        }
        let _ = sim::op("session end", csess.end()).await;
        let _ = sim::op("connection close", pair.client.close()).await;
        torn_down.put(());
    }
    if sim::op("sender application", sdone.take()).await.is_none() {
        return;
    }
    judge_sender(&slog, &plan);
    if sim::has_violation() {
        return;
    }
    if reverse > 0 {
        if sim::op("reverse sender application", rev_done.take()).await.is_none() {
            return;
        }
        let rr = rev_results.borrow();
        if rr.len() as u64 != reverse || rr.iter().any(|r| !r.contains("Accepted")) {
            sim::violation("wrong-outcome", format!("the client accepted the {} deliveries of the link in the other direction; their sends resolved as {:?}", reverse, *rr));
            return;
        }
    }
    // let the settling echoes reach the wire
    world::quiesce_pair(&pair.net).await;
    {
        let mut m = pair.mon.borrow_mut();
        m.sync();
        // the negotiated mode is what the attach frames say
        let negotiated_second = m.ends.iter().any(|e| e.sessions.iter().any(|s| s.links.iter().any(|l| !l.is_sender && l.rcv_settle_mode == 1)))
            && m.ends.iter().any(|e| e.sessions.iter().any(|s| s.links.iter().any(|l| l.is_sender && l.rcv_settle_mode == 1)));
        check_echo(&m, if client_sends { 0 } else { 1 }, negotiated_second);
    }
    let _ = tokio::time::timeout(std::time::Duration::from_secs(30), csess.end()).await;
    let _ = tokio::time::timeout(std::time::Duration::from_secs(30), pair.client.close()).await;
}

fn judge_sender(slog: &Rc<RefCell<SendLog>>, plan: &[(Msg, Out, bool)]) {
    let l = slog.borrow();
    if let Some(m) = l.mismatches.first() {
        sim::violation("wrong-outcome", format!("{} (all: {:?})", m, l.mismatches));
        return;
    }
    for (m, _, _) in plan {
        let uid = msgs::uid_of(m).unwrap();
        let n = l.results.get(&uid).map(|v| v.len()).unwrap_or(0);
        if l.discarded.contains(&uid) {
            continue;
        }
        if n != 1 {
            sim::violation("resolved-not-exactly-once", format!("send of uid {} resolved {} times: {:?}", uid, n, l.results.get(&uid)));
            return;
        }
    }
}

// ---------------------------------------------------------------------------------------
// (b) scripted receiver against a real sender

struct PLink {
    ep_handle: u32,
    peer_handle: u32,
    /// delivery-id -> (uid, settled by sender)
    deliveries: Vec<(u32, u64, bool)>,
    open: Option<(u32, Vec<u8>, bool)>,
}

pub async fn run_scripted_receiver() {
    let ccfg = EndpointCfg::default_cfg();
    let (nab, nba, nd) = world::draw_net(true);
    let nlinks = 1 + choice(3) as usize;
    let rcv_second = choice(2) == 1;
    let smode = pick(&[1u32, 1, 0]);
    let peer_window = pick(&[5000u32, 5000, 1, 2, 3]);
    let mut uid = 70_000u64;
    let plans: Vec<Vec<(Msg, Out, bool)>> = (0..nlinks).map(|_| plan_messages(1 + choice(6) as usize, &mut uid)).collect();
    sim::set_config(format!(
        "variant=scripted-receiver links={} msgs={:?} rcv-second={} snd-mode={} peer-incoming-window={} {}",
        nlinks,
        plans.iter().map(|p| p.len()).collect::<Vec<_>>(),
        rcv_second,
        smode,
        peer_window,
        nd
    ));
    sim::mark_nontrivial();
    let cvp = match peer::client_vs_peer(&ccfg, peer::open("peer", Some(65536), Some(255), None), nab, nba, Models::none()).await {
        Some(x) => x,
        None => return,
    };
    let peer::ClientVsPeer { mut client, mut peer, net, mon, .. } = cvp;
    // a small incoming window at the scripted receiver: the endpoint's session holds transfers back
    // until the peer's next session flow; the peer's handles differ from the endpoint's
    let mut ps = PeerSession::new(0, 10, peer_window, 5000);
    let begin_fut = sim::in_group(1, Session::builder().begin(&mut client));
    let peer_begin = async {
        let b = peer.expect(wire::BEGIN).await?;
        ps.on_remote_begin(b.perf.as_ref().unwrap(), b.channel);
        peer.send(ps.channel, &peer::begin(Some(b.channel), ps.next_outgoing_id, ps.incoming_window, ps.outgoing_window)).await;
        Some(())
    };
    let mut session = match sim::op("begin", world::join2(begin_fut, peer_begin)).await {
        Some((Ok(s), Some(()))) => s,
        Some((r, _)) => {
            sim::violation("begin-failed", format!("{:?}", r.map(|_| ())));
            return;
        }
        None => return,
    };
    let mut links: Vec<PLink> = Vec::new();
    let mut logs = Vec::new();
    let mut dones = Vec::new();
    for (i, plan) in plans.iter().enumerate() {
        let name = format!("s{}", i);
        let peer_handle = 5 + 3 * i as u32;
        let att = sim::in_group(
            1,
            Sender::builder()
                .name(name.clone())
                .target("q")
                .sender_settle_mode(snd_mode(smode))
                .receiver_settle_mode(if rcv_second { ReceiverSettleMode::Second } else { ReceiverSettleMode::First })
                .attach(&mut session),
        );
        let mut ep_handle = 0;
        let peer_att = async {
            let a = peer.expect(wire::ATTACH).await?;
            ep_handle = a.perf.as_ref().unwrap().field(1).as_u32().unwrap_or(0);
            let mut args = AttachArgs::receiver(&name, peer_handle);
            args.rcv_settle_mode = Some(if rcv_second { 1 } else { 0 });
            args.snd_settle_mode = Some(match smode {
                1 => 0,
                2 => 1,
                _ => 2,
            });
            peer.send(ps.channel, &peer::attach(&args)).await;
            let mut f = ps.flow_args();
            f.handle = Some(peer_handle);
            f.delivery_count = Some(0);
            f.link_credit = Some(1000);
            peer.send(ps.channel, &peer::flow(&f)).await;
            Some(())
        };
        match sim::op("attach sender", world::join2(att, peer_att)).await {
            Some((Ok(s), Some(()))) => {
                let log = Rc::new(RefCell::new(SendLog::default()));
                let done: Slot<()> = Slot::new();
                spawn_sender(s, plan.clone(), log.clone(), smode, done.clone(), false, None);
                logs.push(log);
                dones.push(done);
                links.push(PLink { ep_handle, peer_handle, deliveries: Vec::new(), open: None });
            }
            Some((r, _)) => {
                sim::violation("attach-failed", format!("{:?}", r.map(|_| ())));
                return;
            }
            None => return,
        }
    }
    let total: usize = plans.iter().map(|p| p.len()).sum();
    let uid_out: BTreeMap<u64, Out> = plans.iter().flatten().map(|(m, o, _)| (msgs::uid_of(m).unwrap(), o.clone())).collect();
    // the peer's view: which delivery-ids are still waiting for a terminal outcome
    let mut pending: Vec<(u32, u64)> = Vec::new();
    let mut disposed = 0usize;
    let mut presettled = 0usize;
    let mut payloads: BTreeMap<u32, Vec<u8>> = BTreeMap::new();
    let mut settled_ids: Vec<u32> = Vec::new();
    let deadline = tokio::time::Instant::now() + sim::OP_DEADLINE;
    while disposed + presettled < total {
        if sim::has_violation() {
            return;
        }
        if tokio::time::Instant::now() >= deadline || peer.eof {
            sim::violation(
                "deliveries-missing",
                format!("{} of {} deliveries reached the scripted receiver (eof={})", disposed + presettled + pending.len(), total, peer.eof),
            );
            return;
        }
        // transfers that arrived while the peer was waiting for a later attach
        let mut frames: Vec<wire::WFrame> = std::mem::take(&mut peer.skipped);
        frames.extend(peer.drain_for(pick(&[1u64, 5, 20])).await);
        let mut got_transfer = false;
        for f in frames {
            let p = match &f.perf {
                Some(p) => p,
                None => continue,
            };
            if f.code == wire::TRANSFER {
                ps.on_transfer_received();
                got_transfer = true;
                let h = p.field(0).as_u32().unwrap_or(0);
                let more = p.field(5).as_bool().unwrap_or(false);
                if let Some(l) = links.iter_mut().find(|l| l.ep_handle == h) {
                    let (id, mut buf, mut settled) = match l.open.take() {
                        Some(x) => x,
                        None => (p.field(1).as_u32().unwrap_or(0), Vec::new(), false),
                    };
                    buf.extend_from_slice(&f.payload);
                    settled = settled || p.field(4).as_bool().unwrap_or(false);
                    if more {
                        l.open = Some((id, buf, settled));
                    } else {
                        // identify the message by its payload
                        let uid = plans
                            .iter()
                            .flatten()
                            .find(|(m, _, _)| msgs::encode(m) == buf)
                            .and_then(|(m, _, _)| msgs::uid_of(m))
                            .unwrap_or(0);
                        l.deliveries.push((id, uid, settled));
                        payloads.insert(id, buf);
                        if settled {
                            presettled += 1;
                        } else {
                            pending.push((id, uid));
                        }
                    }
                }
            }
        }
        if peer_window < 5000 && got_transfer {
            // reopen the window for what the endpoint's session is holding back
            peer.send(ps.channel, &peer::flow(&ps.flow_args())).await;
            sim::probe("peer-window-reopened");
        }
        if pending.is_empty() {
            continue;
        }
        // one seeded disposition action
        match choice(9) {
            0 | 1 => {
                // single id, terminal, settled (first) or unsettled (second)
                let i = choice(pending.len() as u32) as usize;
                let (id, uid) = pending.remove(i);
                let out = &uid_out[&uid];
                peer.send(ps.channel, &peer::disposition(true, id, None, !rcv_second, Some(out.to_v()))).await;
                if !rcv_second {
                    settled_ids.push(id);
                }
                disposed += 1;
            }
            2 => {
                // a range over consecutive pending ids that share an outcome (may span links)
                pending.sort();
                let (id0, uid0) = pending[0];
                let out0 = uid_out[&uid0].clone();
                let mut k = 1;
                while k < pending.len() && pending[k].0 == id0.wrapping_add(k as u32) && uid_out[&pending[k].1] == out0 {
                    k += 1;
                }
                let last = id0.wrapping_add(k as u32 - 1);
                peer.send(ps.channel, &peer::disposition(true, id0, Some(last), !rcv_second, Some(out0.to_v()))).await;
                for (id, _) in pending.drain(..k) {
                    if !rcv_second {
                        settled_ids.push(id);
                    }
                }
                disposed += k;
                if k > 1 {
                    sim::probe("range-disposition");
                }
            }
            7 | 8 => {
                // a range whose ends are pending deliveries with the same outcome and which also
                // covers ids that are not pending any more (pre-settled, or settled earlier): legal,
                // the sender has no record for those and must simply skip them
                pending.sort();
                let i = choice(pending.len() as u32) as usize;
                let out0 = uid_out[&pending[i].1].clone();
                let mut j = i;
                while j + 1 < pending.len() && uid_out[&pending[j + 1].1] == out0 {
                    j += 1;
                }
                let (first, last) = (pending[i].0, pending[j].0);
                let holes = (last.wrapping_sub(first) as usize + 1) - (j - i + 1);
                peer.send(ps.channel, &peer::disposition(true, first, Some(last), true, Some(out0.to_v()))).await;
                for (id, _) in pending.drain(i..=j) {
                    settled_ids.push(id);
                }
                disposed += j - i + 1;
                if holes > 0 {
                    sim::probe("range-over-already-settled-ids");
                }
            }
            3 => {
                // non-terminal state first
                let (id, _) = pending[choice(pending.len() as u32) as usize];
                peer.send(ps.channel, &peer::disposition(true, id, None, false, Some(peer::received_state(1, 3)))).await;
                sim::probe("non-terminal-disposition-first");
            }
            4 => {
                // an id that was never sent
                peer.send(ps.channel, &peer::disposition(true, 900_000 + choice(50), None, true, Some(peer::accepted()))).await;
                sim::probe("disposition-for-unknown-id");
            }
            5 => {
                // repeat a disposition for something already settled, with a different outcome
                if let Some(&id) = settled_ids.first() {
                    peer.send(ps.channel, &peer::disposition(true, id, None, true, Some(peer::rejected(Some("repeated"))))).await;
                    sim::probe("repeated-disposition-for-settled-id");
                }
            }
            _ => {
                // unsettled terminal now, settled later (legal in both modes)
                let i = choice(pending.len() as u32) as usize;
                let (id, uid) = pending.remove(i);
                let out = &uid_out[&uid];
                peer.send(ps.channel, &peer::disposition(true, id, None, false, Some(out.to_v()))).await;
                tokio::time::sleep(std::time::Duration::from_millis(choice(20) as u64)).await;
                peer.send(ps.channel, &peer::disposition(true, id, None, true, Some(out.to_v()))).await;
                settled_ids.push(id);
                disposed += 1;
                sim::probe("unsettled-then-settled");
            }
        }
    }
    for (i, d) in dones.iter().enumerate() {
        let fut = world::join2(d.take(), async {
            // keep reading so that echoes and flows do not pile up
            loop {
                let _ = peer.drain_for(50).await;
                if logs[i].borrow().done || sim::has_violation() {
                    break;
                }
            }
        });
        if sim::op("sender application", fut).await.is_none() {
            return;
        }
    }
    for (log, plan) in logs.iter().zip(plans.iter()) {
        judge_sender(log, plan);
        if sim::has_violation() {
            return;
        }
    }
    if !peer::settle(&mut peer, &net, |_| {}).await {
        return;
    }
    {
        let mut m = mon.borrow_mut();
        m.sync();
        check_echo(&m, 0, rcv_second);
    }
    let td = async {
        let _ = tokio::time::timeout(std::time::Duration::from_secs(20), session.end()).await;
        let _ = tokio::time::timeout(std::time::Duration::from_secs(20), client.close()).await;
    };
    let _ = world::join2(td, peer::serve_teardown(&mut peer, 30_000)).await;
    let _ = (Accepted {}, Released {}, Rejected { error: None });
}
