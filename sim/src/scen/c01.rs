//! C01 — end-to-end delivery over a real client ↔ real listener pair.
//!
//! Reference model: one FIFO vector per link. Each received message must be the
//! next expected one, structurally equal and byte-for-byte equal after
//! re-encoding. No cuts, no corruption ("as long as the connection stays up").

use std::cell::RefCell;
use std::rc::Rc;

use fe2o3_amqp::acceptor::{LinkAcceptor, LinkEndpoint};
use fe2o3_amqp::link::receiver::CreditMode;
use fe2o3_amqp::types::definitions::{ReceiverSettleMode, SenderSettleMode};
use fe2o3_amqp::types::messaging::{Body, Outcome};
use fe2o3_amqp::types::primitives::Value;
use fe2o3_amqp::{Receiver, Sendable, Sender};

use crate::chooser::{choice, pick};
use crate::msgs::{self, Msg};
use crate::sim;
use crate::world::{self, EndpointCfg, Slot};

#[derive(Clone, Debug)]
pub struct LinkPlan {
    pub name: String,
    /// true: the client is the sender
    pub client_sends: bool,
    pub snd_mode: u32, // 0 mixed, 1 unsettled, 2 settled
    pub rcv_second: bool,
    pub credit: Option<u32>, // None = manual
    pub auto_accept: bool,
    /// max-message-size the client puts in its attach: the sending link splits larger
    /// payloads into several transfers at link level (the second splitting layer)
    pub mms: Option<u64>,
    pub msgs: Vec<Msg>,
    pub presettle: Vec<bool>,
    pub send_kind: Vec<u32>,
}

#[derive(Default)]
pub struct LinkLog {
    pub received: Vec<Msg>,
    pub send_done: usize,
    pub recv_done: bool,
    pub sender_done: bool,
    pub recv_error: Option<String>,
}

pub type Logs = Rc<RefCell<Vec<LinkLog>>>;

fn snd_mode(m: u32) -> SenderSettleMode {
    match m {
        1 => SenderSettleMode::Unsettled,
        2 => SenderSettleMode::Settled,
        _ => SenderSettleMode::Mixed,
    }
}

pub async fn sender_role(idx: usize, mut sender: Sender, plan: LinkPlan, logs: Logs, check_outcome: bool) {
    let mut pending = Vec::new();
    for (i, m) in plan.msgs.iter().enumerate() {
        let sendable = Sendable::builder()
            .message(m.clone())
            .settled(if plan.snd_mode == 0 && plan.presettle[i] { Some(true) } else { None })
            .build();
        let what = format!("send #{} on {}", i, plan.name);
        match plan.send_kind[i] {
            0 => {
                let r = match sim::op(&what, sender.send(sendable)).await {
                    Some(r) => r,
                    None => return,
                };
                match r {
                    Ok(Outcome::Accepted(_)) => {}
                    other => {
                        if check_outcome {
                            sim::violation("send-result", format!("{}: expected accepted, got {:?}", what, other));
                            return;
                        }
                    }
                }
            }
            1 => {
                let r = match sim::op(&what, sender.send_ref(&sendable)).await {
                    Some(r) => r,
                    None => return,
                };
                match r {
                    Ok(Outcome::Accepted(_)) => {}
                    other => {
                        if check_outcome {
                            sim::violation("send-result", format!("{}: expected accepted, got {:?}", what, other));
                            return;
                        }
                    }
                }
            }
            _ => {
                let r = match sim::op(&what, sender.send_batchable(sendable)).await {
                    Some(r) => r,
                    None => return,
                };
                match r {
                    Ok(fut) => pending.push((i, fut)),
                    Err(e) => {
                        sim::violation("send-result", format!("{}: send_batchable failed: {:?}", what, e));
                        return;
                    }
                }
            }
        }
        logs.borrow_mut()[idx].send_done = i + 1;
        if choice(4) == 1 {
            sim::yield_now().await;
        }
    }
    for (i, fut) in pending {
        let what = format!("outcome of batchable send #{} on {}", i, plan.name);
        match sim::op(&what, fut).await {
            Some(Ok(Outcome::Accepted(_))) => {}
            Some(other) => {
                if check_outcome {
                    sim::violation("send-result", format!("{}: expected accepted, got {:?}", what, other));
                    return;
                }
            }
            None => return,
        }
    }
    logs.borrow_mut()[idx].sender_done = true;
    // teardown is not part of C01: bounded, unchecked
    let _ = tokio::time::timeout(std::time::Duration::from_secs(30), sender.close()).await;
}

pub async fn receiver_role(idx: usize, mut receiver: Receiver, plan: LinkPlan, logs: Logs) {
    let n = plan.msgs.len();
    match plan.credit {
        Some(c) => {
            receiver.set_credit_mode(CreditMode::Auto(c));
            if sim::op("set_credit", receiver.set_credit(c)).await.is_none() {
                return;
            }
        }
        None => {
            receiver.set_credit_mode(CreditMode::Manual);
            // Drop whatever default credit the link was created with down to a seeded value
            let c = 1 + choice(4);
            if sim::op("set_credit", receiver.set_credit(c)).await.is_none() {
                return;
            }
        }
    }
    receiver.set_auto_accept(plan.auto_accept);
    let mut got = 0usize;
    let mut since_credit = 0u32;
    let mut manual_credit = receiver.credit();
    while got < n {
        let what = format!("recv #{} on {}", got, plan.name);
        let d = match sim::op(&what, receiver.recv::<Body<Value>>()).await {
            Some(Ok(d)) => d,
            Some(Err(e)) => {
                // judged by the main task, which can see the wire
                logs.borrow_mut()[idx].recv_error = Some(format!("{}: {:?}", what, e));
                return;
            }
            None => return,
        };
        got += 1;
        since_credit += 1;
        if !plan.auto_accept {
            let what = format!("accept #{} on {}", got - 1, plan.name);
            match sim::op(&what, receiver.accept(&d)).await {
                Some(Ok(())) => {}
                Some(Err(e)) => {
                    sim::violation("accept-error", format!("{}: {:?}", what, e));
                    return;
                }
                None => return,
            }
        }
        logs.borrow_mut()[idx].received.push(d.into_message());
        if plan.credit.is_none() && since_credit >= manual_credit && got < n {
            sim::probe("manual-credit-refill");
            manual_credit = 1 + choice(5);
            since_credit = 0;
            if sim::op("set_credit", receiver.set_credit(manual_credit)).await.is_none() {
                return;
            }
        }
    }
    logs.borrow_mut()[idx].recv_done = true;
    // Anything beyond the expected messages is a duplicate or an invention
    if let Ok(Ok(extra)) =
        tokio::time::timeout(std::time::Duration::from_millis(50), receiver.recv::<Body<Value>>()).await
    {
        sim::violation(
            "extra-delivery",
            format!("{} delivered an extra message {}", plan.name, msgs::describe(extra.message())),
        );
        return;
    }
    let _ = tokio::time::timeout(std::time::Duration::from_secs(30), receiver.close()).await;
}

pub fn draw_plans(nlinks: usize, frame_body: usize, max_msgs: u32, uid_base: &mut u64) -> Vec<LinkPlan> {
    let mut plans = Vec::new();
    for l in 0..nlinks {
        let n = 1 + choice(max_msgs) as usize;
        let mut msgs_v = Vec::new();
        let mut presettle = Vec::new();
        let mut send_kind = Vec::new();
        let big = choice(3) == 1;
        // 64/300: smaller than every frame size (link-level split only); 700/1500: larger than the
        // small frame sizes, so that a link-level piece is split again by the transport
        let mms = pick(&[None, None, None, Some(64u64), Some(300), Some(700), Some(1500)]);
        // with link-level splitting keep the number of transfers per message moderate, so
        // that the frame volume stays far below the roomy channel capacities
        let frame_body = match mms {
            Some(m) => frame_body.min(m as usize * 6),
            None => frame_body,
        };
        for _ in 0..n {
            *uid_base += 1;
            msgs_v.push(msgs::gen_message(*uid_base, frame_body, if big { 4 } else { 2 }));
            presettle.push(choice(3) == 1);
            send_kind.push(choice(3));
        }
        plans.push(LinkPlan {
            name: format!("link-{}", l),
            client_sends: choice(2) == 0,
            snd_mode: choice(3),
            rcv_second: choice(3) == 1,
            credit: match choice(6) {
                0 => Some(200),
                1 => Some(1),
                2 => Some(2),
                3 => Some(3),
                4 => Some(10),
                _ => None,
            },
            auto_accept: choice(3) == 1,
            mms,
            msgs: msgs_v,
            presettle,
            send_kind,
        });
    }
    plans
}

/// Signature of the known way a delivery gets lost on the unchanged tree: the
/// sender's detach went out while transfers of that link were still held back by the
/// session (peer's incoming window exhausted), so the detach overtook them.
fn loss_signature(plan: &LinkPlan, log: &LinkLog, mon: &crate::wire::Monitor, peer_incoming_window: u32) -> &'static str {
    let d = if plan.client_sends { 0 } else { 1 };
    let on_wire = mon.deliveries_on(d, &plan.name);
    let detached = mon.ends[d]
        .sessions
        .iter()
        .flat_map(|s| s.links.iter())
        .filter(|l| l.name == plan.name && l.is_sender && l.detached)
        .map(|l| l.detach_seq)
        .next();
    match detached {
        Some(seq) => {
            let before = on_wire.iter().filter(|x| x.first_seq < seq).count();
            if before < log.send_done && log.send_done == plan.msgs.len() && peer_incoming_window <= 64 {
                "detach-overtakes-window-buffered-transfers"
            } else {
                ""
            }
        }
        None => "",
    }
}

pub fn check_logs(plans: &[LinkPlan], logs: &Logs, mon: &crate::wire::Monitor, windows: (u32, u32)) {
    let logs = logs.borrow();
    for (i, plan) in plans.iter().enumerate() {
        let log = &logs[i];
        for (k, got) in log.received.iter().enumerate() {
            match plan.msgs.get(k) {
                None => {
                    sim::violation(
                        "extra-delivery",
                        format!("{}: received more than was sent: {}", plan.name, msgs::describe(got)),
                    );
                    return;
                }
                Some(exp) => {
                    let gu = msgs::uid_of(got);
                    let eu = msgs::uid_of(exp);
                    if gu != eu {
                        let kind = if plan.msgs.iter().any(|m| msgs::uid_of(m) == gu) {
                            if log.received[..k].iter().any(|m| msgs::uid_of(m) == gu) {
                                "duplicate-delivery"
                            } else {
                                "reordered-delivery"
                            }
                        } else {
                            "foreign-delivery"
                        };
                        sim::violation(
                            kind,
                            format!(
                                "{}: position {} expected {} got {}",
                                plan.name,
                                k,
                                msgs::describe(exp),
                                msgs::describe(got)
                            ),
                        );
                        return;
                    }
                    if !msgs::same_message(got, exp) {
                        sim::violation(
                            "message-altered",
                            format!("{}: position {} differs structurally: sent {:?} got {:?}", plan.name, k, exp, got),
                        );
                        return;
                    }
                    if msgs::encode(got) != msgs::encode(exp) {
                        sim::violation(
                            "message-altered",
                            format!("{}: position {} differs in re-encoded bytes: {}", plan.name, k, msgs::describe(exp)),
                        );
                        return;
                    }
                }
            }
        }
        if log.received.len() < plan.msgs.len() && !sim::has_violation() {
            // windows = (client incoming window, listener incoming window)
            let peer_win = if plan.client_sends { windows.1 } else { windows.0 };
            let sig = loss_signature(plan, log, mon, peer_win);
            sim::violation_sig(
                "lost-delivery",
                sig,
                format!(
                    "{}: {} of {} messages received (sender completed {} sends; receiver saw {:?})",
                    plan.name,
                    log.received.len(),
                    plan.msgs.len(),
                    log.send_done,
                    log.recv_error
                ),
            );
            return;
        }
    }
}

pub async fn run() {
    run_with(crate::wire::Models::none(), true).await
}

/// The same pair workload judged by the frame-size and decodability models (C06)
pub async fn run_sizes() {
    let mut m = crate::wire::Models::none();
    m.size = true;
    m.decodable = true;
    run_with(m, false).await
}

async fn run_with(models: crate::wire::Models, judge_delivery: bool) {
    let ccfg = EndpointCfg::draw(1);
    let mut lcfg = EndpointCfg::draw(1);
    if !judge_delivery && lcfg.circular_wait_class() {
        // the circular-wait configurations belong to C01's known finding
        lcfg.conn_buffer = 2048;
    }
    let (nab, nba, nd) = world::draw_net(true);
    let mut ccfg = ccfg;
    if !judge_delivery && ccfg.circular_wait_class() {
        ccfg.conn_buffer = 2048;
    }
    if let Ok(v) = std::env::var("VERIF_DBG_SBUF") {
        ccfg.sess_buffer = v.parse().unwrap();
    }
    if let Ok(v) = std::env::var("VERIF_DBG_CBUF") {
        ccfg.conn_buffer = v.parse().unwrap();
    }
    if let Ok(v) = std::env::var("VERIF_DBG_INWIN") {
        ccfg.incoming_window = v.parse().unwrap();
    }
    let nsess = 1 + (choice(4) == 1) as usize;
    let nlinks = 1 + choice(3) as usize;
    let frame_body = ccfg.max_frame_size.min(lcfg.max_frame_size) as usize - 40;
    let mut uid = 1000u64;
    let plans = draw_plans(nlinks, frame_body, pick(&[6u32, 3, 12, 40]), &mut uid);
    sim::set_config(format!(
        "C[{}] L[{}] {} sessions={} links={} msgs={:?}",
        ccfg.describe(),
        lcfg.describe(),
        nd,
        nsess,
        plans
            .iter()
            .map(|p| format!(
                "{}:{}{}{}c{:?}a{}m{:?}",
                p.name,
                if p.client_sends { "C>L" } else { "L>C" },
                p.snd_mode,
                if p.rcv_second { "2nd" } else { "1st" },
                p.credit,
                p.auto_accept as u8,
                p.mms
            ))
            .collect::<Vec<_>>()
            .join(","),
        plans.iter().map(|p| p.msgs.len()).collect::<Vec<_>>()
    ));
    if plans.iter().any(|p| p.msgs.iter().any(|m| msgs::encode(m).len() > frame_body)) {
        sim::mark_nontrivial();
        sim::probe("multi-frame-message");
    }
    if plans.iter().any(|p| p.mms.map(|m| p.msgs.iter().any(|x| msgs::encode(x).len() as u64 > m)).unwrap_or(false)) {
        sim::mark_nontrivial();
        sim::probe("link-level-split-message");
    }

    let mut pair = match world::open_pair(&ccfg, &lcfg, nab, nba, models).await {
        Some(p) => p,
        None => return,
    };
    if ccfg.circular_wait_class() || lcfg.circular_wait_class() {
        // With a tiny session buffer and a fillable connection buffer, a hang on the unchanged
        // tree is the circular wait between the connection engine (blocked handing a
        // frame to the session) and the session engine (blocked handing a frame to the
        // connection): DESIGN section 5, S14. The signature names the configuration
        // class; hangs in any other configuration carry no signature.
        sim::set_hang_classifier(Box::new(|| "session-buffer<=8-and-connection-buffer<=64".to_string()));
        sim::probe("cfg-circular-wait-class");
    }
    let logs: Logs = Rc::new(RefCell::new((0..plans.len()).map(|_| LinkLog::default()).collect()));
    let done: Slot<()> = Slot::new();
    let remaining = Rc::new(RefCell::new(plans.len() * 2));

    let mut sessions = Vec::new();
    for _ in 0..nsess {
        match world::begin_pair(&ccfg, &lcfg, &mut pair).await {
            Some(s) => sessions.push(s),
            None => return,
        }
    }
    let mut client_sessions = Vec::new();
    let mut listener_sessions = Vec::new();
    for (c, l) in sessions {
        client_sessions.push(c);
        listener_sessions.push(l);
    }

    // listener side: accept links on every session
    for (si, mut lsess) in listener_sessions.into_iter().enumerate() {
        let plans2 = plans.clone();
        let logs2 = logs.clone();
        let remaining2 = remaining.clone();
        let done2 = done.clone();
        let expected = plans.iter().enumerate().filter(|(i, _)| i % nsess == si).count();
        sim::spawn(
            "listener-session",
            sim::in_group(2, async move {
                let acceptor = LinkAcceptor::new();
                for _ in 0..expected {
                    let ep = match sim::op("link accept", acceptor.accept(&mut lsess)).await {
                        Some(Ok(ep)) => ep,
                        Some(Err(e)) => {
                            sim::violation("attach-failed", format!("listener link accept failed: {:?}", e));
                            return;
                        }
                        None => return,
                    };
                    let name = match &ep {
                        LinkEndpoint::Sender(s) => s.name().to_string(),
                        LinkEndpoint::Receiver(r) => r.name().to_string(),
                    };
                    let idx = plans2.iter().position(|p| p.name == name).expect("known link name");
                    let plan = plans2[idx].clone();
                    let logs3 = logs2.clone();
                    let remaining3 = remaining2.clone();
                    let done3 = done2.clone();
                    match ep {
                        LinkEndpoint::Sender(s) => sim::spawn("listener-sender", async move {
                            sender_role(idx, s, plan, logs3, true).await;
                            finish(&remaining3, &done3);
                        }),
                        LinkEndpoint::Receiver(r) => sim::spawn("listener-receiver", async move {
                            receiver_role(idx, r, plan, logs3).await;
                            finish(&remaining3, &done3);
                        }),
                    }
                }
                // keep the session handle alive until the peer ends the session
                let _ = tokio::time::timeout(std::time::Duration::from_secs(3600), lsess.on_end()).await;
            }),
        );
    }

    // client side: attach links
    for (i, plan) in plans.iter().enumerate() {
        let sess = &mut client_sessions[i % nsess];
        let logs2 = logs.clone();
        let remaining2 = remaining.clone();
        let done2 = done.clone();
        let plan2 = plan.clone();
        let rcv = if plan.rcv_second { ReceiverSettleMode::Second } else { ReceiverSettleMode::First };
        if plan.client_sends {
            let r = sim::op(
                "attach sender",
                sim::in_group(
                    1,
                    {
                        let b = Sender::builder()
                            .name(plan.name.clone())
                            .target("q")
                            .sender_settle_mode(snd_mode(plan.snd_mode))
                            .receiver_settle_mode(rcv);
                        match plan.mms {
                            Some(m) => b.max_message_size(m).attach(sess),
                            None => b.attach(sess),
                        }
                    },
                ),
            )
            .await;
            match r {
                Some(Ok(s)) => sim::spawn("client-sender", async move {
                    sender_role(i, s, plan2, logs2, true).await;
                    finish(&remaining2, &done2);
                }),
                Some(Err(e)) => {
                    sim::violation("attach-failed", format!("client sender attach failed: {:?}", e));
                    return;
                }
                None => return,
            }
        } else {
            let r = sim::op(
                "attach receiver",
                sim::in_group(
                    1,
                    {
                        let b = Receiver::builder()
                            .name(plan.name.clone())
                            .source("q")
                            .sender_settle_mode(snd_mode(plan.snd_mode))
                            .receiver_settle_mode(rcv)
                            .credit_mode(CreditMode::Manual);
                        match plan.mms {
                            Some(m) => b.max_message_size(m).attach(sess),
                            None => b.attach(sess),
                        }
                    },
                ),
            )
            .await;
            match r {
                Some(Ok(rcv)) => sim::spawn("client-receiver", async move {
                    receiver_role(i, rcv, plan2, logs2).await;
                    finish(&remaining2, &done2);
                }),
                Some(Err(e)) => {
                    sim::violation("attach-failed", format!("client receiver attach failed: {:?}", e));
                    return;
                }
                None => return,
            }
        }
    }

    // Wait for all roles (each operation inside them has its own deadline)
    done.take().await;
    if sim::has_violation() {
        return;
    }
    pair.mon.borrow_mut().sync();
    if judge_delivery {
        check_logs(&plans, &logs, &pair.mon.borrow(), (ccfg.incoming_window, lcfg.incoming_window));
    }
    if sim::has_violation() {
        return;
    }
    // teardown: bounded, not judged here
    for mut s in client_sessions {
        let _ = tokio::time::timeout(std::time::Duration::from_secs(30), s.end()).await;
    }
    let _ = tokio::time::timeout(std::time::Duration::from_secs(30), pair.client.close()).await;
    let _ = tokio::time::timeout(std::time::Duration::from_secs(30), pair.listener.on_close()).await;
}

fn finish(remaining: &Rc<RefCell<usize>>, done: &Slot<()>) {
    let mut r = remaining.borrow_mut();
    *r -= 1;
    if *r == 0 || sim::has_violation() {
        done.put(());
    }
}
