//! C16 — cancelling a pending send or recv loses nothing and corrupts nothing.
//!
//! A recv or send future of a real link (client side of a real client/listener pair) is
//! polled k times and then dropped, either right after its k-th poll returned Pending or
//! at the next wake-up, before it is polled again.
//!
//! (a) enumerated: one target operation j and one k per run (the run's enumeration case);
//! (b) seeded: every operation goes through a cancel-and-retry loop as in a select! loop.

use std::cell::RefCell;
use std::future::Future;
use std::rc::Rc;
use std::task::Poll;

use fe2o3_amqp::acceptor::{LinkAcceptor, LinkEndpoint};
use fe2o3_amqp::link::receiver::CreditMode;
use fe2o3_amqp::types::definitions::SenderSettleMode;
use fe2o3_amqp::types::messaging::{AmqpValue, Body};
use fe2o3_amqp::types::primitives::{Binary, Value};
use fe2o3_amqp::{Receiver, Sender};
use std::pin::Pin;

use crate::chooser::{choice, pick};
use crate::msgs::{self, Msg};
use crate::sim;
use crate::wire::Models;
use crate::world::{self, EndpointCfg, Slot};

pub const N_MSGS: u64 = 6;
pub const K_MAX: u64 = 12;
/// (target operation, k, drop right after the poll / at the next wake-up)
pub const CASES: u64 = N_MSGS * K_MAX * 2;

pub enum Lim<T> {
    Done(T),
    Dropped,
}

/// Poll `fut` at most `k` times; when the k-th poll returns Pending drop the future, at once
/// or (at_wake) when the task is woken the next time, without polling it again.
pub async fn poll_limited<F: Future>(fut: F, k: u32, at_wake: bool) -> Lim<F::Output> {
    let mut fut = Box::pin(fut);
    let mut polls = 0u32;
    std::future::poll_fn(move |cx| {
        if polls >= k {
            return Poll::Ready(Lim::Dropped);
        }
        match fut.as_mut().poll(cx) {
            Poll::Ready(v) => Poll::Ready(Lim::Done(v)),
            Poll::Pending => {
                // tokio's cooperative budget (128 operations per task poll) makes a channel operation
                // return Pending although the channel has room: what suspended the future this time?
                BUDGET_FORCED.with(|b| b.set(!tokio::task::coop::has_budget_remaining()));
                polls += 1;
                if polls >= k && !at_wake {
                    Poll::Ready(Lim::Dropped)
                } else {
                    Poll::Pending
                }
            }
        }
    })
    .await
}

thread_local! {
    /// the last Pending of a future under `poll_limited` came with tokio's cooperative budget used up
    static BUDGET_FORCED: std::cell::Cell<bool> = std::cell::Cell::new(false);
    /// payload bytes per frame of the multi-frame messages (480 for 512-byte frames)
    static FRAME_UNIT: std::cell::Cell<usize> = std::cell::Cell::new(480);
}

fn message(uid: u64, frames: u32) -> Msg {
    let mut m = msgs::gen_message(uid, 100, 1);
    if frames > 1 {
        // several frames (of 512 bytes, or of 64 KiB in the large-message class)
        let len = FRAME_UNIT.with(|u| u.get()) * (frames as usize - 1) + 100;
        let mut b = uid.to_be_bytes().to_vec();
        b.resize(len, (uid % 251) as u8);
        m.body = Body::Value(AmqpValue(Value::Binary(Binary::from(b))));
    }
    m
}

/// Same message with a binary body grown until the encoded message is an exact multiple of `unit`
fn pad_to_multiple(mut m: Msg, unit: usize) -> Msg {
    let uid = msgs::uid_of(&m).unwrap_or(0);
    let mut len = match &m.body {
        Body::Value(AmqpValue(Value::Binary(b))) => b.len(),
        _ => 40,
    };
    for _ in 0..(2 * unit + 8) {
        let mut b = uid.to_be_bytes().to_vec();
        b.resize(len, (uid % 251) as u8);
        m.body = Body::Value(AmqpValue(Value::Binary(Binary::from(b))));
        if msgs::encode(&m).len() % unit == 0 {
            break;
        }
        len += 1;
    }
    m
}

struct Plan {
    enumerated: bool,
    target: u64,
    k: u32,
    at_wake: bool,
    auto_accept: bool,
    credit: Option<u32>,
    frames: Vec<u32>,
}

fn draw_plan(enumerated: bool) -> Plan {
    let case = sim::case();
    let (target, k, at_wake) = if enumerated {
        (case / (K_MAX * 2), ((case / 2) % K_MAX) as u32 + 1, case % 2 == 1)
    } else {
        (0, 0, false)
    };
    Plan {
        enumerated,
        target,
        k,
        at_wake,
        auto_accept: choice(2) == 1,
        credit: pick(&[Some(1u32), Some(2), Some(10), Some(200), None]),
        frames: (0..N_MSGS).map(|_| pick(&[1u32, 1, 2, 3, 4])).collect(),
    }
}

fn draw_cfgs() -> (EndpointCfg, EndpointCfg) {
    let mut ccfg = EndpointCfg::default_cfg();
    let mut lcfg = EndpointCfg::default_cfg();
    ccfg.max_frame_size = 512;
    lcfg.max_frame_size = 512;
    // link -> session channel of the cancelling endpoint from 1 up: its internal sends can be pending
    ccfg.sess_buffer = pick(&[1usize, 1, 2, 3, 8, 2048]);
    lcfg.sess_buffer = pick(&[2048usize, 2048, 1, 4]);
    (ccfg, lcfg)
}

fn compare(kind_prefix: &str, what: &str, got: &Msg, exp: &Msg) -> bool {
    compare_sig(kind_prefix, what, got, exp, "")
}

fn compare_sig(kind_prefix: &str, what: &str, got: &Msg, exp: &Msg, sig: &str) -> bool {
    if !msgs::same_message(got, exp) || msgs::encode(got) != msgs::encode(exp) {
        sim::violation_sig(
            &format!("{}-message-altered", kind_prefix),
            sig,
            format!("{}: sent {} got {}", what, msgs::describe(exp), msgs::describe(got)),
        );
        return false;
    }
    true
}

/// true if the client wrote a disposition that covers `delivery_id`
fn client_disposed(mon: &crate::wire::MonitorRef, delivery_id: u32) -> bool {
    mon.borrow_mut().sync();
    let m = mon.borrow();
    m.log.iter().any(|st| {
        st.dir == 0
            && match &st.item {
                crate::wire::Item::Frame(f) if f.code == crate::wire::DISPOSITION => {
                    let p = f.perf.as_ref().unwrap();
                    let first = p.field(1).as_u32().unwrap_or(u32::MAX);
                    let last = p.field(2).as_u32().unwrap_or(first);
                    first <= delivery_id && delivery_id <= last
                }
                _ => false,
            }
    })
}

/// true if a recv future was dropped between the two observation points around the auto-accept
/// disposition (hook H4): it had taken the delivery off the link's channel
///
/// ... and, precisely, while that disposition (or the credit refresh that follows it) was waiting
/// for room in the link -> session channel (hook H6: the channel had no free slot when the send
/// began and the send has not completed). A recv future dropped inside the bracket while nothing
/// was waiting for room is not the recorded finding.
fn dropped_in_auto_accept() -> bool {
    sim::sched_point_count("observe.receiver.auto_accept.begin") > sim::sched_point_count("observe.receiver.auto_accept.end")
        && sim::sched_point_count("observe.receiver.dispose.no_room.begin") > sim::sched_point_count("observe.receiver.dispose.no_room.end")
}

/// Signature of the recorded finding: the recv future was dropped while the auto-accept
/// disposition (or the credit refresh after it) waited for room in the link -> session channel;
/// the delivery was accepted on the wire but never handed to the application
const SIG_AUTO_ACCEPT: &str = "recv-dropped-during-auto-accept";

/// Signature of the second recorded finding: a send future was dropped after it had taken link
/// credit (and advanced the delivery-count) and before its transfer was handed to the session
/// (hook H5): the credit is gone for good
const SIG_CREDIT_TAKEN: &str = "send-dropped-after-credit-taken";
/// ... and of its link-level-splitting facet: dropped between the transfers of one delivery
const SIG_PARTIAL: &str = "send-dropped-between-link-level-transfers";

fn send_counters() -> (u64, u64, u64, u64, u64) {
    (
        sim::sched_point_count("observe.sender.credit_taken"),
        sim::sched_point_count("observe.sender.first_transfer_queued"),
        sim::sched_point_count("observe.sender.delivery_queued"),
        sim::sched_point_count("observe.sender.transfer.no_room"),
        sim::sched_point_count("observe.sender.transfer_queued"),
    )
}

/// What a dropped send future had done (one send is in flight at a time, so the difference of
/// the counters before the send and after the drop is exact). Both recorded findings are about a
/// send that is dropped *while one of its transfers waits for room in the link -> session channel*
/// (hook H7: the channel had no free slot when that transfer was handed over, and the hand-over
/// has not completed); a send dropped at any other point after it took credit is not covered by them.
///
/// `need` is the number of link-level transfers the payload requires (1 without a max-message-size,
/// otherwise the payload length divided by it, rounded up): the recorded finding is about a send
/// dropped while one of *those* waits for room. A send that is still handing over transfers after
/// the whole payload has been queued is doing something the recorded finding does not describe.
fn classify_send_drop(before: (u64, u64, u64, u64, u64), after: (u64, u64, u64, u64, u64), need: u64) -> &'static str {
    // ... or, the same await with another reason for being pending: the hand-over of a transfer
    // suspended because the task's cooperative budget was used up (many link-level transfers, or several
    // sends completed within one poll of the application's task)
    let budget_forced = BUDGET_FORCED.with(|b| b.get());
    if budget_forced {
        sim::probe("send-suspended-by-the-cooperative-budget");
    }
    let waiting_for_room = budget_forced || (after.3 > before.3 && sim::sched_point_last("observe.sender.transfer.no_room") > sim::sched_point_last("observe.sender.transfer_queued"));
    let queued = after.4 - before.4;
    if after.0 == before.0 || after.2 > before.2 {
        "" // no credit taken yet, or the delivery was queued completely
    } else if !waiting_for_room {
        ""
    } else if queued + 1 > need {
        ""
    } else if after.1 > before.1 {
        SIG_PARTIAL
    } else {
        SIG_CREDIT_TAKEN
    }
}

// ---------------------------------------------------------------------------------------
// recv

pub async fn run_recv_enumerated() {
    run_recv(true).await
}
pub async fn run_recv_seeded() {
    run_recv(false).await
}

async fn run_recv(enumerated: bool) {
    let plan = draw_plan(enumerated);
    let (mut ccfg, mut lcfg) = draw_cfgs();
    // large-message class: frames of 64 KiB, deliveries of up to ~200 KB in 2-4 frames (whatever a
    // recv does differently for a big delivery happens within the enumerated polls)
    FRAME_UNIT.with(|u| u.set(480));
    if choice(5) == 1 {
        ccfg.max_frame_size = 65536;
        lcfg.max_frame_size = 65536;
        FRAME_UNIT.with(|u| u.set(65_000));
        sim::probe("recv-of-deliveries-above-64-KiB");
    }
    let (nab, nba, nd) = world::draw_net(false);
    sim::set_config(format!(
        "variant=recv-{} target={} k={} at-wake={} auto-accept={} credit={:?} frames={:?} C[{}] L[{}] {}",
        if enumerated { "enumerated" } else { "select-loop" },
        plan.target,
        plan.k,
        plan.at_wake,
        plan.auto_accept,
        plan.credit,
        plan.frames,
        ccfg.describe(),
        lcfg.describe(),
        nd
    ));
    let mut models = Models::none();
    models.link = true;
    models.delivery = true;
    let mut pair = match world::open_pair(&ccfg, &lcfg, nab, nba, models).await {
        Some(p) => p,
        None => return,
    };
    let (mut csess, mut lsess) = match world::begin_pair(&ccfg, &lcfg, &mut pair).await {
        Some(x) => x,
        None => return,
    };
    let sent: Vec<Msg> = (0..N_MSGS).map(|i| message(100 + i, plan.frames[i as usize])).collect();
    let presettled = choice(4) == 1;
    if presettled {
        sim::append_config(" pre-settled-deliveries");
        sim::probe("recv-of-pre-settled-deliveries");
    }
    // listener: a sender that sends the messages one after the other
    let ldone: Slot<Result<(), String>> = Slot::new();
    {
        let (ld, sent2) = (ldone.clone(), sent.clone());
        sim::spawn(
            "listener-app",
            sim::in_group(2, async move {
                let acc = LinkAcceptor::new();
                let mut s = match sim::op("link accept", acc.accept(&mut lsess)).await {
                    Some(Ok(LinkEndpoint::Sender(s))) => s,
                    Some(other) => {
                        ld.put(Err(format!("link accept: {:?}", other.map(|_| ()))));
                        return;
                    }
                    None => return,
                };
                let mut futs = Vec::new();
                for (i, m) in sent2.iter().enumerate() {
                    // (one run in four: every delivery is sent settled)
                    let sendable = fe2o3_amqp::Sendable::builder().message(m.clone()).settled(if presettled { Some(true) } else { None }).build();
                    match sim::op(&format!("peer send {}", i), s.send_batchable(sendable)).await {
                        Some(Ok(f)) => futs.push(f),
                        Some(Err(e)) => {
                            ld.put(Err(format!("peer send {}: {:?}", i, e)));
                            return;
                        }
                        None => return,
                    }
                }
                for (i, f) in futs.into_iter().enumerate() {
                    match sim::op(&format!("peer outcome {}", i), f).await {
                        Some(Ok(_)) => {}
                        Some(Err(e)) => {
                            ld.put(Err(format!("peer outcome {}: {:?}", i, e)));
                            return;
                        }
                        None => return,
                    }
                }
                ld.put(Ok(()));
                let _ = tokio::time::timeout(std::time::Duration::from_secs(3600), s.on_detach()).await;
                let _ = tokio::time::timeout(std::time::Duration::from_secs(30), s.close()).await;
                let _ = tokio::time::timeout(std::time::Duration::from_secs(3600), lsess.on_end()).await;
            }),
        );
    }
    let mode = match plan.credit {
        Some(c) => CreditMode::Auto(c),
        None => CreditMode::Manual,
    };
    let mut r = match sim::op("attach receiver", sim::in_group(1, Receiver::builder().name("R").source("q").credit_mode(mode).auto_accept(plan.auto_accept).attach(&mut csess))).await {
        Some(Ok(r)) => r,
        Some(Err(e)) => {
            sim::violation("attach-failed", format!("{:?}", e));
            return;
        }
        None => return,
    };
    if plan.credit.is_none() && sim::op("set_credit", r.set_credit(N_MSGS as u32 + 2)).await.is_none() {
        return;
    }
    let mut cancelled = 0u32;
    let mut target_done = false;
    let progress: Rc<std::cell::Cell<(u64, u32)>> = Rc::new(std::cell::Cell::new((0, 0)));
    {
        let (mon2, prog2, aa) = (pair.mon.clone(), progress.clone(), plan.auto_accept);
        sim::set_hang_classifier(Box::new(move || {
            let (j, cancelled) = prog2.get();
            let _ = (j, &mon2);
            if aa && cancelled > 0 && dropped_in_auto_accept() {
                SIG_AUTO_ACCEPT.to_string()
            } else {
                String::new()
            }
        }));
    }
    'msgs: for j in 0..N_MSGS {
        progress.set((j, cancelled));
        // cancelled attempts first
        loop {
            let (k, at_wake) = if plan.enumerated {
                if j == plan.target && !target_done {
                    (plan.k, plan.at_wake)
                } else {
                    break;
                }
            } else {
                // two out of three recvs are cancelled at least once
                if choice(3) == 0 {
                    break;
                }
                (1 + choice(4), choice(2) == 1)
            };
            target_done = true;
            match sim::op(&format!("cancelled recv {}", j), poll_limited(r.recv::<Body<Value>>(), k, at_wake)).await {
                Some(Lim::Dropped) => {
                    cancelled += 1;
                    progress.set((j, cancelled));
                    sim::fault("recv-future-dropped");
                    if !plan.enumerated {
                        // as in a select! loop with a ticker
                        sim::sleep_ms(choice(3) as u64).await;
                    }
                }
                Some(Lim::Done(Ok(d))) => {
                    // completed before the k-th poll: a normal recv
                    if !handle_delivery(&mut r, d, j, &sent, plan.auto_accept, &pair.mon, cancelled).await {
                        return;
                    }
                    sim::probe("recv-completed-before-k-polls");
                    continue 'msgs;
                }
                Some(Lim::Done(Err(e))) => {
                    sim::violation("recv-error", format!("recv {} failed: {:?}", j, e));
                    return;
                }
                None => return,
            }
        }
        match sim::op(&format!("recv {}", j), r.recv::<Body<Value>>()).await {
            Some(Ok(d)) => {
                if !handle_delivery(&mut r, d, j, &sent, plan.auto_accept, &pair.mon, cancelled).await {
                    return;
                }
            }
            Some(Err(e)) => {
                sim::violation("recv-error", format!("recv {} (after {} cancelled recvs) failed: {:?}", j, cancelled, e));
                return;
            }
            None => return,
        }
    }
    if cancelled > 0 {
        sim::mark_nontrivial();
    }
    // nothing beyond what was sent
    if let Ok(Ok(extra)) = tokio::time::timeout(std::time::Duration::from_millis(200), r.recv::<Body<Value>>()).await {
        sim::violation("duplicate-delivery", format!("after all {} messages another delivery came out: {}", N_MSGS, msgs::describe(extra.message())));
        return;
    }
    // the sender saw every delivery settled
    match sim::op("peer sender", ldone.take()).await {
        Some(Ok(())) => {}
        Some(Err(e)) => {
            sim::violation("sender-outcome", format!("the sending peer failed: {}", e));
            return;
        }
        None => return,
    }
    let _ = tokio::time::timeout(std::time::Duration::from_secs(30), r.close()).await;
    let _ = tokio::time::timeout(std::time::Duration::from_secs(30), csess.end()).await;
    let _ = tokio::time::timeout(std::time::Duration::from_secs(30), pair.client.close()).await;
}

async fn handle_delivery(r: &mut Receiver, d: fe2o3_amqp::link::delivery::Delivery<Body<Value>>, j: u64, sent: &[Msg], auto_accept: bool, mon: &crate::wire::MonitorRef, cancelled: u32) -> bool {
    let exp = &sent[j as usize];
    let gu = msgs::uid_of(d.message()).unwrap_or(0);
    let eu = msgs::uid_of(exp).unwrap_or(0);
    if gu != eu {
        let kind = if gu < eu { "duplicate-delivery" } else { "lost-delivery" };
        let _ = mon;
        let sig = if gu > eu && auto_accept && cancelled > 0 && dropped_in_auto_accept() { SIG_AUTO_ACCEPT } else { "" };
        sim::violation_sig(kind, sig, format!("recv {} returned message {} where {} was due ({} recv futures dropped before)", j, gu, eu, cancelled));
        return false;
    }
    if !compare("recv", &format!("recv {}", j), d.message(), exp) {
        return false;
    }
    if !auto_accept {
        match sim::op(&format!("accept {}", j), r.accept(&d)).await {
            Some(Ok(())) => {}
            Some(Err(e)) => {
                sim::violation("accept-error", format!("accept {}: {:?}", j, e));
                return false;
            }
            None => return false,
        }
    }
    sim::probe("delivery-checked");
    true
}

// ---------------------------------------------------------------------------------------
// send

pub async fn run_send_enumerated() {
    run_send(true).await
}
pub async fn run_send_seeded() {
    run_send(false).await
}

async fn run_send(enumerated: bool) {
    let plan = draw_plan(enumerated);
    FRAME_UNIT.with(|u| u.set(480));
    let (ccfg, lcfg) = draw_cfgs();
    let (nab, nba, nd) = world::draw_net(false);
    let snd_mode = match choice(3) {
        0 => SenderSettleMode::Unsettled,
        1 => SenderSettleMode::Settled,
        _ => SenderSettleMode::Mixed,
    };
    // the receiver grants little credit, so that credit taken by a cancelled send matters
    let credit = pick(&[1u32, 2, 3, 100]);
    let credit_floor_for_held = 8u32;
    // ... or grants it by hand in steps with pauses in between, during which pending sends wait
    // for credit (and are cancelled while they wait)
    let manual_steps: Option<Vec<u32>> = if choice(2) == 1 {
        let mut left = N_MSGS as u32;
        let mut v = vec![choice(3)];
        left -= v[0].min(left);
        while left > 0 {
            let g = (1 + choice(3)).min(left);
            v.push(g);
            left -= g;
        }
        Some(v)
    } else {
        None
    };
    sim::set_config(format!(
        "variant=send-{} target={} k={} at-wake={} snd-mode={:?} credit={} manual-grants={:?} frames={:?} C[{}] L[{}] {}",
        if enumerated { "enumerated" } else { "select-loop" },
        plan.target,
        plan.k,
        plan.at_wake,
        snd_mode,
        credit,
        manual_steps,
        plan.frames,
        ccfg.describe(),
        lcfg.describe(),
        nd
    ));
    let mut models = Models::none();
    models.link = true;
    models.delivery = true;
    // no delivery may start without a grant the receiver had made
    models.credit = true;
    let mut pair = match world::open_pair(&ccfg, &lcfg, nab, nba, models).await {
        Some(p) => p,
        None => return,
    };
    let (mut csess, mut lsess) = match world::begin_pair(&ccfg, &lcfg, &mut pair).await {
        Some(x) => x,
        None => return,
    };
    // one run in four splits deliveries at link level too (max-message-size below the message size);
    // in half of those every message is an exact multiple of it
    let mms: Option<u64> = pick(&[None, None, None, None, None, None, Some(300u64), Some(128), Some(40)]);
    let exact = mms == Some(128);
    let msgs_v: Vec<Msg> = (0..N_MSGS)
        .map(|i| {
            let m = message(100 + i, plan.frames[i as usize]);
            if exact { pad_to_multiple(m, 128) } else { m }
        })
        .collect();
    // deliveries of earlier `send_batchable` calls whose outcomes are still awaited while sends are
    // cancelled: a dropped send must leave them alone
    let n_pre = if choice(2) == 0 { 0 } else { 1 + choice(3) as u64 };
    let mut pre: Vec<Msg> = (0..n_pre).map(|i| message(50 + i, 1)).collect();
    let noise = choice(3) == 0;
    if noise {
        // the listener gets a sender of its own: its observation points are not the ones under test
        sim::set_observe_ignore_group(Some(2));
    }
    let last_uid = 100 + N_MSGS - 1;
    // the listener's receiver starts with the acceptor's default credit and is then given the credit of
    // this run: the client waits for that second statement before it sends (a sender that used the
    // default grant while the lower one was on its way would run into C09's recorded finding)
    let credit_set: Slot<()> = Slot::new();
    let credit_set2 = credit_set.clone();
    // listener: a receiver that takes deliveries until the last message (never cancelled) has arrived
    let received: Rc<RefCell<Vec<Msg>>> = Rc::new(RefCell::new(Vec::new()));
    let ldone: Slot<Result<(), String>> = Slot::new();
    {
        let (ld, rec2, manual_steps2) = (ldone.clone(), received.clone(), manual_steps.clone());
        sim::spawn(
            "listener-app",
            sim::in_group(2, async move {
                let acc = LinkAcceptor::new();
                let mut r = match sim::op("link accept", acc.accept(&mut lsess)).await {
                    Some(Ok(LinkEndpoint::Receiver(r))) => r,
                    Some(other) => {
                        ld.put(Err(format!("link accept: {:?}", other.map(|_| ()))));
                        return;
                    }
                    None => return,
                };
                if noise {
                    // the sibling link runs the other way (listener sends, client receives and accepts):
                    // its dispositions and credit flows compete for the client's link -> session channel
                    // without touching the sender-side observation points
                    match sim::op("sibling link accept", acc.accept(&mut lsess)).await {
                        Some(Ok(LinkEndpoint::Sender(mut n))) => {
                            sim::spawn("listener-sibling", async move {
                                for i in 0..40u64 {
                                    if n.send(message(900 + i, 1)).await.is_err() {
                                        break;
                                    }
                                    if choice(3) == 0 {
                                        sim::sleep_ms(1).await;
                                    }
                                }
                                std::future::pending::<()>().await;
                                drop(n);
                            });
                        }
                        Some(other) => {
                            ld.put(Err(format!("sibling link accept: {:?}", other.map(|_| ()))));
                            return;
                        }
                        None => return,
                    }
                }
                let held: Rc<RefCell<std::collections::VecDeque<fe2o3_amqp::Delivery<Body<Value>>>>> = Rc::new(RefCell::new(std::collections::VecDeque::new()));
                let stop_late = Rc::new(std::cell::Cell::new(false));
                let mut steps = manual_steps2.clone().unwrap_or_default().into_iter();
                let mut granted_left = 0u32;
                if manual_steps2.is_some() {
                    r.set_credit_mode(CreditMode::Manual);
                    granted_left = steps.next().unwrap_or(0);
                    if sim::op("set_credit", r.set_credit(granted_left)).await.is_none() {
                        return;
                    }
                } else {
                    // (deliveries that are held back unaccepted do not bring credit back)
                    let credit = if n_pre > 0 { credit.max(credit_floor_for_held) } else { credit };
                    r.set_credit_mode(CreditMode::Auto(credit));
                    if sim::op("set_credit", r.set_credit(credit)).await.is_none() {
                        return;
                    }
                }
                credit_set2.put(());
                let late_busy: Rc<std::cell::Cell<bool>> = Rc::new(std::cell::Cell::new(false));
                // (the disposer takes over the credit mode the receiver has at this moment)
                {
                    let (held, stop_late, disposer) = (held.clone(), stop_late.clone(), r.disposer());
                    let busy = late_busy.clone();
                    sim::spawn("listener-late-accepter", async move {
                        // (when there is nothing to accept it sleeps longer: a run that is stuck for another
                        // reason is not kept busy by this task)
                        while !stop_late.get() {
                            if held.borrow().is_empty() {
                                sim::sleep_ms(25).await;
                                continue;
                            }
                            sim::sleep_ms(pick(&[1u64, 1, 2, 5, 20])).await;
                            // (the link must not be closed under a disposal that is under way)
                            busy.set(true);
                            let h = held.borrow_mut().pop_front();
                            if let Some(h) = h {
                                if disposer.accept(&h).await.is_err() {
                                    busy.set(false);
                                    break;
                                }
                                sim::probe("outstanding-delivery-settled-between-sends");
                            }
                            busy.set(false);
                        }
                    });
                }
                loop {
                    if manual_steps2.is_some() && granted_left == 0 {
                        // a pause without credit, then the next grant
                        sim::sleep_ms(pick(&[1u64, 5, 40])).await;
                        match steps.next() {
                            Some(g) => {
                                granted_left = g;
                                if sim::op("set_credit", r.set_credit(g)).await.is_none() {
                                    return;
                                }
                            }
                            None => {
                                // everything was granted: cancelled sends never arrive, so be generous now
                                granted_left = u32::MAX;
                                if sim::op("set_credit", r.set_credit(100)).await.is_none() {
                                    return;
                                }
                            }
                        }
                    }
                    match sim::op("peer recv", r.recv::<Body<Value>>()).await {
                        Some(Ok(d)) => {
                            granted_left = granted_left.saturating_sub(1);
                            let u = msgs::uid_of(d.message()).unwrap_or(0);
                            if u < 100 {
                                // an earlier batchable delivery: accepted later, by a task of its own
                                // through the link's disposer, while the sender is busy with (and
                                // cancelling) other sends
                                rec2.borrow_mut().push(d.message().clone());
                                held.borrow_mut().push_back(d);
                                continue;
                            }
                            if sim::op("peer accept", r.accept(&d)).await.is_none() {
                                return;
                            }
                            rec2.borrow_mut().push(d.into_message());
                            if u == last_uid {
                                break;
                            }
                        }
                        Some(Err(e)) => {
                            ld.put(Err(format!("peer recv: {:?}", e)));
                            return;
                        }
                        None => return,
                    }
                }
                stop_late.set(true);
                while late_busy.get() {
                    sim::sleep_ms(1).await;
                }
                loop {
                    let h = held.borrow_mut().pop_front();
                    match h {
                        Some(h) => {
                            if sim::op("peer accept (held)", r.accept(&h)).await.is_none() {
                                return;
                            }
                        }
                        None => break,
                    }
                }
                if let Ok(Ok(extra)) = tokio::time::timeout(std::time::Duration::from_millis(200), r.recv::<Body<Value>>()).await {
                    rec2.borrow_mut().push(extra.into_message());
                }
                ld.put(Ok(()));
                let _ = tokio::time::timeout(std::time::Duration::from_secs(30), r.close()).await;
                let _ = tokio::time::timeout(std::time::Duration::from_secs(3600), lsess.on_end()).await;
            }),
        );
    }
    sim::append_config(&format!(" mms={:?} exact-multiples={} outstanding-batchable={} sibling-link-traffic={}", mms, exact, n_pre, noise));
    let builder = Sender::builder().name("S").target("q").sender_settle_mode(snd_mode.clone());
    let mut s = match sim::op("attach sender", sim::in_group(1, async {
        match mms {
            Some(m) => builder.max_message_size(m).attach(&mut csess).await,
            None => builder.attach(&mut csess).await,
        }
    })).await {
        Some(Ok(s)) => s,
        Some(Err(e)) => {
            sim::violation("attach-failed", format!("{:?}", e));
            return;
        }
        None => return,
    };
    if noise {
        let nb = Receiver::builder().name("N").source("q2").credit_mode(CreditMode::Auto(3));
        match sim::op("attach sibling receiver", sim::in_group(1, nb.attach(&mut csess))).await {
            Some(Ok(mut n)) => {
                sim::spawn("app-sibling-receiver", async move {
                    while let Ok(d) = n.recv::<Body<Value>>().await {
                        let _ = n.accept(&d).await;
                        sim::probe("sibling-link-disposition");
                    }
                    std::future::pending::<()>().await;
                });
            }
            Some(Err(e)) => {
                sim::violation("attach-failed", format!("sibling: {:?}", e));
                return;
            }
            None => return,
        }
    }
    if sim::op("listener sets its credit", credit_set.take()).await.is_none() {
        return;
    }
    world::quiesce_pair(&pair.net).await;
    let mut send_order: Vec<u64> = Vec::new();
    let mut pre_futs = Vec::new();
    for (i, m) in pre.iter().enumerate() {
        send_order.push(50 + i as u64);
        match sim::op(&format!("send_batchable (outstanding) {}", i), s.send_batchable(m.clone())).await {
            Some(Ok(f)) => pre_futs.push((50 + i as u64, f)),
            Some(Err(e)) => {
                sim::violation("send-error", format!("send_batchable {} failed: {:?}", i, e));
                return;
            }
            None => return,
        }
    }
    // which messages were handed to a send that was dropped
    let mut cancelled_uids = Vec::new();
    let sig: Rc<std::cell::Cell<&'static str>> = Rc::new(std::cell::Cell::new(""));
    {
        let sig2 = sig.clone();
        sim::set_hang_classifier(Box::new(move || sig2.get().to_string()));
    }
    // by value or by reference (the *_ref variants serialise from a borrowed Sendable)
    let by_ref = choice(3) == 0;
    sim::append_config(&format!(" send_ref={}", by_ref));
    let sendables: Vec<fe2o3_amqp::Sendable<Body<Value>>> = msgs_v.iter().map(|m| fe2o3_amqp::Sendable::from(m.clone())).collect();
    // the outcomes of the earlier batchable sends are looked at after every send, cancelled or not:
    // the receiver accepts everything, so whatever resolves must say so. (Only a delivery left
    // unfinished on the wire - the recorded finding - can make the receiver give up the link.)
    let mut pre_pending: Vec<(u64, Pin<Box<fe2o3_amqp::link::delivery::DeliveryFut<Result<fe2o3_amqp::types::messaging::Outcome, fe2o3_amqp::link::SendError>>>>)> = pre_futs.into_iter().map(|(u, f)| (u, Box::pin(f))).collect();
    macro_rules! look_at_earlier_outcomes {
        ($after:expr) => {{
            use futures_util::FutureExt;
            let mut k = 0;
            while k < pre_pending.len() {
                match pre_pending[k].1.as_mut().now_or_never() {
                    None => k += 1,
                    Some(Ok(fe2o3_amqp::types::messaging::Outcome::Accepted(_))) => {
                        sim::probe("outstanding-outcome-intact-after-cancellations");
                        pre_pending.remove(k);
                    }
                    Some(other) => {
                        let u = pre_pending[k].0;
                        sim::violation_sig(
                            "earlier-outcome-corrupted",
                            if sig.get() == SIG_PARTIAL { SIG_PARTIAL } else { "" },
                            format!("the receiver accepts every delivery; after {} ({} cancelled sends so far) the outcome of the earlier message {} resolved as {:?}", $after, cancelled_uids.len(), u, other.map_err(|e| format!("{:?}", e))),
                        );
                        return;
                    }
                }
            }
        }};
    }
    for j in 0..N_MSGS {
        let is_last = j + 1 == N_MSGS;
        send_order.retain(|x| *x != 100 + j);
        let cancel = if plan.enumerated { j == plan.target && !is_last } else { !is_last && choice(3) != 0 };
        if cancel {
            let (mut k, mut at_wake) = if plan.enumerated { (plan.k, plan.at_wake) } else { (1 + choice(5), choice(2) == 1) };
            // fault: the client's session engine is not scheduled for a few milliseconds (a busy
            // worker thread). A batchable send fills the link -> session channel, the send that is
            // going to be cancelled registers and waits for room behind it, and whatever the peer
            // settles in the meantime is applied when the engine runs again - before or after the
            // cancelled send is dropped
            if !pre_pending.is_empty() && choice(2) == 0 {
                sim::stall_task("session-engine", 1, pick(&[3u64, 10, 30]));
                let filler = message(60 + j, 1);
                match sim::op(&format!("send_batchable (filler) {}", j), s.send_batchable(filler.clone())).await {
                    Some(Ok(f)) => {
                        pre_pending.push((60 + j, Box::pin(f)));
                        pre.push(filler);
                        send_order.push(60 + j);
                    }
                    Some(Err(e)) => {
                        sim::violation_sig("send-error", sig.get(), format!("send_batchable (filler) {} failed: {:?}", j, e));
                        return;
                    }
                    None => return,
                }
                if !plan.enumerated {
                    k = 1 + choice(2);
                    at_wake = true;
                }
                sim::probe("cancelled-send-behind-a-stalled-session-engine");
            }
            send_order.push(100 + j);
            let before = send_counters();
            let r = if by_ref {
                sim::op(&format!("cancelled send_ref {}", j), poll_limited(s.send_ref(&sendables[j as usize]), k, at_wake)).await
            } else {
                sim::op(&format!("cancelled send {}", j), poll_limited(s.send(msgs_v[j as usize].clone()), k, at_wake)).await
            };
            match r {
                Some(Lim::Dropped) => {
                    cancelled_uids.push(100 + j);
                    sim::fault("send-future-dropped");
                    let plen = msgs::encode(&msgs_v[j as usize]).len() as u64;
                    let need = match mms {
                        Some(m) => ((plen + m - 1) / m).max(1),
                        None => 1,
                    };
                    let after = send_counters();
                    let c = classify_send_drop(before, after, need);
                    if sim::tracing() {
                        sim::trace_line(format!("send {} dropped: counters {:?} -> {:?}, need {} link-level transfers, last no_room {} last queued {}: classified `{}`", j, before, after, need, sim::sched_point_last("observe.sender.transfer.no_room"), sim::sched_point_last("observe.sender.transfer_queued"), c));
                    }
                    if c == SIG_CREDIT_TAKEN {
                        use futures_util::FutureExt;
                        sim::probe("cancelled-send-was-parked-for-room");
                        if !pre_pending.is_empty() {
                            sim::probe("cancelled-send-was-parked-for-room-with-earlier-deliveries-outstanding");
                        }
                        // (peek: a resolved outcome is judged right after this send)
                        let _ = &mut pre_pending;
                    }
                    if !c.is_empty() {
                        // the recorded finding's precondition has occurred: what follows from it
                        // (starved sends, a receiver that merges or refuses the next delivery) is known
                        if sig.get().is_empty() || c == SIG_PARTIAL {
                            sig.set(c);
                            pair.mon.borrow_mut().sig_context = c.to_string();
                        }
                        sim::probe(if c == SIG_PARTIAL { "send-dropped-between-transfers" } else { "send-dropped-after-credit-taken" });
                    }
                    if !plan.enumerated {
                        sim::sleep_ms(choice(3) as u64).await;
                    }
                }
                Some(Lim::Done(Ok(_))) => {
                    sim::probe("send-completed-before-k-polls");
                }
                Some(Lim::Done(Err(e))) => {
                    sim::violation("send-error", format!("send {} failed: {:?}", j, e));
                    return;
                }
                None => return,
            }
        } else {
            send_order.push(100 + j);
            let r = if by_ref { sim::op(&format!("send_ref {}", j), s.send_ref(&sendables[j as usize])).await } else { sim::op(&format!("send {}", j), s.send(msgs_v[j as usize].clone())).await };
            match r {
                Some(Ok(_)) => {}
                Some(Err(e)) => {
                    sim::violation_sig("send-error", sig.get(), format!("send {} (after {} cancelled sends) failed: {:?}", j, cancelled_uids.len(), e));
                    return;
                }
                None => return,
            }
        }
        look_at_earlier_outcomes!(format!("send {}", j));
    }
    if !cancelled_uids.is_empty() {
        sim::mark_nontrivial();
    }
    match sim::op("peer receiver", ldone.take()).await {
        Some(Ok(())) => {}
        Some(Err(e)) => {
            sim::violation_sig("receiver-error", sig.get(), format!("the receiving peer failed after {} cancelled sends: {}", cancelled_uids.len(), e));
            return;
        }
        None => return,
    }
    // what arrived: in sending order, each at most once, intact; everything that was not cancelled arrived
    let got = received.borrow();
    let mut last = 0u64;
    let mut last_pos: Option<usize> = None;
    for m in got.iter() {
        let u = msgs::uid_of(m).unwrap_or(0);
        if u == last || got.iter().filter(|x| msgs::uid_of(x) == Some(u)).count() > 1 {
            sim::violation_sig("duplicate-delivery", sig.get(), format!("message {} arrived more than once (cancelled sends: {:?})", u, cancelled_uids));
            return;
        }
        // in the order in which the messages were handed to the link
        let pos = send_order.iter().position(|x| *x == u);
        if let (Some(p), Some(lp)) = (pos, last_pos) {
            if p < lp {
                sim::violation_sig("reordered-delivery", sig.get(), format!("message {} arrived after {} (order of sending {:?}, cancelled sends: {:?})", u, last, send_order, cancelled_uids));
                return;
            }
        }
        if pos.is_some() {
            last_pos = pos;
        }
        last = u;
        match msgs_v.iter().chain(pre.iter()).find(|x| msgs::uid_of(x) == Some(u)) {
            Some(exp) => {
                if !compare_sig("send", &format!("message {}", u), m, exp, sig.get()) {
                    return;
                }
            }
            None => {
                sim::violation_sig("foreign-delivery", sig.get(), format!("message {} was never sent", u));
                return;
            }
        }
    }
    for j in 0..N_MSGS {
        let u = 100 + j;
        if !cancelled_uids.contains(&u) && !got.iter().any(|m| msgs::uid_of(m) == Some(u)) {
            sim::violation_sig("lost-delivery", sig.get(), format!("message {} (send completed) never arrived; cancelled sends: {:?}", u, cancelled_uids));
            return;
        }
    }
    for (i, m) in pre.iter().enumerate() {
        let u = msgs::uid_of(m).unwrap_or(0);
        if !got.iter().any(|x| msgs::uid_of(x) == Some(u)) {
            sim::violation_sig("lost-delivery", sig.get(), format!("outstanding batchable message {} (#{}) never arrived; cancelled sends: {:?}", u, i, cancelled_uids));
            return;
        }
    }
    sim::probe("arrivals-checked");
    drop(got);
    // the receiver accepted everything it got: the outcomes of the earlier batchable sends say so,
    // whatever was cancelled after them
    for (u, f) in pre_pending {
        match sim::op(&format!("outcome of outstanding batchable {}", u), f).await {
            Some(Ok(fe2o3_amqp::types::messaging::Outcome::Accepted(_))) => sim::probe("outstanding-outcome-intact-after-cancellations"),
            Some(other) => {
                sim::violation_sig(
                    "earlier-outcome-corrupted",
                    if sig.get() == SIG_PARTIAL { SIG_PARTIAL } else { "" },
                    format!("the receiver accepted message {}; after {} cancelled sends its outcome resolved as {:?}", u, cancelled_uids.len(), other.map_err(|e| format!("{:?}", e))),
                );
                return;
            }
            None => return,
        }
    }
    let _ = tokio::time::timeout(std::time::Duration::from_secs(30), s.close()).await;
    let _ = tokio::time::timeout(std::time::Duration::from_secs(30), csess.end()).await;
    let _ = tokio::time::timeout(std::time::Duration::from_secs(30), pair.client.close()).await;
}
