//! C07 — session flow control: a real client session against a scripted peer that
//! plays the receiving session end and produces arbitrary window histories.
//!
//! Oracles: the wire monitor's window model (serial arithmetic, in-flight rule with
//! a quiescence floor), reported next-outgoing-id / next-incoming-id, exactly-once
//! in-order release of held transfers, and bounded liveness after the final window
//! opening.

use std::cell::RefCell;
use std::rc::Rc;

use fe2o3_amqp::link::receiver::CreditMode;
use fe2o3_amqp::types::definitions::SenderSettleMode;
use fe2o3_amqp::types::messaging::Body;
use fe2o3_amqp::types::primitives::Value;
use fe2o3_amqp::{Receiver, Sender, Session};

use crate::chooser::{choice, pick};
use crate::msgs::{self, Msg};
use crate::peer::{self, AttachArgs, FlowArgs, Peer, PeerSession, TransferArgs};
use crate::refcodec::V;
use crate::sim;
use crate::wire::{self, Item, Models};
use crate::world::{self, EndpointCfg};

pub async fn run_main() {
    run(false).await
}

pub async fn run_split() {
    run(true).await
}

struct PeerLink {
    name: String,
    /// handle the client uses
    client_handle: u32,
    /// handle the peer uses
    peer_handle: u32,
    completed: usize,
    open_delivery: bool,
}

struct PeerState {
    ps: PeerSession,
    links: Vec<PeerLink>,
    /// credit the client's receiver link granted: (delivery_count, credit)
    rcv_grant: Option<(u32, u32)>,
    rcv_client_handle: Option<u32>,
    rcv_sent: u32,
    rcv_initial_dc: u32,
    client_flows: Vec<V>,
    detached: Vec<u32>,
}

fn absorb_frame(st: &mut PeerState, f: &wire::WFrame) {
    let p = match &f.perf {
        Some(p) => p,
        None => return,
    };
    match f.code {
        wire::TRANSFER => {
            st.ps.on_transfer_received();
            let h = p.field(0).as_u32().unwrap_or(0);
            let more = p.field(5).as_bool().unwrap_or(false);
            if let Some(l) = st.links.iter_mut().find(|l| l.client_handle == h) {
                if more {
                    l.open_delivery = true;
                } else {
                    l.open_delivery = false;
                    l.completed += 1;
                }
            }
        }
        wire::FLOW => {
            st.client_flows.push(p.clone());
            if let (Some(h), Some(rh)) = (p.field(4).as_u32(), st.rcv_client_handle) {
                if h == rh {
                    let dc = p.field(5).as_u32().unwrap_or(st.rcv_initial_dc);
                    let credit = p.field(6).as_u32().unwrap_or(0);
                    st.rcv_grant = Some((dc, credit));
                }
            }
        }
        wire::DETACH => {
            st.detached.push(p.field(0).as_u32().unwrap_or(0));
        }
        _ => {}
    }
}

async fn absorb(peer: &mut Peer, st: &mut PeerState, ms: u64) {
    for f in peer.drain_for(ms).await {
        absorb_frame(st, &f);
    }
}

async fn run(transport_split: bool) {
    // ---- configuration
    let initial: u32 = match choice(8) {
        0 => 0,
        1 => 1,
        2 => 0x7fff_fff0 + choice(32),
        3 => 0x8000_0000u32.wrapping_sub(choice(8)),
        4 | 5 => u32::MAX - choice(80),
        6 => u32::MAX,
        _ => choice(1 << 30),
    };
    let peer_initial: u32 = match choice(4) {
        0 => 0,
        1 => u32::MAX - choice(20),
        _ => choice(1000),
    };
    let client_inwin = pick(&[2048u32, 1, 2, 3, 5, 64]);
    let w0 = pick(&[5u32, 0, 1, 2, 3, 10, 64]);
    let mfs = if transport_split { pick(&[512u32, 600, 1024]) } else { 65536 };
    let mut ccfg = EndpointCfg::default_cfg();
    ccfg.max_frame_size = mfs;
    ccfg.incoming_window = client_inwin;
    ccfg.outgoing_window = pick(&[2048u32, 1, 5]);
    ccfg.sess_buffer = pick(&[2048usize, 2048, 8, 1]);
    let (nab, nba, nd) = world::draw_net(true);
    let nlinks = 1 + choice(3) as usize;
    let with_receiver = choice(2) == 1;
    let mut uid = 7000u64;
    let mut plans: Vec<(String, Vec<Msg>, Option<u64>)> = Vec::new();
    for i in 0..nlinks {
        let n = 1 + choice(pick(&[4u32, 8, 14])) as usize;
        let mms = if transport_split { None } else { pick(&[None, None, Some(64u64), Some(200), Some(33)]) };
        let mut v = Vec::new();
        for _ in 0..n {
            uid += 1;
            let m = if transport_split {
                msgs::gen_message(uid, mfs as usize - 40, 3)
            } else {
                msgs::gen_message(uid, 300, 2)
            };
            v.push(m);
        }
        plans.push((format!("snd-{}", i), v, mms));
    }
    let split_happens = transport_split && plans.iter().any(|(_, v, _)| v.iter().any(|m| msgs::encode(m).len() + 40 > mfs as usize));
    sim::set_config(format!(
        "initial-outgoing-id={} peer-initial={} client-inwin={} w0={} mfs={} links={:?} receiver={} sbuf={} {}",
        initial,
        peer_initial,
        client_inwin,
        w0,
        mfs,
        plans.iter().map(|(n, v, m)| format!("{}x{} mms={:?}", n, v.len(), m)).collect::<Vec<_>>(),
        with_receiver,
        ccfg.sess_buffer,
        nd
    ));
    sim::mark_nontrivial();

    // ---- connection
    let models = Models {
        window: true,
        sess: true,
        link: true,
        delivery: true,
        ..Models::none()
    };
    let peer_open = peer::open("peer", Some(mfs), Some(255), None);
    let cvp = match peer::client_vs_peer(&ccfg, peer_open, nab, nba, models).await {
        Some(x) => x,
        None => return,
    };
    let peer::ClientVsPeer { mut client, mut peer, net, mon, .. } = cvp;
    if split_happens {
        // DESIGN section 5 (S15): the session counts one transfer per link-level frame,
        // the transport may split that frame further. Violations of the window model in
        // runs where such a split occurs carry this signature; the main variant never
        // produces a transport-level split and carries none.
        mon.borrow_mut().sig_context = "transport-level-frame-split".to_string();
        sim::probe("transport-level-split");
    }

    // ---- session
    let begin_fut = sim::in_group(
        1,
        Session::builder()
            .next_outgoing_id(initial)
            .incoming_window(client_inwin)
            .outgoing_window(ccfg.outgoing_window)
            .buffer_size(ccfg.sess_buffer)
            .begin(&mut client),
    );
    let mut ps = PeerSession::new(pick(&[0u16, 0, 3, 200]), peer_initial, w0, 5000);
    let peer_begin = async {
        let b = peer.expect(wire::BEGIN).await?;
        let perf = b.perf.clone().unwrap();
        ps.on_remote_begin(&perf, b.channel);
        peer.send(ps.channel, &peer::begin(Some(b.channel), ps.next_outgoing_id, ps.incoming_window, ps.outgoing_window))
            .await;
        Some(perf)
    };
    let (sess, cb) = match sim::op("begin against scripted peer", world::join2(begin_fut, peer_begin)).await {
        Some(x) => x,
        None => return,
    };
    let mut session = match (sess, cb) {
        (Ok(s), Some(cb)) => {
            if cb.field(1).as_u32() != Some(initial) {
                sim::violation(
                    "reported-next-outgoing-id",
                    format!("begin reports next-outgoing-id {:?}, configured {}", cb.field(1), initial),
                );
                return;
            }
            s
        }
        (s, _) => {
            sim::violation("begin-failed", format!("begin against a legal peer failed: {:?}", s.map(|_| ())));
            return;
        }
    };

    let mut st = PeerState {
        ps,
        links: Vec::new(),
        rcv_grant: None,
        rcv_client_handle: None,
        rcv_sent: 0,
        rcv_initial_dc: 0,
        client_flows: Vec::new(),
        detached: Vec::new(),
    };

    // ---- links
    let sent_counts: Rc<RefCell<Vec<usize>>> = Rc::new(RefCell::new(vec![0; plans.len()]));
    let mut senders = Vec::new();
    for (i, (name, _msgs, mms)) in plans.iter().enumerate() {
        let peer_handle = pick(&[i as u32, i as u32, 10 + 7 * i as u32, 1000 + i as u32]);
        let att = sim::in_group(
            1,
            Sender::builder()
                .name(name.clone())
                .target("q")
                .sender_settle_mode(SenderSettleMode::Settled)
                .attach(&mut session),
        );
        let st_ref = &mut st;
        let peer_ref = &mut peer;
        let peer_att = async {
            let a = peer_ref.expect(wire::ATTACH).await?;
            let p = a.perf.clone().unwrap();
            let ch = p.field(1).as_u32().unwrap_or(0);
            let mut args = AttachArgs::receiver(&name, peer_handle);
            args.snd_settle_mode = Some(1);
            args.max_message_size = *mms;
            peer_ref.send(st_ref.ps.channel, &peer::attach(&args)).await;
            // ample link credit: only the session window is to limit the sender
            let mut f = st_ref.ps.flow_args();
            f.handle = Some(peer_handle);
            f.delivery_count = Some(0);
            f.link_credit = Some(100_000);
            peer_ref.send(st_ref.ps.channel, &peer::flow(&f)).await;
            st_ref.links.push(PeerLink {
                name: name.clone(),
                client_handle: ch,
                peer_handle,
                completed: 0,
                open_delivery: false,
            });
            Some(())
        };
        match sim::op("attach sender against scripted peer", world::join2(att, peer_att)).await {
            Some((Ok(s), Some(()))) => senders.push(s),
            Some((r, _)) => {
                sim::violation("attach-failed", format!("sender attach against a legal peer failed: {:?}", r.map(|_| ())));
                return;
            }
            None => return,
        }
    }
    let received_by_client: Rc<RefCell<Vec<Msg>>> = Rc::new(RefCell::new(Vec::new()));
    let mut rcv_peer_handle = 0u32;
    let poke = Rc::new(tokio::sync::Notify::new());
    if with_receiver {
        rcv_peer_handle = 77;
        let rcv_credit = pick(&[50u32, 3, 10]);
        let dc0 = pick(&[0u32, 5, u32::MAX - 2]);
        st.rcv_initial_dc = dc0;
        let att = sim::in_group(
            1,
            Receiver::builder()
                .name("rcv")
                .source("q")
                .credit_mode(CreditMode::Auto(rcv_credit))
                .attach(&mut session),
        );
        let st_ref = &mut st;
        let peer_ref = &mut peer;
        let peer_att = async {
            let a = peer_ref.expect(wire::ATTACH).await?;
            let p = a.perf.clone().unwrap();
            st_ref.rcv_client_handle = p.field(1).as_u32();
            let mut args = AttachArgs::sender("rcv", rcv_peer_handle);
            args.initial_delivery_count = Some(dc0);
            args.snd_settle_mode = Some(1);
            peer_ref.send(st_ref.ps.channel, &peer::attach(&args)).await;
            Some(())
        };
        match sim::op("attach receiver against scripted peer", world::join2(att, peer_att)).await {
            Some((Ok(mut r), Some(()))) => {
                let got = received_by_client.clone();
                let poke2 = poke.clone();
                sim::spawn("client-receiver", async move {
                    loop {
                        tokio::select! {
                            biased;
                            _ = poke2.notified() => {
                                let _ = r.set_credit(rcv_credit).await;
                            }
                            res = r.recv::<Body<Value>>() => match res {
                                Ok(d) => {
                                    let _ = r.accept(&d).await;
                                    got.borrow_mut().push(d.into_message());
                                }
                                Err(_) => break,
                            },
                        }
                    }
                });
            }
            Some((r, _)) => {
                sim::violation("attach-failed", format!("receiver attach against a legal peer failed: {:?}", r.map(|_| ())));
                return;
            }
            None => return,
        }
    }

    // ---- workload: the senders push all their messages (pre-settled: a send completes
    // when the transfer has been handed to the session)
    let senders_done = Rc::new(RefCell::new(0usize));
    let sender_errors: Rc<RefCell<Vec<String>>> = Rc::new(RefCell::new(Vec::new()));
    for (i, mut s) in senders.into_iter().enumerate() {
        let msgs_v = plans[i].1.clone();
        let name = plans[i].0.clone();
        let counts = sent_counts.clone();
        let done = senders_done.clone();
        let errs = sender_errors.clone();
        sim::spawn("client-sender", async move {
            for (k, m) in msgs_v.into_iter().enumerate() {
                match sim::op(&format!("send #{} on {}", k, name), s.send(m)).await {
                    Some(Ok(_)) => counts.borrow_mut()[i] = k + 1,
                    Some(Err(e)) => {
                        errs.borrow_mut().push(format!("send #{} on {}: {:?}", k, name, e));
                        break;
                    }
                    None => return,
                }
                if choice(3) == 1 {
                    sim::yield_now().await;
                }
            }
            *done.borrow_mut() += 1;
            // keep the link attached until the scenario ends
            std::future::pending::<()>().await;
            drop(s);
        });
    }

    // ---- the peer's window history
    let steps = 2 + choice(9);
    let mut own_uid = 90_000u64;
    let mut own_sent: Vec<Msg> = Vec::new();
    for _ in 0..steps {
        absorb(&mut peer, &mut st, pick(&[0u64, 1, 5, 50, 400])).await;
        if sim::has_violation() {
            return;
        }
        match choice(6) {
            0..=2 => {
                let w = pick(&[1u32, 0, 1, 2, 3, 5, 10, 64]);
                let mut f = st.ps.flow_args();
                f.incoming_window = w;
                st.ps.incoming_window = w;
                if choice(6) == 1 {
                    f.next_incoming_id = None;
                    sim::probe("flow-with-unset-next-incoming-id");
                }
                if choice(5) == 1 {
                    f.echo = Some(true);
                }
                // the flow that moves the window may be a link flow (of one of the receiving peer's
                // links, restating its ample credit) and may ask for an echo: the answer is built,
                // and the transfers that the new window releases are sent, by the same call
                if choice(3) == 0 && !st.links.is_empty() {
                    let l = &st.links[choice(st.links.len() as u32) as usize];
                    f.handle = Some(l.peer_handle);
                    f.delivery_count = Some(l.completed as u32);
                    f.link_credit = Some(100_000);
                    if choice(2) == 0 {
                        f.echo = Some(true);
                    }
                    sim::probe("window-moved-by-a-link-flow");
                }
                if w == 0 {
                    sim::probe("window-zero");
                }
                peer.send(st.ps.channel, &peer::flow(&f)).await;
            }
            3 => {
                // peer's own transfer to the client's receiver link, within credit
                if let (true, Some((dc, credit))) = (with_receiver, st.rcv_grant) {
                    let used = st.rcv_initial_dc.wrapping_add(st.rcv_sent).wrapping_sub(dc);
                    if used < credit && st.rcv_sent < 20 {
                        own_uid += 1;
                        // the whole frame has to fit the client's max-frame-size (a larger one is the
                        // peer's protocol violation and ends the connection)
                        let mut m = msgs::gen_message(own_uid, 200, 1);
                        let mut payload = msgs::encode(&m);
                        if payload.len() + 64 > mfs as usize {
                            m = msgs::gen_message(own_uid, 40, 1);
                            m.application_properties = None;
                            m.message_annotations = None;
                            m.delivery_annotations = None;
                            m.footer = None;
                            payload = msgs::encode(&m);
                        }
                        let t = TransferArgs {
                            handle: rcv_peer_handle,
                            delivery_id: Some(st.ps.next_delivery_id),
                            delivery_tag: Some(own_uid.to_be_bytes().to_vec()),
                            message_format: Some(0),
                            settled: Some(true),
                            ..Default::default()
                        };
                        peer.send_with_payload(st.ps.channel, &peer::transfer(&t), &payload).await;
                        st.ps.next_delivery_id = st.ps.next_delivery_id.wrapping_add(1);
                        st.ps.on_transfer_sent();
                        st.rcv_sent += 1;
                        own_sent.push(m);
                        sim::probe("peer-sent-transfer");
                    }
                }
            }
            _ => {
                // quiescence: from here on the client has provably processed every flow so far
                if !peer::settle(&mut peer, &net, |f| absorb_frame(&mut st, f)).await {
                    sim::harness_error("no-quiescence", "the connection did not become quiescent within the deadline".into());
                    return;
                }
                let mut m = mon.borrow_mut();
                m.sync();
                if let Some(last) = m.ends[1].sessions.last().and_then(|s| s.stmts.last()).map(|s| s.seq) {
                    m.window_floor[1] = last + 1;
                }
                sim::probe("quiescence-floor");
                crate::trace!("QUIESCENT: window floor set to {:?}", m.window_floor);
                drop(m);
                // at quiescence the client's latest report of next-incoming-id must be exact
                if with_receiver && st.rcv_sent > 0 {
                    // have the application make the client's receiver link write a flow of its own
                    // (a flow from the peer would restate next-outgoing-id and reset the counter under test)
                    let before = st.client_flows.len();
                    poke.notify_one();
                    sim::sleep_ms(1).await;
                    peer::settle(&mut peer, &net, |f| absorb_frame(&mut st, f)).await;
                    if let Some(reply) = st.client_flows[before..].last() {
                        let nii = reply.field(0).as_u32();
                        if nii != Some(st.ps.next_outgoing_id) {
                            sim::violation(
                                "reported-next-incoming-id",
                                format!(
                                    "at quiescence the client reports next-incoming-id {:?} but the peer stated {} and then sent {} transfer frames (expected {})",
                                    nii, peer_initial, st.rcv_sent, st.ps.next_outgoing_id
                                ),
                            );
                            return;
                        }
                        sim::probe("exact-next-incoming-id-checked");
                    }
                    let mut m = mon.borrow_mut();
                    m.sync();
                    if let Some(last) = m.ends[1].sessions.last().and_then(|s| s.stmts.last()).map(|s| s.seq) {
                        m.window_floor[1] = last + 1;
                    }
                }
            }
        }
    }

    // ---- final opening: everything held back must now come out
    {
        let mut f = st.ps.flow_args();
        f.incoming_window = 5000;
        st.ps.incoming_window = 5000;
        peer.send(st.ps.channel, &peer::flow(&f)).await;
    }
    let total: usize = plans.iter().map(|(_, v, _)| v.len()).sum();
    let deadline = tokio::time::Instant::now() + sim::OP_DEADLINE;
    loop {
        let done: usize = st.links.iter().map(|l| l.completed).sum();
        if done >= total {
            break;
        }
        if sim::has_violation() {
            return;
        }
        if !sender_errors.borrow().is_empty() {
            sim::violation("send-failed", format!("send failed against a legal peer: {:?}", sender_errors.borrow()));
            return;
        }
        if tokio::time::Instant::now() >= deadline || peer.eof || peer.read_error.is_some() {
            let sig = mon.borrow().sig_context.clone();
            sim::violation_sig(
                "held-transfer-never-sent",
                &sig,
                format!(
                    "{} of {} deliveries arrived {} virtual seconds after the peer reopened the window to 5000 (per link: {:?}; sends completed: {:?}; peer eof={} err={:?})",
                    done,
                    total,
                    sim::OP_DEADLINE.as_secs(),
                    st.links.iter().map(|l| (l.name.clone(), l.completed)).collect::<Vec<_>>(),
                    sent_counts.borrow(),
                    peer.eof,
                    peer.read_error
                ),
            );
            return;
        }
        // keep the window open as a real peer would: re-advertise after each batch
        absorb(&mut peer, &mut st, 50).await;
        let f = st.ps.flow_args();
        peer.send(st.ps.channel, &peer::flow(&f)).await;
    }
    peer::settle(&mut peer, &net, |f| absorb_frame(&mut st, f)).await;
    if sim::has_violation() {
        return;
    }

    // ---- exactly once, in order, unchanged
    {
        let mut m = mon.borrow_mut();
        m.sync();
        for (name, msgs_v, _) in &plans {
            let dels = m.deliveries_on(0, name);
            let sig = m.sig_context.clone();
            if dels.len() != msgs_v.len() {
                sim::violation_sig(
                    if dels.len() > msgs_v.len() { "held-transfer-duplicated" } else { "held-transfer-lost" },
                    &sig,
                    format!("{}: {} deliveries on the wire for {} messages sent", name, dels.len(), msgs_v.len()),
                );
                return;
            }
            for (k, (d, msg)) in dels.iter().zip(msgs_v.iter()).enumerate() {
                let want = msgs::encode(msg);
                if d.payload != want {
                    let elsewhere = msgs_v.iter().position(|x| msgs::encode(x) == d.payload);
                    sim::violation_sig(
                        if elsewhere.is_some() { "held-transfer-reordered" } else { "held-transfer-corrupted" },
                        &sig,
                        format!(
                            "{}: delivery #{} on the wire ({} bytes in {} frames) is not message #{} ({} bytes); it equals message {:?}",
                            name,
                            k,
                            d.payload.len(),
                            d.frames,
                            k,
                            want.len(),
                            elsewhere
                        ),
                    );
                    return;
                }
            }
        }
    }
    // incoming side: what the peer sent is what the client's receiver got
    if with_receiver {
        let got = received_by_client.borrow();
        if got.len() != own_sent.len() || got.iter().zip(own_sent.iter()).any(|(a, b)| !msgs::same_message(a, b)) {
            sim::violation(
                "incoming-transfer-lost",
                format!("the peer sent {} messages to the client's receiver, which returned {}", own_sent.len(), got.len()),
            );
            return;
        }
    }

    // ---- teardown (bounded, not judged here)
    let td = async {
        let _ = tokio::time::timeout(std::time::Duration::from_secs(20), session.end()).await;
        let _ = tokio::time::timeout(std::time::Duration::from_secs(20), client.close()).await;
    };
    let _ = world::join2(td, peer::serve_teardown(&mut peer, 30_000)).await;
    let _ = Item::Header([0; 8]);
}

// ------------------------------------------------------------------------------------------
// Listener side: a real listener session (receiving) against a scripted sending peer. The
// receive-side counter is the subject: next-incoming-id advances once per transfer frame
// received, whatever the session then does with the frame - routed to a link, or (listener
// only) dropped because its handle is not attached.

struct LState {
    ps: PeerSession,
    ep_handle: u32,
    flows: Vec<V>,
    credit_seen: bool,
}

fn l_absorb(st: &mut LState, f: &wire::WFrame) {
    if let (wire::FLOW, Some(p)) = (f.code, &f.perf) {
        if p.field(4).as_u32() == Some(st.ep_handle) {
            st.credit_seen = true;
        }
        st.flows.push(p.clone());
    }
}

/// At quiescence: have the application make the listener's receiving link send a flow of its
/// own (set_credit) and compare the session's next-incoming-id in it with what the peer stated
/// plus the transfer frames it has written since. (A flow from the peer would not do as the
/// trigger: it restates the peer's next-outgoing-id and so resets the counter under test.)
async fn exact_nii_check(peer: &mut Peer, st: &mut LState, net: &crate::net::NetHandle, poke: &Rc<tokio::sync::Notify>, strays: u32) -> bool {
    if !peer::settle(peer, net, |f| l_absorb(st, f)).await {
        sim::harness_error("no-quiescence", "the connection did not become quiescent within the deadline".into());
        return false;
    }
    let before = st.flows.len();
    poke.notify_one();
    sim::sleep_ms(1).await;
    peer::settle(peer, net, |f| l_absorb(st, f)).await;
    match st.flows[before..].last() {
        Some(reply) => {
            let nii = reply.field(0).as_u32();
            if nii != Some(st.ps.next_outgoing_id) {
                sim::violation(
                    "reported-next-incoming-id",
                    format!(
                        "at quiescence the listener reports next-incoming-id {:?}; the peer's next-outgoing-id is {} ({} of its transfer frames were for a handle that is not attached)",
                        nii, st.ps.next_outgoing_id, strays
                    ),
                );
                return false;
            }
            sim::probe("exact-next-incoming-id-checked");
            true
        }
        None => {
            sim::harness_error("no-flow-after-set-credit", "the application called set_credit at quiescence and no flow was written".into());
            false
        }
    }
}

pub async fn run_listener() {
    use fe2o3_amqp::acceptor::{LinkAcceptor, LinkEndpoint, SessionAcceptor};
    let peer_initial: u32 = match choice(4) {
        0 => 0,
        1 => u32::MAX - choice(20),
        _ => choice(1000),
    };
    let lcfg = EndpointCfg::default_cfg();
    let (nab, nba, nd) = world::draw_net(true);
    let credit = pick(&[50u32, 200, 30]);
    let steps = 3 + choice(8);
    let strays_first = choice(3);
    let dc0 = pick(&[0u32, 9, u32::MAX - 1]);
    sim::set_config(format!("side=listener peer-initial={} credit=Auto({}) steps={} strays-before-attach={} initial-dc={} {}", peer_initial, credit, steps, strays_first, dc0, nd));
    sim::mark_nontrivial();
    let models = Models { window: true, sess: true, ..Models::none() };
    let pvl = match peer::peer_vs_listener(&lcfg, peer::open("peer", Some(65536), Some(255), None), nab, nba, models).await {
        Some(x) => x,
        None => return,
    };
    let peer::ListenerVsPeer { mut listener, mut peer, net, .. } = pvl;
    let ps = PeerSession::new(pick(&[0u16, 4]), peer_initial, 5000, 5000);
    let got: Rc<RefCell<Vec<Msg>>> = Rc::new(RefCell::new(Vec::new()));
    let got2 = got.clone();
    let ready: world::Slot<Result<(), String>> = world::Slot::new();
    let ready2 = ready.clone();
    let poke = Rc::new(tokio::sync::Notify::new());
    let poke2 = poke.clone();
    sim::spawn(
        "listener-app",
        sim::in_group(2, async move {
            let acc = SessionAcceptor::new();
            let mut sess = match acc.accept(&mut listener).await {
                Ok(s) => s,
                Err(e) => {
                    ready2.put(Err(format!("session accept: {:?}", e)));
                    return;
                }
            };
            let la = LinkAcceptor::new();
            match la.accept(&mut sess).await {
                Ok(LinkEndpoint::Receiver(mut r)) => {
                    r.set_credit_mode(CreditMode::Auto(credit));
                    let _ = r.set_credit(credit).await;
                    ready2.put(Ok(()));
                    sim::spawn("listener-receiver", async move {
                        loop {
                            tokio::select! {
                                biased;
                                _ = poke2.notified() => {
                                    let _ = r.set_credit(credit).await;
                                }
                                res = r.recv::<Body<Value>>() => match res {
                                    Ok(d) => {
                                        let _ = r.accept(&d).await;
                                        got2.borrow_mut().push(d.into_message());
                                    }
                                    Err(_) => break,
                                },
                            }
                        }
                        std::future::pending::<()>().await;
                        drop(r);
                    });
                }
                Ok(_) => ready2.put(Err("expected a receiver endpoint".into())),
                Err(e) => ready2.put(Err(format!("link accept: {:?}", e))),
            }
            let _ = sess.on_end().await;
            let _ = listener.on_close().await;
        }),
    );
    let mut st = LState { ps, ep_handle: 0, flows: Vec::new(), credit_seen: false };
    peer.send(st.ps.channel, &peer::begin(None, st.ps.next_outgoing_id, st.ps.incoming_window, st.ps.outgoing_window)).await;
    let b = match peer.expect(wire::BEGIN).await {
        Some(b) => b,
        None => {
            sim::violation("begin-failed", "listener did not answer begin".into());
            return;
        }
    };
    st.ps.on_remote_begin(b.perf.as_ref().unwrap(), b.channel);
    let peer_handle = pick(&[0u32, 3]);
    let stray_handle = peer_handle + 1 + choice(40);
    let mut strays = 0u32;
    let mut uid = 95_000u64;
    // a transfer for a handle that is not attached: the listener drops it and carries on (it
    // may be for a link the application has not accepted yet); it is a frame received all the same
    async fn stray(peer: &mut Peer, st: &mut LState, handle: u32, uid: &mut u64, strays: &mut u32) {
        *uid += 1;
        let m = msgs::gen_message(*uid, 60, 1);
        let t = TransferArgs {
            handle,
            delivery_id: Some(st.ps.next_delivery_id),
            delivery_tag: Some(uid.to_be_bytes().to_vec()),
            message_format: Some(0),
            settled: Some(true),
            ..Default::default()
        };
        peer.send_with_payload(st.ps.channel, &peer::transfer(&t), &msgs::encode(&m)).await;
        st.ps.next_delivery_id = st.ps.next_delivery_id.wrapping_add(1);
        st.ps.on_transfer_sent();
        *strays += 1;
        sim::fault("transfer-for-unattached-handle");
    }
    for _ in 0..strays_first {
        stray(&mut peer, &mut st, stray_handle, &mut uid, &mut strays).await;
    }
    let mut args = AttachArgs::sender("lsnd", peer_handle);
    args.initial_delivery_count = Some(dc0);
    args.snd_settle_mode = Some(1);
    peer.send(st.ps.channel, &peer::attach(&args)).await;
    let a = match peer.expect(wire::ATTACH).await {
        Some(a) => a,
        None => {
            sim::violation("attach-failed", format!("listener did not answer attach (after {} transfers for an unattached handle): eof={} err={:?}", strays, peer.eof, peer.read_error));
            return;
        }
    };
    st.ep_handle = a.perf.as_ref().unwrap().field(1).as_u32().unwrap_or(0);
    for f in std::mem::take(&mut peer.skipped) {
        l_absorb(&mut st, &f);
    }
    match sim::op("listener link accept", ready.take()).await {
        Some(Ok(())) => {}
        Some(Err(e)) => {
            sim::violation("attach-failed", e);
            return;
        }
        None => return,
    }
    if !peer::settle(&mut peer, &net, |f| l_absorb(&mut st, f)).await {
        return;
    }
    if !st.credit_seen {
        sim::violation("no-credit", "the listener's receiving link issued no credit".into());
        return;
    }
    let mut sent: Vec<Msg> = Vec::new();
    for _ in 0..steps {
        for f in peer.drain_for(pick(&[0u64, 1, 20])).await {
            l_absorb(&mut st, &f);
        }
        if sim::has_violation() {
            return;
        }
        match choice(5) {
            0 | 1 => {
                if sent.len() >= 25 {
                    continue;
                }
                // one delivery in 1..3 frames, well within the credit
                uid += 1;
                let m = msgs::gen_message(uid, 200, 2);
                let payload = msgs::encode(&m);
                let nframes = (1 + choice(3) as usize).min(payload.len());
                let id = st.ps.next_delivery_id;
                st.ps.next_delivery_id = id.wrapping_add(1);
                let chunk = (payload.len() + nframes - 1) / nframes;
                let pieces: Vec<&[u8]> = payload.chunks(chunk.max(1)).collect();
                let n = pieces.len();
                for (i, piece) in pieces.iter().enumerate() {
                    let t = TransferArgs {
                        handle: peer_handle,
                        delivery_id: if i == 0 { Some(id) } else { None },
                        delivery_tag: if i == 0 { Some(uid.to_be_bytes().to_vec()) } else { None },
                        message_format: if i == 0 { Some(0) } else { None },
                        settled: if i == 0 { Some(true) } else { None },
                        more: if i + 1 == n { None } else { Some(true) },
                        ..Default::default()
                    };
                    peer.send_with_payload(st.ps.channel, &peer::transfer(&t), piece).await;
                    st.ps.on_transfer_sent();
                }
                sent.push(m);
            }
            2 => stray(&mut peer, &mut st, stray_handle, &mut uid, &mut strays).await,
            _ => {
                if !exact_nii_check(&mut peer, &mut st, &net, &poke, strays).await {
                    return;
                }
            }
        }
    }
    if !exact_nii_check(&mut peer, &mut st, &net, &poke, strays).await {
        return;
    }
    {
        let g = got.borrow();
        if g.len() != sent.len() || g.iter().zip(sent.iter()).any(|(a, b)| !msgs::same_message(a, b)) {
            sim::violation("incoming-transfer-lost", format!("the peer sent {} messages to the listener's receiver, which returned {}", sent.len(), g.len()));
            return;
        }
    }
    peer.send(0, &peer::close(None)).await;
    let _ = peer.drain_for(2000).await;
}
