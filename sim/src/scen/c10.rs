//! C10 — reassembly is independent of how the peer fragments a delivery.
//!
//! A scripted sender splits each encoded message into 1..n transfer frames at
//! seeded offsets (biased into section headers, length fields and the first/last
//! bytes, with empty-payload frames), varies the optional fields of continuation
//! frames, interleaves a delivery on a second link, aborts deliveries at every
//! position and, in a separate class of runs, contradicts itself.

use std::cell::RefCell;
use std::rc::Rc;

use fe2o3_amqp::acceptor::{LinkAcceptor, LinkEndpoint, SessionAcceptor};
use fe2o3_amqp::link::receiver::CreditMode;
use fe2o3_amqp::types::messaging::Body;
use fe2o3_amqp::types::primitives::Value;
use fe2o3_amqp::{Receiver, Session};

use crate::chooser::{choice, pick};
use crate::msgs::{self, Msg};
use crate::peer::{self, AttachArgs, Peer, PeerSession, TransferArgs};
use crate::sim;
use crate::wire::{self, Models};
use crate::world::{self, EndpointCfg};

#[derive(Default)]
struct AppLog {
    received: Vec<Msg>,
    error: Option<String>,
}

struct Link {
    peer_handle: u32,
    log: Rc<RefCell<AppLog>>,
    sent: Vec<Msg>,
}

fn spawn_app(mut r: Receiver, log: Rc<RefCell<AppLog>>, accept: bool) {
    sim::spawn("app-receiver", async move {
        loop {
            match r.recv::<Body<Value>>().await {
                Ok(d) => {
                    log.borrow_mut().received.push(d.message().clone());
                    if accept {
                        let _ = r.accept(&d).await;
                    }
                }
                Err(e) => {
                    log.borrow_mut().error = Some(format!("{:?}", e));
                    break;
                }
            }
        }
        std::future::pending::<()>().await;
        drop(r);
    });
}

/// Split offsets for a payload of `len` bytes into `n` pieces (empty pieces allowed)
fn split_points(payload: &[u8], n: usize) -> Vec<usize> {
    let len = payload.len();
    let mut interesting: Vec<usize> = vec![0, 1, 2, 3, len, len.saturating_sub(1), len.saturating_sub(2), len.saturating_sub(3)];
    // section headers 00 53 7x and the bytes right after them (format code, size fields)
    for i in 0..len.saturating_sub(2) {
        if payload[i] == 0x00 && payload[i + 1] == 0x53 && (0x70..=0x78).contains(&payload[i + 2]) {
            for d in 0..8 {
                interesting.push((i + d).min(len));
            }
        }
    }
    let mut cuts: Vec<usize> = (1..n)
        .map(|_| {
            if choice(2) == 1 {
                interesting[choice(interesting.len() as u32) as usize]
            } else {
                choice(len as u32 + 1) as usize
            }
        })
        .collect();
    cuts.sort();
    cuts
}

async fn quiesce(peer: &mut Peer, net: &crate::net::NetHandle) -> bool {
    if !peer::settle(peer, net, |_| {}).await {
        if !(peer.eof || peer.read_error.is_some()) {
            sim::violation("no-quiescence", "the endpoint kept producing traffic for the whole virtual deadline".into());
        }
        return false;
    }
    true
}

#[derive(Clone, Copy, PartialEq, Debug)]
enum Contradiction {
    None,
    DeliveryId,
    DeliveryTag,
    MessageFormat,
}

/// Send one delivery on `link`, possibly with frames of another link's delivery in
/// between; checks "nothing before the last frame" after every frame.
#[allow(clippy::too_many_arguments)]
async fn send_fragmented(
    peer: &mut Peer,
    net: &crate::net::NetHandle,
    ps: &mut PeerSession,
    links: &mut [Link],
    li: usize,
    uid: &mut u64,
    abort_at: Option<usize>,
    contradiction: Contradiction,
    check_each_frame: bool,
) -> bool {
    *uid += 1;
    let msg = msgs::gen_message(*uid, 400, 3);
    let payload = msgs::encode(&msg);
    let n = 1 + choice(pick(&[1u32, 3, 6])) as usize;
    let cuts = split_points(&payload, n);
    let mut pieces: Vec<&[u8]> = Vec::new();
    let mut start = 0;
    for c in &cuts {
        pieces.push(&payload[start..*c]);
        start = *c;
    }
    pieces.push(&payload[start..]);
    if pieces.iter().any(|p| p.is_empty()) {
        sim::probe("empty-payload-frame");
    }
    let id = ps.next_delivery_id;
    ps.next_delivery_id = id.wrapping_add(1);
    let tag = uid.to_be_bytes().to_vec();
    let settled_late = choice(4) == 1 && pieces.len() > 1;
    let other = if links.len() > 1 && choice(2) == 1 { Some(1 - li) } else { None };
    let interleave_at = choice(pieces.len() as u32) as usize;
    let before: Vec<usize> = links.iter().map(|l| l.log.borrow().received.len()).collect();
    let total = pieces.len();
    let contradict_at = if contradiction != Contradiction::None && total > 1 { 1 + choice(total as u32 - 1) as usize } else { usize::MAX };
    // a delivery the sender marks as resumed (every frame carries resume=true, as this crate's own
    // frame encoder writes it): reassembled like any other
    // (not together with a contradictory frame: a resuming final frame with another delivery-tag is
    // read by the crate as a delivery of its own, which is a reading of the resume flag, not a splice)
    let resumed = choice(5) == 0 && contradiction == Contradiction::None;
    if resumed && total > 1 {
        sim::probe("multi-frame-delivery-marked-resumed");
    }
    for (i, piece) in pieces.iter().enumerate() {
        let first = i == 0;
        let last = i + 1 == total;
        let aborted = abort_at == Some(i.min(total - 1)) || (abort_at.map(|a| a >= total).unwrap_or(false) && last);
        let mut t = TransferArgs {
            handle: links[li].peer_handle,
            delivery_id: if first || choice(2) == 1 { Some(id) } else { None },
            delivery_tag: if first || choice(2) == 1 { Some(tag.clone()) } else { None },
            message_format: if first || choice(3) == 1 { Some(0) } else { None },
            settled: if first { Some(!settled_late && choice(2) == 1) } else if last && settled_late { Some(true) } else { None },
            more: if last && !aborted { if choice(3) == 1 { Some(false) } else { None } } else { Some(true) },
            aborted: if aborted { Some(true) } else { None },
            resume: if resumed { Some(true) } else { None },
            ..Default::default()
        };
        if i == contradict_at {
            match contradiction {
                Contradiction::DeliveryId => t.delivery_id = Some(id.wrapping_add(7)),
                Contradiction::DeliveryTag => t.delivery_tag = Some(vec![0xde, 0xad]),
                Contradiction::MessageFormat => t.message_format = Some(99),
                Contradiction::None => {}
            }
            sim::fault("contradictory-continuation-field");
        }
        peer.send_with_payload(ps.channel, &peer::transfer(&t), piece).await;
        ps.on_transfer_sent();
        if aborted {
            sim::fault("delivery-aborted");
            if !quiesce(peer, net).await {
                return false;
            }
            let l = links[li].log.borrow();
            if l.received.len() != before[li] {
                sim::violation(
                    "aborted-delivery-delivered",
                    format!("a delivery aborted at frame {} of {} was handed to the application", i, total),
                );
                return false;
            }
            if let Some(e) = &l.error {
                sim::violation("aborted-delivery-error", format!("aborting a delivery at frame {} of {} made recv fail: {}", i, total, e));
                return false;
            }
            return true;
        }
        if !last && (check_each_frame || choice(3) == 1) {
            if !quiesce(peer, net).await {
                return false;
            }
            if contradiction == Contradiction::None {
                let got = links[li].log.borrow().received.len();
                if got != before[li] {
                    sim::violation(
                        "delivered-before-last-frame",
                        format!("after frame {} of {} the application had already received a message", i + 1, total),
                    );
                    return false;
                }
                sim::probe("checked-nothing-before-last-frame");
            }
        }
        if let (Some(o), true) = (other, i == interleave_at && !last) {
            // a complete single-frame delivery on the other link, between two frames of this one
            *uid += 1;
            let om = msgs::gen_message(*uid, 100, 1);
            let oid = ps.next_delivery_id;
            ps.next_delivery_id = oid.wrapping_add(1);
            let ot = TransferArgs {
                handle: links[o].peer_handle,
                delivery_id: Some(oid),
                delivery_tag: Some(uid.to_be_bytes().to_vec()),
                message_format: Some(0),
                settled: Some(true),
                ..Default::default()
            };
            peer.send_with_payload(ps.channel, &peer::transfer(&ot), &msgs::encode(&om)).await;
            ps.on_transfer_sent();
            links[o].sent.push(om);
            sim::probe("interleaved-other-link");
        }
    }
    if !quiesce(peer, net).await {
        return false;
    }
    if contradiction != Contradiction::None && contradict_at != usize::MAX {
        // the only acceptable results: an error, or nothing; never a message
        let l = links[li].log.borrow();
        if l.received.len() != before[li] {
            let got = l.received.last().unwrap();
            sim::violation(
                "spliced-message",
                format!(
                    "continuation frame {} contradicted {:?} of the delivery in progress, yet the application received a message ({}; equal to the original: {})",
                    contradict_at,
                    contradiction,
                    msgs::describe(got),
                    msgs::same_message(got, &msg)
                ),
            );
            return false;
        }
        if l.error.is_none() {
            sim::violation(
                "contradiction-not-reported",
                format!("continuation frame {} contradicted {:?} of the delivery in progress; recv neither failed nor was the link detached", contradict_at, contradiction),
            );
            return false;
        }
        sim::probe("contradiction-reported-as-error");
        return false; // the link is gone: end of the run
    }
    links[li].sent.push(msg);
    // exactly one more message on this link, equal to what was sent
    for (k, l) in links.iter().enumerate() {
        let log = l.log.borrow();
        if let Some(e) = &log.error {
            sim::violation("recv-error", format!("link {} recv failed on legal traffic: {}", k, e));
            return false;
        }
        if log.received.len() != l.sent.len() {
            sim::violation(
                if log.received.len() > l.sent.len() { "duplicate-or-early-delivery" } else { "delivery-missing" },
                format!(
                    "link {}: {} complete deliveries sent, application received {} (delivery of {} bytes in {} frames, cuts {:?})",
                    k,
                    l.sent.len(),
                    log.received.len(),
                    payload.len(),
                    total,
                    cuts
                ),
            );
            return false;
        }
        for (a, b) in log.received.iter().zip(l.sent.iter()) {
            if !msgs::same_message(a, b) || msgs::encode(a) != msgs::encode(b) {
                sim::violation(
                    "message-altered",
                    format!("link {}: reassembled message differs: sent {} got {} (frames {}, cuts {:?})", k, msgs::describe(b), msgs::describe(a), total, cuts),
                );
                return false;
            }
        }
    }
    true
}

async fn body(peer: &mut Peer, net: &crate::net::NetHandle, ps: &mut PeerSession, links: &mut [Link], illegal: bool, tight_credit: bool) {
    let n = 2 + choice(6) as usize;
    let mut uid = 20_000u64;
    let check_each = choice(2) == 1;
    for k in 0..n {
        let li = choice(links.len() as u32) as usize;
        let abort_at = if !illegal && choice(5) == 1 { Some(choice(6) as usize) } else { None };
        let contradiction = if illegal && k + 1 == n {
            pick(&[Contradiction::DeliveryId, Contradiction::DeliveryTag, Contradiction::MessageFormat])
        } else {
            Contradiction::None
        };
        if !send_fragmented(peer, net, ps, links, li, &mut uid, abort_at, contradiction, check_each).await {
            return;
        }
        if sim::has_violation() {
            return;
        }
        // with a credit of one or two the next delivery has to wait until the application has
        // disposed of this one and the link has topped the credit up again
        if tight_credit && !quiesce(peer, net).await {
            return;
        }
    }
}

pub async fn run_client() {
    let illegal = choice(5) == 1;
    let nlinks = 1 + choice(2) as usize;
    let accept = choice(2) == 1;
    let ccfg = EndpointCfg::default_cfg();
    let (nab, nba, nd) = world::draw_net(true);
    // what the scripted sender says about the frames it is prepared to *receive*; what it sends is
    // bound by the endpoint's own max-frame-size (65536) only, and its frames go up to ~1.3 KiB
    let peer_mfs = pick(&[65536u32, 512, 1024]);
    // a delivery takes one credit however many frames carry it: with a credit of 1 (topped up
    // after every disposal) a fragmented delivery must get through like a single-frame one
    let credit = if accept { pick(&[100u32, 100, 1, 2]) } else { 100 };
    // the receiver settles second: its dispositions are not settled (the scripted sender settles
    // nothing); reassembly is the same
    let rcv_second = credit == 100 && choice(3) == 0;
    sim::set_config(format!("side=client links={} accept={} illegal-variant={} peer-max-frame-size={} credit=Auto({}) rcv-second={} {}", nlinks, accept, illegal, peer_mfs, credit, rcv_second, nd));
    sim::mark_nontrivial();
    let cvp = match peer::client_vs_peer(&ccfg, peer::open("peer", Some(peer_mfs), Some(255), None), nab, nba, Models::none()).await {
        Some(x) => x,
        None => return,
    };
    let peer::ClientVsPeer { mut client, mut peer, net, .. } = cvp;
    let mut ps = PeerSession::new(0, pick(&[0u32, 17, u32::MAX - 2]), 5000, 5000);
    let begin_fut = sim::in_group(1, Session::builder().begin(&mut client));
    let peer_begin = async {
        let b = peer.expect(wire::BEGIN).await?;
        ps.on_remote_begin(b.perf.as_ref().unwrap(), b.channel);
        peer.send(ps.channel, &peer::begin(Some(b.channel), ps.next_outgoing_id, ps.incoming_window, ps.outgoing_window)).await;
        Some(())
    };
    let mut session = match sim::op("begin", world::join2(begin_fut, peer_begin)).await {
        Some((Ok(s), Some(()))) => s,
        Some((r, _)) => {
            sim::violation("begin-failed", format!("{:?}", r.map(|_| ())));
            return;
        }
        None => return,
    };
    let mut links = Vec::new();
    for i in 0..nlinks {
        let peer_handle = [3u32, 40][i];
        let name = format!("rcv-{}", i);
        let att = sim::in_group(
            1,
            Receiver::builder()
                .name(name.clone())
                .source("q")
                .credit_mode(CreditMode::Auto(credit))
                .receiver_settle_mode(if rcv_second { fe2o3_amqp::types::definitions::ReceiverSettleMode::Second } else { fe2o3_amqp::types::definitions::ReceiverSettleMode::First })
                .attach(&mut session),
        );
        let peer_att = async {
            let _a = peer.expect(wire::ATTACH).await?;
            let mut args = AttachArgs::sender(&name, peer_handle);
            if rcv_second {
                args.rcv_settle_mode = Some(1);
                sim::probe("receiver-settles-second");
            }
            args.initial_delivery_count = Some(pick(&[0u32, u32::MAX]));
            peer.send(ps.channel, &peer::attach(&args)).await;
            Some(())
        };
        match sim::op("attach receiver", world::join2(att, peer_att)).await {
            Some((Ok(r), Some(()))) => {
                let log = Rc::new(RefCell::new(AppLog::default()));
                spawn_app(r, log.clone(), accept);
                links.push(Link { peer_handle, log, sent: Vec::new() });
            }
            Some((r, _)) => {
                sim::violation("attach-failed", format!("{:?}", r.map(|_| ())));
                return;
            }
            None => return,
        }
    }
    body(&mut peer, &net, &mut ps, &mut links, illegal, credit < 100).await;
    if sim::has_violation() {
        return;
    }
    let td = async {
        let _ = tokio::time::timeout(std::time::Duration::from_secs(20), session.end()).await;
        let _ = tokio::time::timeout(std::time::Duration::from_secs(20), client.close()).await;
    };
    let _ = world::join2(td, peer::serve_teardown(&mut peer, 30_000)).await;
}

pub async fn run_listener() {
    let illegal = choice(5) == 1;
    let nlinks = 1 + choice(2) as usize;
    let accept = choice(2) == 1;
    let lcfg = EndpointCfg::default_cfg();
    let (nab, nba, nd) = world::draw_net(true);
    let peer_mfs = pick(&[65536u32, 512, 1024]);
    let rcv_second = choice(3) == 0;
    sim::set_config(format!("side=listener links={} accept={} illegal-variant={} peer-max-frame-size={} rcv-second={} {}", nlinks, accept, illegal, peer_mfs, rcv_second, nd));
    sim::mark_nontrivial();
    let pvl = match peer::peer_vs_listener(&lcfg, peer::open("peer", Some(peer_mfs), Some(255), None), nab, nba, Models::none()).await {
        Some(x) => x,
        None => return,
    };
    let peer::ListenerVsPeer { mut listener, mut peer, net, .. } = pvl;
    let mut ps = PeerSession::new(1, 5, 5000, 5000);
    let logs: Vec<Rc<RefCell<AppLog>>> = (0..nlinks).map(|_| Rc::new(RefCell::new(AppLog::default()))).collect();
    let logs2 = logs.clone();
    let ready: world::Slot<Result<(), String>> = world::Slot::new();
    let ready2 = ready.clone();
    let acc = SessionAcceptor::new();
    sim::spawn(
        "listener-app",
        sim::in_group(2, async move {
            let mut sess = match acc.accept(&mut listener).await {
                Ok(s) => s,
                Err(e) => {
                    ready2.put(Err(format!("session accept: {:?}", e)));
                    return;
                }
            };
            let la = LinkAcceptor::new();
            for i in 0..nlinks {
                match la.accept(&mut sess).await {
                    Ok(LinkEndpoint::Receiver(r)) => {
                        let idx: usize = r.name().trim_start_matches("lrcv-").parse().unwrap_or(i);
                        spawn_app(r, logs2[idx].clone(), accept);
                    }
                    Ok(_) => {
                        ready2.put(Err("expected a receiver endpoint".into()));
                        return;
                    }
                    Err(e) => {
                        ready2.put(Err(format!("link accept: {:?}", e)));
                        return;
                    }
                }
            }
            ready2.put(Ok(()));
            let _ = sess.on_end().await;
            let _ = listener.on_close().await;
        }),
    );
    peer.send(ps.channel, &peer::begin(None, ps.next_outgoing_id, ps.incoming_window, ps.outgoing_window)).await;
    let b = match peer.expect(wire::BEGIN).await {
        Some(b) => b,
        None => {
            sim::violation("begin-failed", "listener did not answer begin".into());
            return;
        }
    };
    ps.on_remote_begin(b.perf.as_ref().unwrap(), b.channel);
    let mut links = Vec::new();
    for i in 0..nlinks {
        let peer_handle = [0u32, 9][i];
        let mut args = AttachArgs::sender(&format!("lrcv-{}", i), peer_handle);
        args.initial_delivery_count = Some(pick(&[0u32, 1000]));
        if rcv_second {
            args.rcv_settle_mode = Some(1);
        }
        peer.send(ps.channel, &peer::attach(&args)).await;
        match peer.expect(wire::ATTACH).await {
            None => {
                sim::violation("attach-failed", "listener did not answer attach".into());
                return;
            }
            Some(a) => {
                if rcv_second && a.perf.as_ref().unwrap().field(4).as_u64() == Some(1) {
                    sim::probe("receiver-settles-second");
                }
            }
        }
        links.push(Link { peer_handle, log: logs[i].clone(), sent: Vec::new() });
    }
    match sim::op("listener link accept", ready.take()).await {
        Some(Ok(())) => {}
        Some(Err(e)) => {
            sim::violation("attach-failed", e);
            return;
        }
        None => return,
    }
    if !quiesce(&mut peer, &net).await {
        return;
    }
    body(&mut peer, &net, &mut ps, &mut links, illegal, false).await;
    if sim::has_violation() {
        return;
    }
    peer.send(0, &peer::close(None)).await;
    let _ = peer.drain_for(2000).await;
}
