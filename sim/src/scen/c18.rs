//! C18 — transactions on the listener side are atomic and isolated until discharge.
//!
//! (a) real client (controller) <-> real listener (resource, control link acceptor enabled):
//!     seeded histories of declare / transactional post / plain send / commit / rollback /
//!     controller teardown / session end over up to three concurrent transactions and two
//!     links, judged against a reference model of what the receiving application may see and
//!     when (checked at simulator-proven quiescence before and after every discharge).
//! (b) scripted controller <-> real listener: discharge of never-declared and finished ids,
//!     posts to unknown and finished ids, fresh ids per declare.
//! (c) real client controller <-> scripted resource: what declare / post / commit / rollback put
//!     on the wire and how the coordinator's outcome is reported.

use std::cell::RefCell;
use std::collections::BTreeSet;
use std::future::Future;
use std::rc::Rc;

use fe2o3_amqp::acceptor::{LinkAcceptor, LinkEndpoint, SessionAcceptor};
use fe2o3_amqp::transaction::coordinator::ControlLinkAcceptor;
use fe2o3_amqp::transaction::{Controller, Transaction, TransactionDischarge, TransactionPosting, TransactionRetirement};
use fe2o3_amqp::types::messaging::{AmqpValue, Body};
use fe2o3_amqp::types::primitives::{Binary, Value};
use fe2o3_amqp::{Receiver, Sender, Session};

use crate::chooser::{choice, pick};
use crate::msgs::{self, Msg};
use crate::peer::{self, AttachArgs, FlowArgs, Peer, TransferArgs};
use crate::refcodec::{self, V};
use crate::sim;
use crate::wire::{self, Item, Models};
use crate::world::{self, EndpointCfg, Slot};

fn message(uid: u64, big: bool) -> Msg {
    let mut m = msgs::gen_message(uid, 100, 1);
    if big {
        let mut b = uid.to_be_bytes().to_vec();
        b.resize(1300, (uid % 251) as u8);
        m.body = Body::Value(AmqpValue(Value::Binary(Binary::from(b))));
    }
    m
}

#[derive(Clone, Debug, PartialEq)]
enum TxnFate {
    Live,
    Committed,
    RolledBack,
    /// the controlling link went away, or the session ended, without a discharge
    Abandoned,
}

#[derive(Clone, Debug)]
struct TxnModel {
    controller: usize,
    posts: Vec<(usize, u64)>, // (link, uid) in posting order
    /// deliveries of the feed link retired under this transaction: (uid, outcome name)
    retires: Vec<(u64, &'static str)>,
    fate: TxnFate,
}

/// What the listener's sending application has learnt about its deliveries: uid -> resolved outcome
type FeedOutcomes = Rc<RefCell<Vec<(u64, String)>>>;

fn feed_outcome_of(f: &FeedOutcomes, uid: u64) -> Option<String> {
    f.borrow().iter().find(|x| x.0 == uid).map(|x| x.1.clone())
}

/// Retirements are part of the transaction's work: the sender must learn of none of them before the
/// discharge, of all of them (with the outcome that was given) after a commit, of none after a rollback
fn check_retirements(feed: &FeedOutcomes, m: &TxnModel, phase: &str) -> bool {
    for (uid, want) in &m.retires {
        let got = feed_outcome_of(feed, *uid);
        match phase {
            "before" | "rolled-back" | "abandoned" => {
                if let Some(g) = got {
                    if !g.starts_with("Err") {
                        sim::violation(
                            if phase == "before" { "retirement-applied-before-discharge" } else { "retirement-applied-without-commit" },
                            format!("delivery {} was retired ({}) under a transaction ({}); the sending application already has the outcome {}", uid, want, phase, g),
                        );
                        return false;
                    }
                }
            }
            _ => match got {
                Some(g) if g.contains(want) => {}
                other => {
                    sim::violation(
                        "retirement-not-applied-after-commit",
                        format!("delivery {} was retired ({}) under a transaction that committed; the sending application has {:?}", uid, want, other),
                    );
                    return false;
                }
            },
        }
    }
    true
}

type Delivered = Rc<RefCell<Vec<(usize, u64)>>>;

fn delivered_of(delivered: &Delivered, posts: &[(usize, u64)]) -> Vec<(usize, u64)> {
    let d = delivered.borrow();
    d.iter().filter(|x| posts.contains(x)).cloned().collect()
}

pub async fn run_pair() {
    let mut ccfg = EndpointCfg::default_cfg();
    let mut lcfg = EndpointCfg::default_cfg();
    let mfs = pick(&[65536u32, 65536, 512]);
    ccfg.max_frame_size = mfs;
    lcfg.max_frame_size = mfs;
    let (nab, nba, nd) = world::draw_net(false);
    let n_ctrl = 1 + choice(2) as usize;
    let end_with_session = choice(4) == 0;
    // a third link in the other direction: the listener sends, the client receives and retires
    // deliveries under its transactions
    let n_feed = pick(&[0u64, 3, 6]);
    // a max-message-size on the posting links: the controller's sending link cuts a big post into
    // several transfers, every one of which belongs to the transaction
    let mms = pick(&[None, None, Some(500u64)]);
    sim::set_config(format!("variant=pair controllers={} max-frame-size={} end-with-live-txns-by-session-end={} feed={} posting-link-max-message-size={:?} {}", n_ctrl, mfs, end_with_session, n_feed, mms, nd));
    sim::mark_nontrivial();
    sim::set_panic_is_violation(true);
    let mut models = Models::none();
    models.link = true;
    models.delivery = true;
    let mut pair = match world::open_pair(&ccfg, &lcfg, nab, nba, models).await {
        Some(p) => p,
        None => return,
    };
    // listener: a session acceptor that accepts control links
    let acc = SessionAcceptor::builder().control_link_acceptor(ControlLinkAcceptor::default()).build();
    let cb = sim::in_group(1, Session::begin(&mut pair.client));
    let lb = sim::in_group(2, async { acc.accept(&mut pair.listener).await });
    let (mut csess, mut lsess) = match sim::op("begin", world::join2(cb, lb)).await {
        Some((Ok(c), Ok(l))) => (c, l),
        Some((c, l)) => {
            sim::violation("begin-failed", format!("{:?} / {:?}", c.map(|_| ()), l.map(|_| ())));
            return;
        }
        None => return,
    };
    let delivered: Delivered = Rc::new(RefCell::new(Vec::new()));
    let recv_errors: Rc<RefCell<Vec<String>>> = Rc::new(RefCell::new(Vec::new()));
    let lsess_done: Slot<String> = Slot::new();
    let feed: FeedOutcomes = Rc::new(RefCell::new(Vec::new()));
    {
        let (del, errs, ld) = (delivered.clone(), recv_errors.clone(), lsess_done.clone());
        let feed2 = feed.clone();
        sim::spawn(
            "listener-session",
            sim::in_group(2, async move {
                let la = match mms {
                    Some(m) => LinkAcceptor::builder().max_message_size(m).build(),
                    None => LinkAcceptor::new(),
                };
                for _ in 0..(if n_feed > 0 { 3 } else { 2 }) {
                    match la.accept(&mut lsess).await {
                        Ok(LinkEndpoint::Sender(mut s)) => {
                            let feed3 = feed2.clone();
                            sim::spawn("listener-feed", async move {
                                let mut futs = Vec::new();
                                for k in 0..n_feed {
                                    let uid = 9000 + k;
                                    match s.send_batchable(message(uid, false)).await {
                                        Ok(f) => futs.push((uid, f)),
                                        Err(_) => break,
                                    }
                                }
                                // outcomes in whatever order they come
                                let mut pending: Vec<_> = futs.into_iter().map(|(uid, f)| (uid, Box::pin(f))).collect();
                                while !pending.is_empty() {
                                    let (uid, r) = std::future::poll_fn(|cx| {
                                        for i in 0..pending.len() {
                                            if let std::task::Poll::Ready(r) = pending[i].1.as_mut().poll(cx) {
                                                let (uid, _) = pending.remove(i);
                                                return std::task::Poll::Ready((uid, r));
                                            }
                                        }
                                        std::task::Poll::Pending
                                    })
                                    .await;
                                    feed3.borrow_mut().push((uid, match r {
                                        Ok(o) => format!("{:?}", o),
                                        Err(e) => format!("Err({:?})", e),
                                    }));
                                    sim::note_progress();
                                }
                                let _ = tokio::time::timeout(std::time::Duration::from_secs(30), s.close()).await;
                            });
                        }
                        Ok(LinkEndpoint::Receiver(mut r)) => {
                            let idx: usize = if r.name() == "L0" { 0 } else { 1 };
                            let (del2, errs2) = (del.clone(), errs.clone());
                            sim::spawn("listener-receiver", async move {
                                loop {
                                    match r.recv::<Body<Value>>().await {
                                        Ok(d) => {
                                            let _ = r.accept(&d).await;
                                            del2.borrow_mut().push((idx, msgs::uid_of(d.message()).unwrap_or(0)));
                                            sim::note_progress();
                                        }
                                        Err(e) => {
                                            let es = format!("{:?}", e);
                                            if !(es.contains("RemoteClosed") || es.contains("RemoteDetached") || es.contains("SessionStopped")) {
                                                errs2.borrow_mut().push(format!("receiver L{}: {}", idx, es));
                                            }
                                            let _ = tokio::time::timeout(std::time::Duration::from_secs(30), r.close()).await;
                                            break;
                                        }
                                    }
                                }
                            });
                        }
                        Ok(_) => {}
                        Err(e) => {
                            errs.borrow_mut().push(format!("link accept: {:?}", e));
                            break;
                        }
                    }
                }
                let r = lsess.on_end().await;
                ld.put(format!("{:?}", r));
            }),
        );
    }
    let mut senders: Vec<Sender> = Vec::new();
    for i in 0..2 {
        match sim::op("attach sender", sim::in_group(1, Sender::attach(&mut csess, format!("L{}", i), "q"))).await {
            Some(Ok(s)) => senders.push(s),
            Some(Err(e)) => {
                sim::violation("attach-failed", format!("{:?}", e));
                return;
            }
            None => return,
        }
    }
    let mut feed_rcv: Option<Receiver> = None;
    if n_feed > 0 {
        match sim::op("attach feed receiver", sim::in_group(1, Receiver::attach(&mut csess, "F", "q"))).await {
            Some(Ok(r)) => feed_rcv = Some(r),
            Some(Err(e)) => {
                sim::violation("attach-failed", format!("{:?}", e));
                return;
            }
            None => return,
        }
    }
    let mut feed_taken = 0u64;
    let mut plain_retired: Vec<u64> = Vec::new();
    let mut controllers: Vec<Option<Controller>> = Vec::new();
    for i in 0..n_ctrl {
        match sim::op("attach controller", sim::in_group(1, Controller::attach(&mut csess, format!("ctrl-{}", i)))).await {
            Some(Ok(c)) => controllers.push(Some(c)),
            Some(Err(e)) => {
                sim::violation("controller-attach-failed", format!("{:?}", e));
                return;
            }
            None => return,
        }
    }
    // The transactions borrow their controllers: keep the controllers in a leaked slice so that
    // both can be stored side by side for the length of the run (one run = one process-lifetime
    // of these few objects)
    let ctrl_refs: Vec<&'static Controller> = controllers.iter_mut().map(|c| &*Box::leak(Box::new(c.take().unwrap()))).collect();
    let mut ctrl_alive = vec![true; n_ctrl];
    let mut txns: Vec<(TxnModel, Option<Transaction<'static>>)> = Vec::new();
    let mut ids_seen: BTreeSet<Vec<u8>> = BTreeSet::new();
    let mut plain: Vec<(usize, u64)> = Vec::new();
    let mut uid = 1000u64;
    let n_ops = 6 + choice(10);
    for _ in 0..n_ops {
        if sim::has_violation() {
            return;
        }
        let live: Vec<usize> = txns.iter().enumerate().filter(|(_, (m, t))| m.fate == TxnFate::Live && t.is_some()).map(|(i, _)| i).collect();
        let op = choice(if n_feed > 0 { 13 } else { 10 });
        match op {
            0 | 1 if live.len() < 3 => {
                let alive: Vec<usize> = (0..n_ctrl).filter(|c| ctrl_alive[*c]).collect();
                if alive.is_empty() {
                    continue;
                }
                let c = alive[choice(alive.len() as u32) as usize];
                match sim::op("declare", Transaction::declare(ctrl_refs[c], None)).await {
                    Some(Ok(mut t)) => {
                        // (dropping an undischarged transaction sleeps on the real clock: never in the simulation)
                        t.set_rollback_on_drop_trials(0);
                        let id: Vec<u8> = {
                            use fe2o3_amqp::transaction::TransactionBase;
                            AsRef::<[u8]>::as_ref(t.txn_id()).to_vec()
                        };
                        if !ids_seen.insert(id.clone()) {
                            sim::violation("transaction-id-reused", format!("declare returned the transaction id {:?} a second time", id));
                            return;
                        }
                        sim::probe("declared");
                        txns.push((TxnModel { controller: c, posts: Vec::new(), retires: Vec::new(), fate: TxnFate::Live }, Some(t)));
                    }
                    Some(Err(e)) => {
                        sim::violation("declare-failed", format!("{:?}", e));
                        return;
                    }
                    None => return,
                }
            }
            2 | 3 | 4 if !live.is_empty() => {
                let ti = live[choice(live.len() as u32) as usize];
                let link = choice(2) as usize;
                uid += 1;
                let big = choice(4) == 0;
                let (m, t) = &mut txns[ti];
                let t = t.as_ref().unwrap();
                // three ways to post: plain, batchable (outcome awaited separately), pre-settled
                let how = choice(3);
                let r = match how {
                    0 => sim::op("post", t.post(&mut senders[link], message(uid, big))).await.map(|r| r.map(|_| ())),
                    1 => match sim::op("post_batchable", t.post_batchable(&mut senders[link], message(uid, big))).await {
                        Some(Ok(fut)) => sim::op("outcome of a batchable post", fut).await.map(|r| r.map(|_| ())),
                        Some(Err(e)) => Some(Err(e)),
                        None => None,
                    },
                    _ => {
                        let sendable = fe2o3_amqp::Sendable::builder().message(message(uid, big)).settled(true).build();
                        sim::op("post settled", t.post(&mut senders[link], sendable)).await.map(|r| r.map(|_| ()))
                    }
                };
                match r {
                    Some(Ok(())) => {
                        m.posts.push((link, uid));
                        sim::probe(if big { "posted-multi-frame" } else { "posted" });
                        if big && mms.is_some() {
                            sim::probe("post-split-by-the-link-at-max-message-size");
                        }
                    }
                    Some(Err(e)) => {
                        sim::violation("post-failed", format!("post of message {} (big={}) under a live transaction failed: {:?}", uid, big, e));
                        return;
                    }
                    None => return,
                }
            }
            10 | 11 | 12 if feed_rcv.is_some() && feed_taken < n_feed => {
                // take the next delivery of the feed link and retire it: under a live transaction
                // (accepted, rejected or released) or plainly
                let rcv = feed_rcv.as_mut().unwrap();
                let d = match sim::op("recv on the feed link", rcv.recv::<Body<Value>>()).await {
                    Some(Ok(d)) => d,
                    Some(Err(e)) => {
                        sim::violation("feed-recv-failed", format!("{:?}", e));
                        return;
                    }
                    None => return,
                };
                feed_taken += 1;
                let duid = msgs::uid_of(d.message()).unwrap_or(0);
                if live.is_empty() || choice(4) == 0 {
                    if let Some(Err(e)) = sim::op("plain accept on the feed link", rcv.accept(&d)).await {
                        sim::violation("feed-dispose-failed", format!("{:?}", e));
                        return;
                    }
                    plain_retired.push(duid);
                } else {
                    let ti = live[choice(live.len() as u32) as usize];
                    let (m, t) = &mut txns[ti];
                    let t = t.as_ref().unwrap();
                    let (name, r) = match choice(3) {
                        0 => ("Accepted", sim::op("transactional accept", t.accept(rcv, &d)).await),
                        1 => ("Rejected", sim::op("transactional reject", t.reject(rcv, &d, None)).await),
                        _ => ("Released", sim::op("transactional release", t.release(rcv, &d)).await),
                    };
                    match r {
                        Some(Ok(())) => {
                            m.retires.push((duid, name));
                            sim::probe("retired-under-transaction");
                        }
                        Some(Err(e)) => {
                            sim::violation("retire-failed", format!("transactional {} of delivery {} failed: {:?}", name, duid, e));
                            return;
                        }
                        None => return,
                    }
                }
            }
            5 => {
                let link = choice(2) as usize;
                uid += 1;
                match sim::op("plain send", senders[link].send(message(uid, choice(5) == 0))).await {
                    Some(Ok(_)) => plain.push((link, uid)),
                    Some(Err(e)) => {
                        sim::violation("send-failed", format!("plain send failed: {:?}", e));
                        return;
                    }
                    None => return,
                }
            }
            6 | 7 | 8 if !live.is_empty() => {
                let ti = live[choice(live.len() as u32) as usize];
                let commit = op != 8;
                // isolation: nothing of the transaction has reached the application so far
                world::quiesce_pair(&pair.net).await;
                let early = delivered_of(&delivered, &txns[ti].0.posts);
                if !early.is_empty() {
                    sim::violation(
                        "delivered-before-discharge",
                        format!("messages {:?} posted under a transaction reached the receiving application before the discharge", early),
                    );
                    return;
                }
                if !check_retirements(&feed, &txns[ti].0, "before") {
                    return;
                }
                sim::probe("isolation-checked");
                let t = txns[ti].1.take().unwrap();
                let r = if commit { sim::op("commit", t.commit()).await } else { sim::op("rollback", t.rollback()).await };
                match r {
                    Some(Ok(())) => {}
                    Some(Err(e)) => {
                        sim::violation("discharge-failed", format!("{} of a live transaction failed: {:?}", if commit { "commit" } else { "rollback" }, e));
                        return;
                    }
                    None => return,
                }
                world::quiesce_pair(&pair.net).await;
                let got = delivered_of(&delivered, &txns[ti].0.posts);
                if commit {
                    txns[ti].0.fate = TxnFate::Committed;
                    // all of them, per link in posting order
                    for link in 0..2 {
                        let want: Vec<u64> = txns[ti].0.posts.iter().filter(|p| p.0 == link).map(|p| p.1).collect();
                        let have: Vec<u64> = got.iter().filter(|p| p.0 == link).map(|p| p.1).collect();
                        if want != have {
                            sim::violation(
                                "commit-not-atomic",
                                format!("link L{}: posted under the committed transaction {:?}, delivered to the application {:?}", link, want, have),
                            );
                            return;
                        }
                    }
                    if !check_retirements(&feed, &txns[ti].0, "committed") {
                        return;
                    }
                    sim::probe("commit-checked");
                } else {
                    txns[ti].0.fate = TxnFate::RolledBack;
                    if !got.is_empty() {
                        sim::violation("delivered-after-rollback", format!("messages {:?} of a rolled-back transaction reached the application", got));
                        return;
                    }
                    if !check_retirements(&feed, &txns[ti].0, "rolled-back") {
                        return;
                    }
                    sim::probe("rollback-checked");
                }
            }
            9 if choice(2) == 0 => {
                // a controlling link goes away with its live transactions
                let alive: Vec<usize> = (0..n_ctrl).filter(|c| ctrl_alive[*c]).collect();
                if alive.is_empty() {
                    continue;
                }
                let c = alive[choice(alive.len() as u32) as usize];
                for (m, t) in txns.iter_mut().filter(|(m, _)| m.controller == c && m.fate == TxnFate::Live) {
                    m.fate = TxnFate::Abandoned;
                    if let Some(t) = t.take() {
                        std::mem::forget(t);
                    }
                }
                ctrl_alive[c] = false;
                // the handle is leaked; closing needs ownership: read it back out of the leaked box
                let owned: Controller = unsafe { std::ptr::read(ctrl_refs[c] as *const Controller) };
                match choice(2) {
                    0 => {
                        if sim::op("controller close", owned.close()).await.is_none() {
                            return;
                        }
                    }
                    _ => drop(owned),
                }
                sim::fault("controller-gone-with-live-transactions");
            }
            _ => {}
        }
    }
    // ---- the end: live transactions are committed, rolled back, or left behind
    let live: Vec<usize> = txns.iter().enumerate().filter(|(_, (m, t))| m.fate == TxnFate::Live && t.is_some()).map(|(i, _)| i).collect();
    for ti in live {
        let t = txns[ti].1.take().unwrap();
        if end_with_session {
            txns[ti].0.fate = TxnFate::Abandoned;
            std::mem::forget(t);
            continue;
        }
        match choice(2) {
            0 => match sim::op("final commit", t.commit()).await {
                Some(Ok(())) => txns[ti].0.fate = TxnFate::Committed,
                Some(Err(e)) => {
                    sim::violation("discharge-failed", format!("final commit failed: {:?}", e));
                    return;
                }
                None => return,
            },
            _ => match sim::op("final rollback", t.rollback()).await {
                Some(Ok(())) => txns[ti].0.fate = TxnFate::RolledBack,
                Some(Err(e)) => {
                    sim::violation("discharge-failed", format!("final rollback failed: {:?}", e));
                    return;
                }
                None => return,
            },
        }
    }
    world::quiesce_pair(&pair.net).await;
    for (m, _) in &txns {
        let phase = match m.fate {
            TxnFate::Committed => "committed",
            TxnFate::RolledBack => "rolled-back",
            _ => "abandoned",
        };
        if !check_retirements(&feed, m, phase) {
            return;
        }
    }
    for u in &plain_retired {
        match feed_outcome_of(&feed, *u) {
            Some(g) if g.contains("Accepted") => {}
            other => {
                sim::violation("plain-retirement-lost", format!("delivery {} was accepted outside any transaction; the sending application has {:?}", u, other));
                return;
            }
        }
    }
    if let Some(r) = feed_rcv.take() {
        let _ = sim::op("feed receiver close", r.close()).await;
    }
    for s in senders {
        let _ = sim::op("sender close", s.close()).await;
    }
    for c in 0..n_ctrl {
        if ctrl_alive[c] {
            let owned: Controller = unsafe { std::ptr::read(ctrl_refs[c] as *const Controller) };
            let _ = sim::op("controller close", owned.close()).await;
        }
    }
    if sim::op("session end", csess.end()).await.is_none() {
        return;
    }
    if sim::op("listener session", lsess_done.take()).await.is_none() {
        return;
    }
    let _ = sim::op("connection close", pair.client.close()).await;
    world::quiesce_pair(&pair.net).await;
    sim::sleep_ms(2000).await;
    if sim::has_violation() {
        return;
    }
    // ---- the whole history against the model
    if let Some(e) = recv_errors.borrow().first() {
        sim::violation("receiver-error", format!("the receiving application saw an error: {}", e));
        return;
    }
    let d = delivered.borrow();
    let mut expected: Vec<(usize, u64)> = plain.clone();
    for (m, _) in &txns {
        if m.fate == TxnFate::Committed {
            expected.extend(m.posts.iter().cloned());
        }
    }
    for x in d.iter() {
        if d.iter().filter(|y| *y == x).count() > 1 {
            sim::violation("duplicate-delivery", format!("message {:?} was delivered twice", x));
            return;
        }
        if !expected.contains(x) {
            let owner = txns.iter().find(|(m, _)| m.posts.contains(x)).map(|(m, _)| m.fate.clone());
            sim::violation(
                "undischarged-work-delivered",
                format!("message {:?} reached the application although its transaction ended as {:?}", x, owner),
            );
            return;
        }
    }
    for x in &expected {
        if !d.contains(x) {
            sim::violation("committed-or-plain-message-lost", format!("message {:?} (plain or committed) never reached the application; delivered {:?}", x, *d));
            return;
        }
    }
    // plain messages keep their order per link
    for link in 0..2 {
        let want: Vec<u64> = plain.iter().filter(|p| p.0 == link).map(|p| p.1).collect();
        let have: Vec<u64> = d.iter().filter(|p| p.0 == link && plain.contains(p)).map(|p| p.1).collect();
        if want != have {
            sim::violation("plain-order", format!("link L{}: plain sends {:?}, delivered {:?}", link, want, have));
            return;
        }
    }
    sim::probe("history-checked");
}

// ---------------------------------------------------------------------------------------
// (b) scripted controller against the real listener

const DECLARE: u64 = 0x31;
const DISCHARGE: u64 = 0x32;
const DECLARED: u64 = 0x33;
const TXN_STATE: u64 = 0x34;
const COORDINATOR: u64 = 0x30;
const REJECTED: u64 = 0x25;

fn amqp_value_message(v: &V) -> Vec<u8> {
    // one body section: amqp-value
    refcodec::encode(&V::Described(Box::new(V::Ulong(0x77)), Box::new(v.clone())))
}

fn txn_state(id: &[u8], outcome: Option<V>) -> V {
    refcodec::described(TXN_STATE, refcodec::trim_nulls(vec![V::Bin(id.to_vec()), outcome.unwrap_or(V::Null)]))
}

struct ScriptedController {
    peer: Peer,
    next_id: u32,
    ctrl_count: u32,
}

impl ScriptedController {
    async fn control(&mut self, body: &V) -> Option<V> {
        // a transfer on the control link (handle 9), answered by a disposition carrying the outcome
        let id = self.next_id;
        self.next_id += 1;
        self.ctrl_count += 1;
        let t = TransferArgs { handle: 9, delivery_id: Some(id), delivery_tag: Some(vec![0xC0, self.ctrl_count as u8]), message_format: Some(0), settled: Some(false), ..Default::default() };
        self.peer.send_with_payload(0, &peer::transfer(&t), &amqp_value_message(body)).await;
        let deadline = tokio::time::Instant::now() + std::time::Duration::from_secs(60);
        while tokio::time::Instant::now() < deadline {
            match self.peer.recv_within(1000).await {
                Some(Item::Frame(f)) if f.code == wire::DISPOSITION => {
                    let p = f.perf.as_ref().unwrap();
                    if p.field(1).as_u32() == Some(id) {
                        return Some(p.field(4).clone());
                    }
                }
                Some(Item::Frame(f)) if f.code == wire::DETACH || f.code == wire::END || f.code == wire::CLOSE => {
                    self.peer.unread(Item::Frame(f));
                    return None;
                }
                Some(_) => {}
                None => {
                    if self.peer.eof {
                        return None;
                    }
                }
            }
        }
        None
    }
    async fn declare(&mut self) -> Option<Vec<u8>> {
        let st = self.control(&refcodec::described(DECLARE, vec![])).await?;
        if st.descriptor_code() == Some(DECLARED) {
            match st.field(0) {
                V::Bin(b) => Some(b.clone()),
                _ => None,
            }
        } else {
            None
        }
    }
    async fn discharge(&mut self, id: &[u8], fail: bool) -> Option<V> {
        self.control(&refcodec::described(DISCHARGE, vec![V::Bin(id.to_vec()), V::Bool(fail)])).await
    }
    /// a commit as some controllers write it: the fail field (default false) left out or null
    async fn discharge_default(&mut self, id: &[u8], explicit_null: bool) -> Option<V> {
        let fields = if explicit_null { vec![V::Bin(id.to_vec()), V::Null] } else { vec![V::Bin(id.to_vec())] };
        self.control(&refcodec::described(DISCHARGE, fields)).await
    }
    async fn post(&mut self, id: &[u8], uid: u64) {
        let did = self.next_id;
        self.next_id += 1;
        let t = TransferArgs { handle: 8, delivery_id: Some(did), delivery_tag: Some(uid.to_be_bytes().to_vec()), message_format: Some(0), settled: Some(false), state: Some(txn_state(id, None)), ..Default::default() };
        self.peer.send_with_payload(0, &peer::transfer(&t), &msgs::encode(&message(uid, false))).await;
    }
}

fn is_txn_rejection(st: &V) -> bool {
    st.descriptor_code() == Some(REJECTED) && wire::error_condition(st.field(0)).map(|c| c.starts_with("amqp:transaction:")).unwrap_or(false)
}

pub async fn run_scripted_controller() {
    let lcfg = EndpointCfg::default_cfg();
    let (nab, nba, nd) = world::draw_net(false);
    let script = choice(5);
    sim::set_config(format!(
        "variant=scripted-controller script={} {}",
        ["discharge-never-declared", "discharge-twice", "post-after-discharge", "post-unknown-id", "many-declares"][script as usize],
        nd
    ));
    sim::mark_nontrivial();
    sim::set_panic_is_violation(true);
    let lvp = match peer::peer_vs_listener(&lcfg, peer::open("ctrl", Some(65536), Some(255), None), nab, nba, Models::none()).await {
        Some(x) => x,
        None => return,
    };
    let peer::ListenerVsPeer { mut listener, mut peer, net, .. } = lvp;
    let acc = SessionAcceptor::builder().control_link_acceptor(ControlLinkAcceptor::default()).build();
    let lb = sim::in_group(2, async { acc.accept(&mut listener).await });
    let pb = async {
        peer.send(0, &peer::begin(None, 0, 2048, 2048)).await;
        peer.expect(wire::BEGIN).await
    };
    let mut lsess = match sim::op("accept session", world::join2(lb, pb)).await {
        Some((Ok(s), Some(_))) => s,
        _ => return,
    };
    let delivered: Rc<RefCell<Vec<u64>>> = Rc::new(RefCell::new(Vec::new()));
    let recv_err: Rc<RefCell<Option<String>>> = Rc::new(RefCell::new(None));
    let ldone: Slot<String> = Slot::new();
    {
        let (del, ld, re) = (delivered.clone(), ldone.clone(), recv_err.clone());
        sim::spawn(
            "listener-session",
            sim::in_group(2, async move {
                let la = LinkAcceptor::new();
                if let Ok(LinkEndpoint::Receiver(mut r)) = la.accept(&mut lsess).await {
                    let (del2, re2) = (del.clone(), re.clone());
                    sim::spawn("listener-receiver", async move {
                        loop {
                            match r.recv::<Body<Value>>().await {
                                Ok(d) => {
                                    let _ = r.accept(&d).await;
                                    del2.borrow_mut().push(msgs::uid_of(d.message()).unwrap_or(0));
                                }
                                Err(e) => {
                                    *re2.borrow_mut() = Some(format!("{:?}", e));
                                    let _ = tokio::time::timeout(std::time::Duration::from_secs(30), r.close()).await;
                                    break;
                                }
                            }
                        }
                    });
                }
                let r = lsess.on_end().await;
                ld.put(format!("{:?}", r));
            }),
        );
    }
    // the data link (peer handle 8) and the control link (peer handle 9)
    peer.send(0, &peer::attach(&AttachArgs::sender("data", 8))).await;
    if sim::op("data attach", peer.expect(wire::ATTACH)).await.flatten().is_none() {
        return;
    }
    if sim::op("data flow", peer.expect(wire::FLOW)).await.flatten().is_none() {
        return;
    }
    let mut a = AttachArgs::sender("control", 9);
    a.target = refcodec::described(COORDINATOR, vec![V::Array(vec![V::Sym("amqp:local-transactions".into())])]);
    peer.send(0, &peer::attach(&a)).await;
    if sim::op("control attach", peer.expect(wire::ATTACH)).await.flatten().is_none() {
        return;
    }
    if sim::op("control flow", peer.expect(wire::FLOW)).await.flatten().is_none() {
        return;
    }
    let mut c = ScriptedController { peer, next_id: 0, ctrl_count: 0 };
    let bogus: Vec<u8> = (0..16).map(|_| choice(256) as u8).collect();
    match script {
        0 => {
            // discharge of an id that was never declared (commit and rollback)
            let _live = c.declare().await;
            let st = c.discharge(&bogus, choice(2) == 1).await;
            match st {
                Some(st) if is_txn_rejection(&st) => sim::probe("unknown-id-refused"),
                other => {
                    sim::violation("unknown-id-not-refused", format!("discharge of a never-declared id was answered with {:?}", other));
                    return;
                }
            }
        }
        1 => {
            let id = match c.declare().await {
                Some(id) => id,
                None => {
                    sim::violation("declare-failed", "declare was not answered with declared".into());
                    return;
                }
            };
            c.post(&id, 501).await;
            let first_fail = choice(2) == 1;
            let st = if !first_fail && choice(2) == 1 {
                sim::probe("discharge-with-fail-left-out");
                c.discharge_default(&id, choice(2) == 1).await
            } else {
                c.discharge(&id, first_fail).await
            };
            if st.as_ref().map(|s| s.descriptor_code() != Some(0x24)).unwrap_or(true) {
                sim::violation("discharge-failed", format!("first discharge answered with {:?}", st));
                return;
            }
            let st2 = c.discharge(&id, choice(2) == 1).await;
            match st2 {
                Some(st) if is_txn_rejection(&st) => sim::probe("second-discharge-refused"),
                other => {
                    sim::violation("second-discharge-not-refused", format!("the second discharge of one id was answered with {:?}", other));
                    return;
                }
            }
            world::quiesce_pair(&net).await;
            let d = delivered.borrow().clone();
            let want: Vec<u64> = if first_fail { vec![] } else { vec![501] };
            if d != want {
                sim::violation("discharge-twice-delivery", format!("first discharge fail={}, delivered {:?}", first_fail, d));
                return;
            }
        }
        2 | 3 => {
            // a post that names a finished (2) or never-declared (3) transaction must not be applied
            let id = if script == 2 {
                let id = match c.declare().await {
                    Some(id) => id,
                    None => {
                        sim::violation("declare-failed", "declare was not answered with declared".into());
                        return;
                    }
                };
                let _ = c.discharge(&id, choice(2) == 1).await;
                id
            } else {
                bogus.clone()
            };
            c.post(&id, 601).await;
            // whatever the resource does to refuse it, the transaction error must be named
            let mut named = false;
            let mut frames = Vec::new();
            let deadline = tokio::time::Instant::now() + std::time::Duration::from_secs(120);
            while tokio::time::Instant::now() < deadline {
                match c.peer.recv_within(2000).await {
                    Some(Item::Frame(f)) => {
                        let stop = matches!(f.code, wire::END | wire::CLOSE | wire::DETACH | wire::DISPOSITION);
                        frames.push(f);
                        if stop {
                            frames.extend(c.peer.drain_for(500).await);
                            break;
                        }
                    }
                    Some(_) => {}
                    None => {
                        if c.peer.eof {
                            break;
                        }
                    }
                }
            }
            for f in frames {
                let err = match f.code {
                    wire::DISPOSITION => f.perf.as_ref().and_then(|p| wire::error_condition(p.field(4).field(0))),
                    wire::DETACH => f.perf.as_ref().and_then(|p| wire::error_condition(p.field(2))),
                    wire::END | wire::CLOSE => f.perf.as_ref().and_then(|p| wire::error_condition(p.field(0))),
                    _ => None,
                };
                if err.map(|e| e.starts_with("amqp:transaction:")).unwrap_or(false) {
                    named = true;
                }
                if f.code == wire::END {
                    c.peer.send(f.channel, &peer::end(None)).await;
                }
                if f.code == wire::CLOSE {
                    c.peer.send(0, &peer::close(None)).await;
                }
            }
            world::quiesce_pair(&net).await;
            if delivered.borrow().contains(&601) {
                sim::violation("post-to-dead-transaction-applied", format!("a post naming a {} transaction id was delivered to the application", if script == 2 { "finished" } else { "never-declared" }));
                return;
            }
            if !named {
                sim::violation("post-to-dead-transaction-not-refused", format!("a post naming a {} transaction id was not refused with a transaction error", if script == 2 { "finished" } else { "never-declared" }));
                return;
            }
            sim::probe("dead-transaction-post-refused");
            return;
        }
        _ => {
            // every declare yields a fresh id
            let mut ids = BTreeSet::new();
            let n = 3 + choice(20);
            for i in 0..n {
                match c.declare().await {
                    Some(id) => {
                        if !ids.insert(id.clone()) {
                            sim::violation("transaction-id-reused", format!("declare number {} returned id {:?} again", i, id));
                            return;
                        }
                        if choice(2) == 1 {
                            let _ = c.discharge(&id, choice(2) == 1).await;
                        }
                    }
                    None => {
                        sim::violation("declare-failed", format!("declare number {} was not answered with declared", i));
                        return;
                    }
                }
            }
            sim::probe("fresh-ids-checked");
        }
    }
    // teardown
    c.peer.send(0, &peer::end(None)).await;
    let _ = c.peer.drain_for(500).await;
    c.peer.send(0, &peer::close(None)).await;
    let _ = c.peer.drain_for(500).await;
    c.peer.shutdown().await;
    let _ = sim::op("listener session", ldone.take()).await;
    let _ = tokio::time::timeout(std::time::Duration::from_secs(30), listener.close()).await;
    let _ = (FlowArgs::default(), recv_err);
}

// ---------------------------------------------------------------------------------------
// (c) real client controller against a scripted resource

/// The body of a control message: the described value inside the amqp-value section
fn control_body(payload: &[u8]) -> Option<V> {
    let mut rest = payload;
    while !rest.is_empty() {
        let (v, used) = refcodec::decode(rest).ok()?;
        rest = &rest[used..];
        if let V::Described(d, inner) = &v {
            if **d == V::Ulong(0x77) {
                return Some((**inner).clone());
            }
        }
    }
    None
}

pub async fn run_scripted_resource() {
    let ccfg = EndpointCfg::default_cfg();
    let (nab, nba, nd) = world::draw_net(false);
    let n_txn = 1 + choice(3);
    // the coordinator's credit for the control link: ample, or handed out in small batches that are
    // only renewed once they are used up and the link has gone quiet (declares, discharges and the
    // rollback a dropped transaction sends all take one each)
    let ctl_batch: u32 = pick(&[1000u32, 1, 2, 3, 2]);
    sim::set_config(format!("variant=scripted-resource transactions={} control-link-credit-batch={} {}", n_txn, ctl_batch, nd));
    sim::mark_nontrivial();
    sim::set_panic_is_violation(true);
    let cvp = match peer::client_vs_peer(&ccfg, peer::open("resource", Some(65536), Some(255), None), nab, nba, Models::none()).await {
        Some(x) => x,
        None => return,
    };
    let peer::ClientVsPeer { mut client, mut peer, .. } = cvp;
    let bf = sim::in_group(1, Session::begin(&mut client));
    let pb = async {
        let b = peer.expect(wire::BEGIN).await?;
        peer.send(0, &peer::begin(Some(b.channel), 0, 5000, 5000)).await;
        Some(())
    };
    let mut session = match sim::op("begin", world::join2(bf, pb)).await {
        Some((Ok(s), Some(()))) => s,
        _ => return,
    };
    // data link: endpoint handle 0 <-> peer handle 8; control link: endpoint handle 1 <-> peer handle 9
    let af = sim::in_group(1, Sender::attach(&mut session, "data", "q"));
    let pa = async {
        peer.expect(wire::ATTACH).await?;
        peer.send(0, &peer::attach(&AttachArgs::receiver("data", 8))).await;
        let f = FlowArgs { next_incoming_id: Some(0), incoming_window: 5000, next_outgoing_id: 0, outgoing_window: 5000, handle: Some(8), delivery_count: Some(0), link_credit: Some(1000), ..Default::default() };
        peer.send(0, &peer::flow(&f)).await;
        Some(())
    };
    let mut sender = match sim::op("attach data", world::join2(af, pa)).await {
        Some((Ok(s), Some(()))) => s,
        _ => return,
    };
    let af = sim::in_group(1, Controller::attach(&mut session, "control"));
    let pa = async {
        let a = peer.expect(wire::ATTACH).await?;
        let target = a.perf.as_ref().unwrap().field(6).clone();
        if target.descriptor_code() != Some(COORDINATOR) {
            sim::violation("control-attach-target", format!("the control link's attach names the target {:?}, not a coordinator", target));
            return None;
        }
        let mut args = AttachArgs::receiver("control", 9);
        args.target = refcodec::described(COORDINATOR, vec![V::Array(vec![V::Sym("amqp:local-transactions".into())])]);
        peer.send(0, &peer::attach(&args)).await;
        let f = FlowArgs { next_incoming_id: Some(0), incoming_window: 5000, next_outgoing_id: 0, outgoing_window: 5000, handle: Some(9), delivery_count: Some(0), link_credit: Some(ctl_batch), ..Default::default() };
        peer.send(0, &peer::flow(&f)).await;
        Some(())
    };
    let controller = match sim::op("attach control", world::join2(af, pa)).await {
        Some((Ok(c), Some(()))) => c,
        _ => return,
    };
    // the plan: per transaction an id, whether the declare / discharge is refused, posts, commit or rollback
    #[derive(Clone, Debug)]
    struct Plan {
        id: Vec<u8>,
        refuse_declare: bool,
        posts: u32,
        commit: bool,
        refuse_discharge: bool,
    }
    let plans: Vec<Plan> = (0..n_txn)
        .map(|i| Plan {
            id: (0..(1 + choice(24))).map(|_| choice(256) as u8).chain(std::iter::once(i as u8)).collect(),
            refuse_declare: choice(6) == 0,
            posts: choice(4),
            commit: choice(2) == 0,
            refuse_discharge: choice(3) == 0,
        })
        .collect();
    sim::append_config(&format!(" plans={:?}", plans));
    let plans2 = plans.clone();
    let peer_done: Slot<Option<String>> = Slot::new();
    let pd = peer_done.clone();
    // the scripted resource: answers control messages and posts according to the plan and
    // records what it saw
    sim::spawn("scripted-resource", async move {
        let mut complaint: Option<String> = None;
        let mut declares = 0usize;
        let mut current: Option<usize> = None;
        let mut posts_seen = vec![0u32; plans2.len()];
        let mut discharged = vec![false; plans2.len()];
        // control deliveries received / allowed so far (the limit only ever grows, so a delivery
        // beyond it cannot be excused by anything in flight)
        let mut ctl_received = 0u32;
        let mut ctl_limit = ctl_batch;
        let mut frames_in = 0u32;
        loop {
            let item = peer.recv_within(500).await;
            if item.is_none() && ctl_received >= ctl_limit && !peer.eof {
                // the batch is used up and the link has gone quiet: the next batch
                ctl_limit = ctl_received + ctl_batch;
                let f = FlowArgs { next_incoming_id: Some(frames_in), incoming_window: 5000, next_outgoing_id: 0, outgoing_window: 5000, handle: Some(9), delivery_count: Some(ctl_received), link_credit: Some(ctl_batch), ..Default::default() };
                peer.send(0, &peer::flow(&f)).await;
                sim::probe("control-link-credit-renewed");
            }
            if let Some(Item::Frame(f)) = &item {
                if f.code == wire::TRANSFER {
                    frames_in += 1;
                    if f.perf.as_ref().and_then(|p| p.field(0).as_u32()) == Some(1) {
                        if ctl_received >= ctl_limit {
                            sim::violation(
                                "control-link-credit-overrun",
                                format!("control delivery number {} arrived; the coordinator had granted credit for {} deliveries in all (batches of {})", ctl_received + 1, ctl_limit, ctl_batch),
                            );
                        }
                        ctl_received += 1;
                    }
                }
            }
            match item {
                Some(Item::Frame(f)) => match f.code {
                    wire::TRANSFER => {
                        let p = f.perf.as_ref().unwrap();
                        let handle = p.field(0).as_u32().unwrap_or(99);
                        let id = p.field(1).as_u32().unwrap_or(0);
                        if handle == 1 {
                            match control_body(&f.payload) {
                                Some(b) if b.descriptor_code() == Some(DECLARE) => {
                                    let k = declares.min(plans2.len() - 1);
                                    declares += 1;
                                    if p.field(4).as_bool() == Some(true) {
                                        complaint.get_or_insert(format!("declare number {} was sent pre-settled", k));
                                    }
                                    let st = if plans2[k].refuse_declare {
                                        refcodec::described(REJECTED, vec![peer::error("amqp:transaction:unknown-id", Some("declare-refused"))])
                                    } else {
                                        current = Some(k);
                                        refcodec::described(DECLARED, vec![V::Bin(plans2[k].id.clone())])
                                    };
                                    peer.send(0, &peer::disposition(true, id, None, true, Some(st))).await;
                                }
                                Some(b) if b.descriptor_code() == Some(DISCHARGE) => {
                                    let got_id = match b.field(0) {
                                        V::Bin(x) => x.clone(),
                                        _ => vec![],
                                    };
                                    let fail = b.field(1).as_bool().unwrap_or(false);
                                    match plans2.iter().position(|pl| pl.id == got_id) {
                                        Some(k) if discharged[k] => {
                                            // the transaction object rolls back once more when it is dropped after a
                                            // failed discharge: only a rollback may come a second time
                                            if !fail {
                                                complaint.get_or_insert(format!("transaction {}: a second discharge with fail=false", k));
                                            }
                                            sim::probe("rollback-on-drop-seen");
                                            peer.send(0, &peer::disposition(true, id, None, true, Some(peer::accepted()))).await;
                                        }
                                        Some(k) => {
                                            discharged[k] = true;
                                            if fail == plans2[k].commit {
                                                complaint.get_or_insert(format!("transaction {}: {} put fail={} on the wire", k, if plans2[k].commit { "commit" } else { "rollback" }, fail));
                                            }
                                            if posts_seen[k] != plans2[k].posts {
                                                complaint.get_or_insert(format!("transaction {}: {} posts named its id before the discharge, {} were made", k, posts_seen[k], plans2[k].posts));
                                            }
                                            let st = if plans2[k].refuse_discharge {
                                                refcodec::described(REJECTED, vec![peer::error("amqp:transaction:rollback", Some("discharge-refused"))])
                                            } else {
                                                peer::accepted()
                                            };
                                            peer.send(0, &peer::disposition(true, id, None, true, Some(st))).await;
                                        }
                                        None => {
                                            complaint.get_or_insert(format!("a discharge names the id {:?}, which no declare was answered with", got_id));
                                            peer.send(0, &peer::disposition(true, id, None, true, Some(refcodec::described(REJECTED, vec![peer::error("amqp:transaction:unknown-id", None)])))).await;
                                        }
                                    }
                                }
                                other => {
                                    complaint.get_or_insert(format!("unexpected control message {:?}", other));
                                }
                            }
                        } else {
                            // a post: its state names the current transaction
                            let st = p.field(7);
                            let named = if st.descriptor_code() == Some(TXN_STATE) {
                                match st.field(0) {
                                    V::Bin(x) => Some(x.clone()),
                                    _ => None,
                                }
                            } else {
                                None
                            };
                            match (current, named) {
                                (Some(k), Some(idb)) if idb == plans2[k].id => {
                                    posts_seen[k] += 1;
                                    peer.send(0, &peer::disposition(true, id, None, true, Some(txn_state(&plans2[k].id, Some(peer::accepted()))))).await;
                                }
                                (k, named) => {
                                    complaint.get_or_insert(format!("a post made under transaction {:?} carries the state {:?} (txn-id {:?})", k, st, named));
                                    peer.send(0, &peer::disposition(true, id, None, true, Some(peer::accepted()))).await;
                                }
                            }
                        }
                    }
                    wire::DETACH => {
                        let p = f.perf.as_ref().unwrap();
                        let h = p.field(0).as_u32().unwrap_or(0);
                        peer.send(0, &peer::detach(if h == 0 { 8 } else { 9 }, p.field(1).as_bool().unwrap_or(false), None)).await;
                    }
                    wire::END => {
                        peer.send(f.channel, &peer::end(None)).await;
                    }
                    wire::CLOSE => {
                        peer.send(0, &peer::close(None)).await;
                        peer.shutdown().await;
                        break;
                    }
                    _ => {}
                },
                Some(_) => {}
                None => {
                    if peer.eof || peer.read_error.is_some() {
                        break;
                    }
                }
            }
        }
        pd.put(complaint);
    });
    let mut uid = 3000u64;
    for (k, plan) in plans.iter().enumerate() {
        let t = match sim::op("declare", Transaction::declare(&controller, None)).await {
            Some(Ok(mut t)) => {
                t.set_rollback_on_drop_trials(0);
                if plan.refuse_declare {
                    sim::violation("coordinator-outcome-not-reported", format!("declare number {} was rejected by the coordinator but returned a transaction", k));
                    return;
                }
                use fe2o3_amqp::transaction::TransactionBase;
                let got: Vec<u8> = AsRef::<[u8]>::as_ref(t.txn_id()).to_vec();
                if got != plan.id {
                    sim::violation("declared-id-mismatch", format!("the coordinator declared {:?}, the transaction reports {:?}", plan.id, got));
                    return;
                }
                t
            }
            Some(Err(e)) => {
                if !plan.refuse_declare {
                    sim::violation("declare-failed", format!("declare number {} was answered with declared but failed: {:?}", k, e));
                    return;
                }
                if !format!("{:?}", e).contains("declare-refused") {
                    sim::violation("coordinator-outcome-not-reported", format!("the coordinator rejected the declare with 'declare-refused'; the call reports {:?}", e));
                    return;
                }
                sim::probe("declare-rejection-reported");
                continue;
            }
            None => return,
        };
        for _ in 0..plan.posts {
            uid += 1;
            match sim::op("post", t.post(&mut sender, message(uid, false))).await {
                Some(Ok(_)) => {}
                Some(Err(e)) => {
                    sim::violation("post-failed", format!("{:?}", e));
                    return;
                }
                None => return,
            }
        }
        let r = if plan.commit { sim::op("commit", t.commit()).await } else { sim::op("rollback", t.rollback()).await };
        match r {
            Some(Ok(())) => {
                if plan.refuse_discharge {
                    sim::violation("coordinator-outcome-not-reported", format!("the coordinator rejected the discharge of transaction {}; the call returned Ok", k));
                    return;
                }
                sim::probe("discharge-accepted-reported");
            }
            Some(Err(e)) => {
                if !plan.refuse_discharge {
                    sim::violation("discharge-failed", format!("the coordinator accepted the discharge of transaction {}; the call returned {:?}", k, e));
                    return;
                }
                if !format!("{:?}", e).contains("discharge-refused") {
                    sim::violation("coordinator-outcome-not-reported", format!("the coordinator rejected the discharge with 'discharge-refused'; the call reports {:?}", e));
                    return;
                }
                sim::probe("discharge-rejection-reported");
            }
            None => return,
        }
    }
    let _ = sim::op("controller close", controller.close()).await;
    let _ = sim::op("sender close", sender.close()).await;
    let _ = sim::op("session end", session.end()).await;
    let _ = sim::op("connection close", client.close()).await;
    match sim::op("scripted resource", peer_done.take()).await {
        Some(Some(c)) => sim::violation("controller-wire", c),
        Some(None) => sim::probe("controller-wire-checked"),
        None => {}
    }
}

// ---------------------------------------------------------------------------------------
// (b') scripted controller retiring a delivery under a transaction id that is not live

/// The listener sends two deliveries on a feed link; the scripted controller declares a
/// transaction, discharges it (or makes an id up) and then retires the first delivery under that
/// dead id. A retirement is work under a transaction like a post: under an unknown or finished id
/// it must be refused with the transaction error and must not be applied (the sending application
/// must not see the delivery accepted or settled by it).
pub async fn run_scripted_retirement_under_dead_id() {
    let lcfg = EndpointCfg::default_cfg();
    let (nab, nba, nd) = world::draw_net(false);
    let never_declared = choice(3) == 0;
    let rolled_back = choice(2) == 1;
    sim::set_config(format!("variant=scripted-controller script=retire-under-{} {}", if never_declared { "never-declared-id" } else if rolled_back { "rolled-back-id" } else { "committed-id" }, nd));
    sim::mark_nontrivial();
    sim::set_panic_is_violation(true);
    let lvp = match peer::peer_vs_listener(&lcfg, peer::open("ctrl", Some(65536), Some(255), None), nab, nba, Models::none()).await {
        Some(x) => x,
        None => return,
    };
    let peer::ListenerVsPeer { mut listener, mut peer, net, .. } = lvp;
    let acc = SessionAcceptor::builder().control_link_acceptor(ControlLinkAcceptor::default()).build();
    let lb = sim::in_group(2, async { acc.accept(&mut listener).await });
    let pb = async {
        peer.send(0, &peer::begin(None, 0, 2048, 2048)).await;
        peer.expect(wire::BEGIN).await
    };
    let mut lsess = match sim::op("accept session", world::join2(lb, pb)).await {
        Some((Ok(s), Some(_))) => s,
        _ => return,
    };
    // outcome of each feed delivery as the sending application sees it
    let outcomes: Rc<RefCell<Vec<(u64, String)>>> = Rc::new(RefCell::new(Vec::new()));
    {
        let outcomes = outcomes.clone();
        sim::spawn(
            "listener-session",
            sim::in_group(2, async move {
                let la = LinkAcceptor::new();
                if let Ok(LinkEndpoint::Sender(mut s)) = la.accept(&mut lsess).await {
                    let mut futs = Vec::new();
                    for uid in [9001u64, 9002] {
                        match s.send_batchable(message(uid, false)).await {
                            Ok(f) => futs.push((uid, f)),
                            Err(e) => outcomes.borrow_mut().push((uid, format!("send failed: {:?}", e))),
                        }
                    }
                    for (uid, f) in futs {
                        let r = f.await;
                        outcomes.borrow_mut().push((uid, format!("{:?}", r)));
                    }
                    std::future::pending::<()>().await;
                    drop(s);
                }
                let _ = lsess.on_end().await;
            }),
        );
    }
    // the feed link (peer is the receiver, handle 8) and the control link (peer handle 9)
    peer.send(0, &peer::attach(&AttachArgs::receiver("feed", 8))).await;
    let feed_attach = match sim::op("feed attach", peer.expect(wire::ATTACH)).await.flatten() {
        Some(a) => a,
        None => return,
    };
    let dc0 = feed_attach.perf.as_ref().unwrap().field(9).as_u32().unwrap_or(0);
    let f = peer::FlowArgs { next_incoming_id: Some(0), incoming_window: 2048, next_outgoing_id: 0, outgoing_window: 2048, handle: Some(8), delivery_count: Some(dc0), link_credit: Some(10), ..Default::default() };
    peer.send(0, &peer::flow(&f)).await;
    let mut a = AttachArgs::sender("control", 9);
    a.target = refcodec::described(COORDINATOR, vec![V::Array(vec![V::Sym("amqp:local-transactions".into())])]);
    peer.send(0, &peer::attach(&a)).await;
    // the two deliveries, the control attach and the coordinator's credit, in whatever order
    let mut ids: Vec<u32> = Vec::new();
    let mut got_attach = false;
    let mut got_flow = false;
    let deadline = tokio::time::Instant::now() + sim::OP_DEADLINE;
    while (ids.len() < 2 || !got_attach || !got_flow) && tokio::time::Instant::now() < deadline {
        match peer.recv_within(1000).await {
            Some(Item::Frame(f)) => {
                let p = match &f.perf {
                    Some(p) => p,
                    None => continue,
                };
                match f.code {
                    wire::TRANSFER => {
                        if let Some(id) = p.field(1).as_u32() {
                            if !p.field(5).as_bool().unwrap_or(false) {
                                ids.push(id);
                            }
                        }
                    }
                    wire::ATTACH => got_attach = true,
                    wire::FLOW => {
                        if got_attach && p.field(4).as_u32().is_some() {
                            got_flow = true;
                        }
                    }
                    _ => {}
                }
            }
            Some(_) => {}
            None => {
                if peer.eof {
                    break;
                }
            }
        }
    }
    if ids.len() < 2 || !got_attach || !got_flow {
        sim::violation("setup-failed", format!("feed deliveries {:?}, control attach answered {}, coordinator credit {}", ids, got_attach, got_flow));
        return;
    }
    let mut c = ScriptedController { peer, next_id: 0, ctrl_count: 0 };
    let dead: Vec<u8> = if never_declared {
        (0..16).map(|_| choice(256) as u8).collect()
    } else {
        let id = match c.declare().await {
            Some(id) => id,
            None => {
                sim::violation("declare-failed", "declare was not answered with declared".into());
                return;
            }
        };
        let st = c.discharge(&id, rolled_back).await;
        if st.as_ref().map(|s| s.descriptor_code() != Some(0x24)).unwrap_or(true) {
            sim::violation("discharge-failed", format!("discharge answered with {:?}", st));
            return;
        }
        id
    };
    // retire the first delivery under the dead id
    sim::fault("retirement-under-a-dead-transaction-id");
    c.peer.send(0, &peer::disposition(true, ids[0], None, true, Some(txn_state(&dead, Some(peer::accepted()))))).await;
    let mut frames: Vec<wire::WFrame> = Vec::new();
    if !peer::settle(&mut c.peer, &net, |f| frames.push(f.clone())).await && !(c.peer.eof || c.peer.read_error.is_some()) {
        return;
    }
    frames.extend(std::mem::take(&mut c.peer.skipped));
    let refused = frames.iter().any(|f| {
        let p = match &f.perf {
            Some(p) => p,
            None => return false,
        };
        let err = match f.code {
            wire::END | wire::CLOSE => p.field(0),
            wire::DETACH => p.field(2),
            wire::DISPOSITION => return p.field(1).as_u32() == Some(ids[0]) && is_txn_rejection(p.field(4)),
            _ => return false,
        };
        wire::error_condition(err).map(|c| c.starts_with("amqp:transaction:")).unwrap_or(false)
    });
    let seen = outcomes.borrow().clone();
    if let Some((uid, o)) = seen.iter().find(|(_, o)| o.contains("Accepted")) {
        sim::violation("retirement-under-dead-transaction-applied", format!("delivery {} was retired under a transaction id that is not live; the sending application has {}", uid, o));
        return;
    }
    if !refused {
        sim::violation(
            "retirement-under-dead-transaction-not-refused",
            format!("a retirement naming a transaction id that is not live was not refused with a transaction error; the listener wrote {:?}; the sending application has {:?}", frames.iter().map(wire::describe_frame).collect::<Vec<_>>(), seen),
        );
        return;
    }
    sim::probe("retirement-under-dead-id-refused");
    c.peer.send(0, &peer::close(None)).await;
    let _ = c.peer.drain_for(2000).await;
}
