//! C15 — a misbehaving peer cannot crash, wedge or spin an endpoint.
//!
//! A real client or a real listener (the victim) is brought into a seeded state by a scripted
//! peer, which then does one hostile thing from a catalogue (ill-formed bytes or a protocol
//! violation) and afterwards behaves as a well-behaved peer again. A second, healthy
//! client/listener pair runs in the same process all the while.

use std::cell::RefCell;
use std::rc::Rc;

use fe2o3_amqp::acceptor::{LinkAcceptor, LinkEndpoint, ListenerConnectionHandle, ListenerSessionHandle, SessionAcceptor};
use fe2o3_amqp::connection::ConnectionHandle;
use fe2o3_amqp::link::receiver::CreditMode;
use fe2o3_amqp::session::SessionHandle;
use fe2o3_amqp::types::definitions::SenderSettleMode;
use fe2o3_amqp::types::messaging::Body;
use fe2o3_amqp::types::primitives::Value;
use fe2o3_amqp::{Receiver, Sender, Session};

use crate::chooser::{choice, pick};
use crate::msgs;
use crate::net::NetCfg;
use crate::peer::{self, AttachArgs, FlowArgs, Peer, TransferArgs};
use crate::refcodec::{self, V};
use crate::sim;
use crate::wire::{self, Item, Models, MonitorRef};
use crate::world::{self, EndpointCfg, Slot};

enum Conn {
    C(ConnectionHandle<()>),
    L(ListenerConnectionHandle),
}

enum Sess {
    C(SessionHandle<()>),
    L(ListenerSessionHandle),
}

struct Victim {
    conn: Conn,
    sess: Option<Sess>,
    sender: Option<Sender>,
    receiver: Option<Receiver>,
}

/// What the peer knows about the conversation
#[derive(Clone, Debug, Default)]
struct Ctx {
    /// the peer's channel
    chan: u16,
    /// the endpoint's channel for the session
    ep_chan: u16,
    session: bool,
    links: bool,
    /// the peer's next transfer id on the session
    next_id: u32,
    /// credit the endpoint's receiver granted
    credit: u32,
    ep_incoming_window: u32,
    /// handles the peer uses: its sender (endpoint's receiver R), its receiver (endpoint's sender S)
    h_snd: u32,
    h_rcv: u32,
    max_frame_size: u32,
}

#[derive(Clone, Copy, Debug, PartialEq)]
pub enum Hostile {
    // ---- bytes
    SizeBelowEight,
    BadDoff,
    UnknownFrameType,
    OversizedFrame,
    RandomBody,
    MutatedFrame,
    DeepNesting,
    TruncatedThenEof,
    UnknownDescriptor,
    WrongFieldTypes,
    ExtendedHeader,
    EmptyFrameFlood,
    SaslFrame,
    // ---- protocol
    TransferBeyondCredit,
    TransferBeyondWindow,
    DispositionHugeRange,
    DispositionUnknownIds,
    FlowUnattachedHandle,
    TransferUnattachedHandle,
    DuplicateAttachName,
    DuplicateAttachHandle,
    UnmappedChannel,
    BeginOnUsedChannel,
    BeginUnknownRemoteChannel,
    SecondOpen,
    AttachHugeHandle,
    DeliveryIdBackwards,
    ContinuationOtherDeliveryId,
    TransferWithoutDeliveryId,
    DetachUnknownHandle,
    DetachTwice,
    EndTwice,
    WeirdFlow,
    TransferToSender,
    FramesAfterClose,
    /// legal, but sized to make disproportionate work show: one delivery cut into hundreds or
    /// thousands of tiny frames (within the endpoint's session window)
    DeliveryInManyTinyFrames,
}

const CATALOGUE: [Hostile; 36] = [
    Hostile::SizeBelowEight,
    Hostile::BadDoff,
    Hostile::UnknownFrameType,
    Hostile::OversizedFrame,
    Hostile::RandomBody,
    Hostile::MutatedFrame,
    Hostile::DeepNesting,
    Hostile::TruncatedThenEof,
    Hostile::UnknownDescriptor,
    Hostile::WrongFieldTypes,
    Hostile::ExtendedHeader,
    Hostile::EmptyFrameFlood,
    Hostile::SaslFrame,
    Hostile::TransferBeyondCredit,
    Hostile::TransferBeyondWindow,
    Hostile::DispositionHugeRange,
    Hostile::DispositionUnknownIds,
    Hostile::FlowUnattachedHandle,
    Hostile::TransferUnattachedHandle,
    Hostile::DuplicateAttachName,
    Hostile::DuplicateAttachHandle,
    Hostile::UnmappedChannel,
    Hostile::BeginOnUsedChannel,
    Hostile::BeginUnknownRemoteChannel,
    Hostile::SecondOpen,
    Hostile::AttachHugeHandle,
    Hostile::DeliveryIdBackwards,
    Hostile::ContinuationOtherDeliveryId,
    Hostile::TransferWithoutDeliveryId,
    Hostile::DetachUnknownHandle,
    Hostile::DetachTwice,
    Hostile::EndTwice,
    Hostile::WeirdFlow,
    Hostile::TransferToSender,
    Hostile::FramesAfterClose,
    Hostile::DeliveryInManyTinyFrames,
];

fn small_message(uid: u64) -> Vec<u8> {
    msgs::encode(&msgs::gen_message(uid, 60, 1))
}

fn transfer_frame(ctx: &Ctx, handle: u32, id: Option<u32>, tag: Option<Vec<u8>>, more: bool, payload: &[u8]) -> Vec<u8> {
    let t = TransferArgs {
        handle,
        delivery_id: id,
        delivery_tag: tag,
        message_format: Some(0),
        settled: Some(false),
        more: if more { Some(true) } else { None },
        ..Default::default()
    };
    peer::perf_frame(ctx.chan, &peer::transfer(&t), payload)
}

/// Encoding of a list nested `depth` deep around a null, built from the inside out (no recursion
/// on the harness side)
fn nested_bytes(depth: usize) -> Vec<u8> {
    let mut inner: Vec<u8> = vec![0x40];
    for _ in 0..depth {
        let mut outer = Vec::with_capacity(inner.len() + 9);
        if inner.len() + 1 <= 255 {
            outer.extend_from_slice(&[0xc0, (inner.len() + 1) as u8, 1]);
        } else {
            outer.push(0xd0);
            outer.extend_from_slice(&((inner.len() + 4) as u32).to_be_bytes());
            outer.extend_from_slice(&1u32.to_be_bytes());
        }
        outer.extend_from_slice(&inner);
        inner = outer;
    }
    inner
}

/// The bytes of the hostile action; `true` if the peer ends its stream right afterwards
fn hostile_bytes(kind: Hostile, ctx: &mut Ctx) -> (Vec<u8>, bool, String) {
    let ch = ctx.chan;
    let mut note = String::new();
    let mut eof = false;
    let bytes = match kind {
        Hostile::SizeBelowEight => {
            let s = choice(8);
            note = format!("size={}", s);
            let mut b = s.to_be_bytes().to_vec();
            let extra = if s > 4 { (s - 4) as usize } else { 0 };
            b.extend(std::iter::repeat(2u8).take(extra));
            if choice(2) == 1 {
                // followed by a well-formed frame
                b.extend(peer::frame_bytes(0, 0, &[]));
            }
            b
        }
        Hostile::BadDoff => {
            let doff = pick(&[0u8, 1, 3, 200, 255]);
            let body = refcodec::encode(&peer::flow(&FlowArgs { incoming_window: 5, next_outgoing_id: 0, outgoing_window: 5, ..Default::default() }));
            let size = if doff >= 3 && choice(2) == 1 { 8 + body.len() + (doff as usize - 2) * 4 } else { 8 + body.len() };
            note = format!("doff={} size={}", doff, size);
            let mut b = (size as u32).to_be_bytes().to_vec();
            b.push(doff);
            b.push(0);
            b.extend_from_slice(&ch.to_be_bytes());
            if size > 8 + body.len() {
                b.extend(std::iter::repeat(0u8).take(size - 8 - body.len()));
            }
            b.extend_from_slice(&body);
            b
        }
        Hostile::UnknownFrameType => {
            let t = pick(&[2u8, 3, 0x7f, 0xff]);
            note = format!("type={}", t);
            peer::frame_bytes(t, ch, &refcodec::encode(&peer::end(None)))
        }
        Hostile::OversizedFrame => {
            let s: u32 = pick(&[ctx.max_frame_size + 1, ctx.max_frame_size * 2, 0x7fff_ffff, 0xffff_ffff]);
            note = format!("size={}", s);
            let mut b = s.to_be_bytes().to_vec();
            b.extend_from_slice(&[2, 0]);
            b.extend_from_slice(&ch.to_be_bytes());
            b.extend(std::iter::repeat(0x40u8).take(choice(64) as usize));
            eof = choice(2) == 1;
            b
        }
        Hostile::RandomBody => {
            let n = choice(200) as usize;
            let body: Vec<u8> = (0..n).map(|_| choice(256) as u8).collect();
            note = format!("len={}", n);
            peer::frame_bytes(0, ch, &body)
        }
        Hostile::MutatedFrame => {
            let base = match choice(4) {
                0 => peer::perf_frame(ch, &peer::attach(&AttachArgs::sender("M", 30)), &[]),
                1 => transfer_frame(ctx, ctx.h_snd, Some(ctx.next_id), Some(vec![9, 9]), false, &small_message(1)),
                2 => peer::perf_frame(ch, &peer::disposition(true, 0, Some(1), true, Some(peer::accepted())), &[]),
                _ => peer::perf_frame(ch, &peer::flow(&FlowArgs { next_incoming_id: Some(0), incoming_window: 100, next_outgoing_id: ctx.next_id, outgoing_window: 100, ..Default::default() }), &[]),
            };
            let mut b = base;
            let flips = 1 + choice(4);
            for _ in 0..flips {
                // never in the size field: the stream stays in frame sync
                let pos = 4 + choice((b.len() - 4) as u32) as usize;
                b[pos] ^= 1 << choice(8);
            }
            note = format!("flips={}", flips);
            b
        }
        Hostile::DeepNesting => {
            let depth = pick(&[50usize, 1000, 5000, 20000]);
            note = format!("depth={}", depth);
            // an attach whose sixth field (source) is the nested list
            let deep = nested_bytes(depth);
            let fields = [refcodec::encode(&V::Str("N".into())), refcodec::encode(&V::Uint(31)), refcodec::encode(&V::Bool(false)), vec![0x40], vec![0x40], deep].concat();
            let mut body = vec![0x00, 0x53, wire::ATTACH as u8, 0xd0];
            body.extend_from_slice(&((fields.len() + 4) as u32).to_be_bytes());
            body.extend_from_slice(&6u32.to_be_bytes());
            body.extend_from_slice(&fields);
            if body.len() + 8 > ctx.max_frame_size as usize {
                note.push_str(" (beyond max-frame-size)");
            }
            peer::frame_bytes(0, ch, &body)
        }
        Hostile::TruncatedThenEof => {
            let f = transfer_frame(ctx, ctx.h_snd, Some(ctx.next_id), Some(vec![7]), false, &small_message(2));
            let cut = 1 + choice(f.len() as u32 - 1) as usize;
            note = format!("{} of {} bytes", cut, f.len());
            eof = true;
            f[..cut].to_vec()
        }
        Hostile::UnknownDescriptor => {
            let v = match choice(3) {
                0 => refcodec::described(0x99, vec![V::Uint(1)]),
                1 => V::Described(Box::new(V::Sym("x:unknown:list".into())), Box::new(V::List(vec![V::Uint(1)]))),
                _ => V::Described(Box::new(V::Ulong(0x0000_0000_0000_0070)), Box::new(V::List(vec![]))),
            };
            peer::perf_frame(ch, &v, &[])
        }
        Hostile::WrongFieldTypes => {
            let v = match choice(4) {
                0 => refcodec::described(wire::ATTACH, vec![V::Uint(5), V::Str("handle".into()), V::Uint(3)]),
                1 => refcodec::described(wire::FLOW, vec![V::Str("x".into()), V::Null, V::Bool(true)]),
                2 => refcodec::described(wire::TRANSFER, vec![V::Bool(true)]),
                _ => refcodec::described(wire::DISPOSITION, vec![V::Uint(0), V::Str("first".into())]),
            };
            peer::perf_frame(ch, &v, &[])
        }
        Hostile::ExtendedHeader => {
            let doff = pick(&[3u8, 10, 255]);
            let body = refcodec::encode(&peer::flow(&FlowArgs { next_incoming_id: Some(0), incoming_window: 2048, next_outgoing_id: ctx.next_id, outgoing_window: 2048, ..Default::default() }));
            let ext = (doff as usize - 2) * 4;
            let size = 8 + ext + body.len();
            note = format!("doff={}", doff);
            let mut b = (size as u32).to_be_bytes().to_vec();
            b.push(doff);
            b.push(0);
            b.extend_from_slice(&ch.to_be_bytes());
            b.extend(std::iter::repeat(0xEEu8).take(ext));
            b.extend_from_slice(&body);
            b
        }
        Hostile::EmptyFrameFlood => {
            let n = pick(&[10usize, 500, 3000]);
            let chn = pick(&[0u16, 7, 65535]);
            note = format!("n={} channel={}", n, chn);
            let mut b = Vec::new();
            for _ in 0..n {
                b.extend(peer::frame_bytes(0, chn, &[]));
            }
            b
        }
        Hostile::SaslFrame => peer::frame_bytes(1, 0, &refcodec::encode(&refcodec::described(0x41, vec![V::Sym("PLAIN".into())]))),
        Hostile::TransferBeyondCredit => {
            let n = ctx.credit + 1 + choice(3);
            note = format!("{} transfers, credit {}", n, ctx.credit);
            let mut b = Vec::new();
            for i in 0..n {
                b.extend(transfer_frame(ctx, ctx.h_snd, Some(ctx.next_id), Some(vec![1, i as u8]), false, &small_message(10 + i as u64)));
                ctx.next_id = ctx.next_id.wrapping_add(1);
            }
            b
        }
        Hostile::DeliveryInManyTinyFrames => {
            let n = pick(&[300u32, 1200, 2000]).min(ctx.ep_incoming_window.saturating_sub(2)).max(2);
            let piece = pick(&[16usize, 48]);
            note = format!("one delivery in {} frames of {} bytes", n, piece);
            // a message whose body is one binary of n * piece bytes, cut evenly
            let mut m = msgs::gen_message(31, 10, 0);
            m.body = fe2o3_amqp::types::messaging::Body::Value(fe2o3_amqp::types::messaging::AmqpValue(fe2o3_amqp::types::primitives::Value::Binary(vec![0x5au8; n as usize * piece].into())));
            let payload = msgs::encode(&m);
            let mut b = Vec::new();
            let chunks: Vec<&[u8]> = payload.chunks(piece).collect();
            for (i, c) in chunks.iter().enumerate() {
                let last = i + 1 == chunks.len();
                b.extend(transfer_frame(ctx, ctx.h_snd, if i == 0 { Some(ctx.next_id) } else { None }, if i == 0 { Some(vec![9]) } else { None }, !last, c));
            }
            ctx.next_id = ctx.next_id.wrapping_add(1);
            b
        }
        Hostile::TransferBeyondWindow => {
            let n = ctx.ep_incoming_window + 2;
            note = format!("{} frames of one delivery, window {}", n, ctx.ep_incoming_window);
            let mut b = Vec::new();
            for i in 0..n {
                b.extend(transfer_frame(ctx, ctx.h_snd, if i == 0 { Some(ctx.next_id) } else { None }, if i == 0 { Some(vec![2]) } else { None }, true, &[0x55; 10]));
            }
            ctx.next_id = ctx.next_id.wrapping_add(n);
            b
        }
        Hostile::DispositionHugeRange => {
            let (first, last) = pick(&[(0u32, 0xffff_ffffu32), (5, 0x7fff_ffff), (0xffff_fff0, 0x10), (0, 20_000_000)]);
            let role = choice(2) == 1;
            let settled = choice(2) == 1;
            note = format!("role-receiver={} first={} last={} settled={}", role, first, last, settled);
            peer::perf_frame(ch, &peer::disposition(role, first, Some(last), settled, Some(peer::accepted())), &[])
        }
        Hostile::DispositionUnknownIds => peer::perf_frame(ch, &peer::disposition(choice(2) == 1, 1000, Some(1010), true, Some(peer::released())), &[]),
        Hostile::FlowUnattachedHandle => {
            let mut f = FlowArgs { next_incoming_id: Some(0), incoming_window: 2048, next_outgoing_id: ctx.next_id, outgoing_window: 2048, ..Default::default() };
            f.handle = Some(pick(&[77u32, 0xffff_ffff]));
            f.delivery_count = Some(0);
            f.link_credit = Some(5);
            peer::perf_frame(ch, &peer::flow(&f), &[])
        }
        Hostile::TransferUnattachedHandle => transfer_frame(ctx, pick(&[78u32, 0xffff_ffff]), Some(ctx.next_id), Some(vec![3]), false, &small_message(3)),
        Hostile::DuplicateAttachName => peer::perf_frame(ch, &peer::attach(&AttachArgs::sender("R", 40)), &[]),
        Hostile::DuplicateAttachHandle => peer::perf_frame(ch, &peer::attach(&AttachArgs::sender("other", ctx.h_snd)), &[]),
        Hostile::UnmappedChannel => {
            let c = pick(&[9u16, 200, 65535]);
            let v = match choice(6) {
                0 => peer::flow(&FlowArgs { next_incoming_id: Some(0), incoming_window: 5, next_outgoing_id: 0, outgoing_window: 5, ..Default::default() }),
                1 => peer::attach(&AttachArgs::sender("U", 0)),
                2 => peer::disposition(true, 0, None, true, Some(peer::accepted())),
                3 => peer::end(None),
                4 => peer::detach(0, true, None),
                _ => peer::transfer(&TransferArgs { handle: 0, delivery_id: Some(0), delivery_tag: Some(vec![1]), ..Default::default() }),
            };
            note = format!("channel={}", c);
            peer::perf_frame(c, &v, &[])
        }
        Hostile::BeginOnUsedChannel => peer::perf_frame(ch, &peer::begin(None, 0, 100, 100), &[]),
        Hostile::BeginUnknownRemoteChannel => peer::perf_frame(pick(&[3u16, 100]), &peer::begin(Some(pick(&[50u16, 65535])), 0, 100, 100), &[]),
        Hostile::SecondOpen => peer::perf_frame(0, &peer::open("again", None, None, None), &[]),
        Hostile::AttachHugeHandle => peer::perf_frame(ch, &peer::attach(&AttachArgs::sender("H", pick(&[0xffff_ffffu32, 0x8000_0000, 70_000]))), &[]),
        Hostile::DeliveryIdBackwards => {
            let mut b = transfer_frame(ctx, ctx.h_snd, Some(ctx.next_id.wrapping_add(5)), Some(vec![4]), false, &small_message(4));
            b.extend(transfer_frame(ctx, ctx.h_snd, Some(ctx.next_id), Some(vec![5]), false, &small_message(5)));
            ctx.next_id = ctx.next_id.wrapping_add(2);
            b
        }
        Hostile::ContinuationOtherDeliveryId => {
            let mut b = transfer_frame(ctx, ctx.h_snd, Some(ctx.next_id), Some(vec![6]), true, &[0x11; 20]);
            b.extend(transfer_frame(ctx, ctx.h_snd, Some(ctx.next_id.wrapping_add(9)), Some(vec![7]), false, &[0x22; 20]));
            ctx.next_id = ctx.next_id.wrapping_add(2);
            b
        }
        Hostile::TransferWithoutDeliveryId => {
            ctx.next_id = ctx.next_id.wrapping_add(1);
            transfer_frame(ctx, ctx.h_snd, None, if choice(2) == 1 { Some(vec![8]) } else { None }, false, &small_message(6))
        }
        Hostile::DetachUnknownHandle => peer::perf_frame(ch, &peer::detach(pick(&[55u32, 0xffff_ffff]), choice(2) == 1, None), &[]),
        Hostile::DetachTwice => {
            let mut b = peer::perf_frame(ch, &peer::detach(ctx.h_snd, true, None), &[]);
            b.extend(peer::perf_frame(ch, &peer::detach(ctx.h_snd, true, None), &[]));
            b
        }
        Hostile::EndTwice => {
            let mut b = peer::perf_frame(ch, &peer::end(None), &[]);
            b.extend(peer::perf_frame(ch, &peer::end(None), &[]));
            b
        }
        Hostile::WeirdFlow => {
            let mut f = FlowArgs {
                next_incoming_id: pick(&[Some(0x7fff_ffffu32), Some(0xffff_ffff), None]),
                incoming_window: pick(&[0u32, 0xffff_ffff]),
                next_outgoing_id: pick(&[0u32, 0x8000_0000]),
                outgoing_window: 0xffff_ffff,
                ..Default::default()
            };
            if choice(2) == 1 {
                f.handle = Some(pick(&[ctx.h_snd, ctx.h_rcv]));
                f.delivery_count = pick(&[Some(0x7fff_fff0u32), Some(0xffff_ffff), None]);
                f.link_credit = Some(pick(&[0xffff_ffffu32, 0]));
                f.drain = Some(choice(2) == 1);
                f.echo = Some(choice(2) == 1);
            }
            peer::perf_frame(ch, &peer::flow(&f), &[])
        }
        Hostile::TransferToSender => transfer_frame(ctx, ctx.h_rcv, Some(ctx.next_id), Some(vec![9]), false, &small_message(7)),
        Hostile::FramesAfterClose => {
            let mut b = peer::perf_frame(0, &peer::close(None), &[]);
            b.extend(peer::perf_frame(ch, &peer::begin(None, 0, 10, 10), &[]));
            b.extend(peer::frame_bytes(0, 0, &[]));
            b
        }
    };
    (bytes, eof, note)
}

fn needs(kind: Hostile) -> (bool, bool) {
    // (needs a session, needs links)
    use Hostile::*;
    match kind {
        TransferBeyondCredit | TransferBeyondWindow | DeliveryInManyTinyFrames | DuplicateAttachName | DuplicateAttachHandle | DeliveryIdBackwards | ContinuationOtherDeliveryId | TransferWithoutDeliveryId | DetachTwice | TransferToSender | TruncatedThenEof => (true, true),
        DispositionHugeRange | DispositionUnknownIds | FlowUnattachedHandle | TransferUnattachedHandle | BeginOnUsedChannel | AttachHugeHandle | DetachUnknownHandle | EndTwice | WeirdFlow | DeepNesting | MutatedFrame => (true, false),
        _ => (false, false),
    }
}

// ---------------------------------------------------------------------------------------

/// The healthy pair that shares the process with the victim
async fn bystander(done: Slot<Result<u32, String>>) {
    let cfg = EndpointCfg::default_cfg();
    let mut pair = match world::open_pair_grouped(&cfg, &cfg, NetCfg::plain(), NetCfg::plain(), Models::none(), ["bystander-client", "bystander-listener"], [3, 4]).await {
        Some(p) => p,
        None => {
            done.put(Err("open failed".into()));
            return;
        }
    };
    let (mut cs, mut ls) = match world::begin_pair_grouped(&cfg, &cfg, &mut pair, [3, 4]).await {
        Some(x) => x,
        None => {
            done.put(Err("begin failed".into()));
            return;
        }
    };
    let got: Rc<RefCell<u32>> = Rc::new(RefCell::new(0));
    let ldone: Slot<()> = Slot::new();
    {
        let (got2, ld) = (got.clone(), ldone.clone());
        sim::spawn(
            "bystander-listener-app",
            sim::in_group(4, async move {
                let acc = LinkAcceptor::new();
                if let Ok(LinkEndpoint::Receiver(mut r)) = acc.accept(&mut ls).await {
                    for _ in 0..6 {
                        match r.recv::<Body<Value>>().await {
                            Ok(d) => {
                                let _ = r.accept(&d).await;
                                *got2.borrow_mut() += 1;
                            }
                            Err(_) => break,
                        }
                    }
                    let _ = r.close().await;
                }
                let _ = ls.on_end().await;
                ld.put(());
            }),
        );
    }
    let mut s = match sim::in_group(3, Sender::attach(&mut cs, "bystander", "q")).await {
        Ok(s) => s,
        Err(e) => {
            done.put(Err(format!("attach: {:?}", e)));
            return;
        }
    };
    for i in 0..6u64 {
        if let Err(e) = s.send(msgs::gen_message(5000 + i, 100, 1)).await {
            done.put(Err(format!("send {}: {:?}", i, e)));
            return;
        }
        // spread over the time in which the victim is attacked
        sim::sleep_ms(pick(&[0u64, 1, 20, 300])).await;
    }
    if let Err(e) = s.close().await {
        done.put(Err(format!("close: {:?}", e)));
        return;
    }
    if let Err(e) = cs.end().await {
        done.put(Err(format!("end: {:?}", e)));
        return;
    }
    ldone.take().await;
    if let Err(e) = pair.client.close().await {
        done.put(Err(format!("connection close: {:?}", e)));
        return;
    }
    let n = *got.borrow();
    done.put(Ok(n));
}

// ---------------------------------------------------------------------------------------

struct Setup {
    victim: Victim,
    peer: Peer,
    net: crate::net::NetHandle,
    mon: MonitorRef,
    ctx: Ctx,
    /// index of the victim's direction in the monitor
    d: usize,
}

async fn setup(client_side: bool, want_session: bool, want_links: bool, ep_window: u32, mfs: u32) -> Option<Setup> {
    let mut cfg = EndpointCfg::default_cfg();
    cfg.max_frame_size = mfs;
    cfg.incoming_window = ep_window;
    let (nab, nba, nd) = world::draw_net(false);
    sim::append_config(&format!(" {}", nd));
    let peer_open = peer::open("hostile", Some(65536), Some(255), None);
    let mut ctx = Ctx { chan: 0, ep_chan: 0, h_snd: 4, h_rcv: 5, max_frame_size: mfs, ep_incoming_window: ep_window, ..Default::default() };
    if client_side {
        let cvp = peer::client_vs_peer(&cfg, peer_open, nab, nba, Models::none()).await?;
        let peer::ClientVsPeer { client, mut peer, net, mon, .. } = cvp;
        let mut v = Victim { conn: Conn::C(client), sess: None, sender: None, receiver: None };
        if want_session {
            let Conn::C(c) = &mut v.conn else { unreachable!() };
            let bf = sim::in_group(1, world::client_begin(&cfg, c));
            let pb = async {
                let b = peer.expect(wire::BEGIN).await?;
                peer.send(0, &peer::begin(Some(b.channel), 0, 2048, 2048)).await;
                Some(b.channel)
            };
            match sim::op("begin", world::join2(bf, pb)).await? {
                (Ok(s), Some(c)) => {
                    ctx.ep_chan = c;
                    ctx.session = true;
                    v.sess = Some(Sess::C(s));
                }
                (r, _) => {
                    sim::harness_error("setup", format!("begin failed: {:?}", r.map(|_| ())));
                    return None;
                }
            }
        }
        if want_links {
            let Some(Sess::C(s)) = &mut v.sess else { unreachable!() };
            let af = sim::in_group(1, Sender::builder().name("S").target("q").sender_settle_mode(SenderSettleMode::Unsettled).attach(s));
            let pa = async {
                peer.expect(wire::ATTACH).await?;
                peer.send(0, &peer::attach(&AttachArgs::receiver("S", 5))).await;
                let f = FlowArgs { next_incoming_id: Some(0), incoming_window: 2048, next_outgoing_id: 0, outgoing_window: 2048, handle: Some(5), delivery_count: Some(0), link_credit: Some(100), ..Default::default() };
                peer.send(0, &peer::flow(&f)).await;
                Some(())
            };
            match sim::op("attach sender", world::join2(af, pa)).await? {
                (Ok(s), Some(())) => v.sender = Some(s),
                (r, _) => {
                    sim::harness_error("setup", format!("attach sender failed: {:?}", r.map(|_| ())));
                    return None;
                }
            }
            let Some(Sess::C(s)) = &mut v.sess else { unreachable!() };
            let credit = pick(&[1u32, 3, 10]);
            let af = sim::in_group(1, Receiver::builder().name("R").source("q").credit_mode(CreditMode::Auto(credit)).attach(s));
            let pa = async {
                peer.expect(wire::ATTACH).await?;
                peer.send(0, &peer::attach(&AttachArgs::sender("R", 4))).await;
                peer.expect(wire::FLOW).await?;
                Some(())
            };
            match sim::op("attach receiver", world::join2(af, pa)).await? {
                (Ok(r), Some(())) => {
                    v.receiver = Some(r);
                    ctx.credit = credit;
                    ctx.links = true;
                }
                (r, _) => {
                    sim::harness_error("setup", format!("attach receiver failed: {:?}", r.map(|_| ())));
                    return None;
                }
            }
        }
        Some(Setup { victim: v, peer, net, mon, ctx, d: 0 })
    } else {
        let lvp = peer::peer_vs_listener(&cfg, peer_open, nab, nba, Models::none()).await?;
        let peer::ListenerVsPeer { listener, mut peer, net, mon, .. } = lvp;
        let mut v = Victim { conn: Conn::L(listener), sess: None, sender: None, receiver: None };
        if want_session {
            let Conn::L(l) = &mut v.conn else { unreachable!() };
            let acc = world::session_acceptor(&cfg);
            let bf = sim::in_group(2, async { acc.accept(l).await });
            let pb = async {
                peer.send(0, &peer::begin(None, 0, 2048, 2048)).await;
                let b = peer.expect(wire::BEGIN).await?;
                Some(b.channel)
            };
            match sim::op("accept session", world::join2(bf, pb)).await? {
                (Ok(s), Some(c)) => {
                    ctx.ep_chan = c;
                    ctx.session = true;
                    v.sess = Some(Sess::L(s));
                }
                (r, _) => {
                    sim::harness_error("setup", format!("session accept failed: {:?}", r.map(|_| ())));
                    return None;
                }
            }
        }
        if want_links {
            let Some(Sess::L(s)) = &mut v.sess else { unreachable!() };
            let la = LinkAcceptor::new();
            let af = sim::in_group(2, async { la.accept(s).await });
            let pa = async {
                peer.send(0, &peer::attach(&AttachArgs::receiver("S", 5))).await;
                peer.expect(wire::ATTACH).await?;
                let f = FlowArgs { next_incoming_id: Some(0), incoming_window: 2048, next_outgoing_id: 0, outgoing_window: 2048, handle: Some(5), delivery_count: Some(0), link_credit: Some(100), ..Default::default() };
                peer.send(0, &peer::flow(&f)).await;
                Some(())
            };
            match sim::op("accept sender link", world::join2(af, pa)).await? {
                (Ok(LinkEndpoint::Sender(s)), Some(())) => v.sender = Some(s),
                (r, _) => {
                    sim::harness_error("setup", format!("sender link accept failed: {:?}", r.map(|_| ())));
                    return None;
                }
            }
            let Some(Sess::L(s)) = &mut v.sess else { unreachable!() };
            let la = LinkAcceptor::new();
            let af = sim::in_group(2, async { la.accept(s).await });
            let pa = async {
                peer.send(0, &peer::attach(&AttachArgs::sender("R", 4))).await;
                peer.expect(wire::ATTACH).await?;
                let f = peer.expect(wire::FLOW).await?;
                f.perf.as_ref().and_then(|p| p.field(6).as_u32())
            };
            match sim::op("accept receiver link", world::join2(af, pa)).await? {
                (Ok(LinkEndpoint::Receiver(r)), Some(c)) => {
                    v.receiver = Some(r);
                    ctx.credit = c;
                    ctx.links = true;
                }
                (r, _) => {
                    sim::harness_error("setup", format!("receiver link accept failed: {:?}", r.map(|_| ())));
                    return None;
                }
            }
        }
        Some(Setup { victim: v, peer, net, mon, ctx, d: 1 })
    }
}

/// What the endpoint wrote after sequence number `since`
#[derive(Debug, Default)]
struct Aftermath {
    close: bool,
    close_error: Option<String>,
    ended: bool,
    end_error: Option<String>,
    detached: Vec<(u32, Option<String>)>,
    eof: bool,
}

fn aftermath(mon: &MonitorRef, d: usize, since: u64) -> Aftermath {
    mon.borrow_mut().sync();
    let m = mon.borrow();
    let mut a = Aftermath::default();
    for st in m.log.iter().filter(|st| st.dir == d && st.seq > since) {
        if let Item::Frame(f) = &st.item {
            match f.code {
                wire::CLOSE => {
                    a.close = true;
                    a.close_error = f.perf.as_ref().and_then(|p| wire::error_condition(p.field(0)));
                }
                wire::END => {
                    a.ended = true;
                    a.end_error = f.perf.as_ref().and_then(|p| wire::error_condition(p.field(0)));
                }
                wire::DETACH => {
                    let p = f.perf.as_ref().unwrap();
                    a.detached.push((p.field(0).as_u32().unwrap_or(0), wire::error_condition(p.field(2))));
                }
                _ => {}
            }
        }
    }
    a
}

pub async fn run_client() {
    run(true).await
}
pub async fn run_listener() {
    run(false).await
}

/// The peer's open carries extreme values: the open / accept call returns (either way) without a
/// panic or a hang, and a connection that was opened can be closed
async fn run_weird_open(client_side: bool) {
    let mfs = pick(&[None, Some(0u32), Some(1), Some(8), Some(255), Some(511), Some(512), Some(u32::MAX)]);
    let chmax = pick(&[None, Some(0u16), Some(1), Some(65535)]);
    let idle = pick(&[None, Some(0u32), Some(1), Some(2), Some(u32::MAX)]);
    let container = pick(&["peer", "", "\u{0}", "a-very-long-container-id-a-very-long-container-id-a-very-long-container-id-a-very-long-container-id"]);
    let (nab, nba, nd) = world::draw_net(false);
    sim::set_config(format!("victim={} hostile=WeirdOpen max-frame-size={:?} channel-max={:?} idle-time-out={:?} container-id={:?} {}", if client_side { "client" } else { "listener" }, mfs, chmax, idle, container, nd));
    sim::mark_nontrivial();
    sim::set_panic_is_violation(true);
    sim::fault("hostile-open");
    let cfg = EndpointCfg::default_cfg();
    let open = peer::open(container, mfs, chmax, idle);
    let serve = |mut peer: Peer| async move {
        // a well-behaved peer from here on: heartbeats if the endpoint asked for them are not
        // needed (the endpoint has no idle time-out), close is answered
        let deadline = tokio::time::Instant::now() + std::time::Duration::from_secs(30);
        while tokio::time::Instant::now() < deadline {
            match peer.recv_within(200).await {
                Some(Item::Frame(f)) if f.code == wire::CLOSE => {
                    peer.send(0, &peer::close(None)).await;
                    peer.shutdown().await;
                    break;
                }
                Some(_) => {}
                None => {
                    if peer.eof || peer.read_error.is_some() {
                        peer.shutdown().await;
                        break;
                    }
                }
            }
        }
    };
    if client_side {
        let (cs, ps, _net) = crate::net::SimStream::pair("client", "peer", nab, nba);
        let mut peer = Peer::new("peer", ps);
        let hs = async {
            let _ = peer.expect_header().await?;
            peer.send_header(peer::AMQP_HEADER).await;
            peer.expect(wire::OPEN).await?;
            peer.send(0, &open).await;
            Some(())
        };
        let (c, _) = match sim::op("open against extreme values", world::join2(sim::in_group(1, world::client_open(&cfg, cs)), hs)).await {
            Some(x) => x,
            None => return,
        };
        match c {
            Ok(mut h) => {
                sim::probe("weird-open-accepted");
                let (r, _) = world::join2(sim::op("close", h.close()), serve(peer)).await;
                if r.is_none() {
                    return;
                }
            }
            Err(_) => {
                sim::probe("weird-open-refused");
                serve(peer).await;
            }
        }
    } else {
        let (ps, ls, _net) = crate::net::SimStream::pair("peer", "listener", nab, nba);
        let mut peer = Peer::new("peer", ps);
        let acceptor = world::listener_acceptor(&cfg);
        let hs = async {
            peer.send_header(peer::AMQP_HEADER).await;
            peer.send(0, &open).await;
            let _ = peer.expect_header().await?;
            peer.expect(wire::OPEN).await?;
            Some(())
        };
        let (l, _) = match sim::op("accept against extreme values", world::join2(sim::in_group(2, acceptor.accept(ls)), hs)).await {
            Some(x) => x,
            None => return,
        };
        match l {
            Ok(mut h) => {
                sim::probe("weird-open-accepted");
                let (r, _) = world::join2(sim::op("close", h.close()), serve(peer)).await;
                if r.is_none() {
                    return;
                }
            }
            Err(_) => {
                sim::probe("weird-open-refused");
                serve(peer).await;
            }
        }
    }
    sim::sleep_ms(2000).await;
    sim::until_idle().await;
    let alive = sim::alive_tasks(true, None);
    if !alive.is_empty() {
        sim::violation("engine-task-alive", format!("after the connection was closed or refused, engine tasks are still alive: {:?}", alive));
    }
}

async fn run(client_side: bool) {
    if choice(12) == 0 {
        return run_weird_open(client_side).await;
    }
    let kind = pick(&CATALOGUE);
    let (need_s, need_l) = needs(kind);
    let level = choice(4); // 0 open only, 1 session, 2 links, 3 links + traffic in flight
    let want_links = need_l || level >= 2;
    let want_session = need_s || want_links || level >= 1;
    let in_flight = want_links && level == 3;
    let during_close = choice(8) == 0;
    let ep_window = pick(&[2048u32, 3, 8]);
    let mfs = pick(&[65536u32, 512, 4096]);
    sim::set_config(format!(
        "victim={} hostile={:?} session={} links={} in-flight={} during-close={} ep-incoming-window={} ep-max-frame-size={}",
        if client_side { "client" } else { "listener" },
        kind,
        want_session,
        want_links,
        in_flight,
        during_close,
        ep_window,
        mfs
    ));
    sim::mark_nontrivial();
    sim::set_panic_is_violation(true);
    let bdone: Slot<Result<u32, String>> = Slot::new();
    sim::spawn("bystander", bystander(bdone.clone()));
    let Setup { victim, mut peer, net, mon, mut ctx, d } = match setup(client_side, want_session, want_links, ep_window, mfs).await {
        Some(s) => s,
        None => return,
    };
    let Victim { conn, mut sess, mut sender, mut receiver } = victim;
    let group = if client_side { 1 } else { 2 };
    // ---- traffic in flight: a partial delivery towards the endpoint's receiver, and two unsettled deliveries from its sender
    let mut outcome_futs = Vec::new();
    let mut in_flight_transfers = 0u32;
    if in_flight {
        let f = transfer_frame(&ctx, ctx.h_snd, Some(ctx.next_id), Some(vec![0xAA]), true, &small_message(90)[..4]);
        peer.send_raw(&f).await;
        ctx.next_id += 1;
        if let Some(s) = sender.as_mut() {
            for i in 0..2u64 {
                match sim::op("in-flight send", s.send_batchable(msgs::gen_message(7000 + i, 50, 1))).await {
                    Some(Ok(f)) => outcome_futs.push(f),
                    Some(Err(_)) => {}
                    None => return,
                }
            }
        }
        settle_soft(&net).await;
        let _ = &mut in_flight_transfers; // (the serving task reads and counts them itself)
    }
    // ---- the hostile action
    let since = {
        mon.borrow_mut().sync();
        mon.borrow().log.last().map(|s| s.seq).unwrap_or(0)
    };
    let (mut bytes, mut then_eof, note) = hostile_bytes(kind, &mut ctx);
    sim::append_config(&format!(" [{}]", note));
    sim::fault("hostile-action");
    // one run in three: a second hostile action right behind the first (whatever the first did
    // to the connection, the second arrives on the same stream)
    let mut kinds = vec![kind];
    if !then_eof && choice(3) == 0 {
        let k2 = pick(&CATALOGUE);
        let (ns, nl) = needs(k2);
        if (!ns || want_session) && (!nl || want_links) {
            let (b2, eof2, note2) = hostile_bytes(k2, &mut ctx);
            bytes.extend_from_slice(&b2);
            then_eof = eof2;
            kinds.push(k2);
            sim::append_config(&format!(" then {:?} [{}]", k2, note2));
            sim::fault("second-hostile-action");
        }
    }
    let has = |k: Hostile| kinds.contains(&k);
    let close_task_done: Slot<Result<(), String>> = Slot::new();
    let mut conn = Some(conn);
    if during_close {
        // the application's close is under way when the hostile bytes arrive
        sim::fault("hostile-during-close");
        let c = conn.take().unwrap();
        let cd = close_task_done.clone();
        sim::spawn("victim-close", async move {
            let r = match c {
                Conn::C(mut c) => sim::op("connection close (concurrent)", c.close()).await.map(|r| r.map_err(|e| format!("{:?}", e))),
                Conn::L(mut c) => sim::op("connection close (concurrent)", c.close()).await.map(|r| r.map_err(|e| format!("{:?}", e))),
            };
            if let Some(r) = r {
                cd.put(r);
            }
        });
        sim::yield_now().await;
    }
    peer.send_raw(&bytes).await;
    if then_eof {
        peer.shutdown().await;
    }
    // ---- afterwards the peer behaves: it answers what a well-behaved peer answers
    let peer_done: Slot<()> = Slot::new();
    let peer_stop: Rc<RefCell<bool>> = Rc::new(RefCell::new(false));
    {
        let (pd, stop, ctx2, kinds2) = (peer_done.clone(), peer_stop.clone(), ctx.clone(), kinds.clone());
        sim::spawn("hostile-peer-serving", async move {
            let mut closed_by_us = kinds2.contains(&Hostile::FramesAfterClose);
            let mut ended_by_us = kinds2.contains(&Hostile::EndTwice);
            let mut seen_transfers = 0u32;
            let mut seen_deliveries = 0u32;
            // a well-behaved peer keeps its window and its credit open: restate both (the hostile
            // flow may have closed them, which by itself is the peer's right)
            let sane_flow = |transfers: u32, deliveries: u32| {
                let mut f = FlowArgs { next_incoming_id: Some(transfers), incoming_window: 2048, next_outgoing_id: ctx2.next_id, outgoing_window: 2048, ..Default::default() };
                if ctx2.links {
                    f.handle = Some(ctx2.h_rcv);
                    f.delivery_count = Some(deliveries);
                    f.link_credit = Some(100);
                }
                peer::flow(&f)
            };
            let restate = kinds2.contains(&Hostile::WeirdFlow) && ctx2.session;
            if restate {
                peer.send(ctx2.chan, &sane_flow(in_flight_transfers, in_flight_transfers)).await;
            }
            seen_transfers += in_flight_transfers;
            seen_deliveries += in_flight_transfers;
            loop {
                if *stop.borrow() || sim::has_violation() {
                    break;
                }
                match peer.recv_within(200).await {
                    Some(Item::Frame(f)) => match f.code {
                        wire::TRANSFER => {
                            seen_transfers += 1;
                            if let Some(id) = f.perf.as_ref().and_then(|p| p.field(1).as_u32()) {
                                seen_deliveries += 1;
                                peer.send(ctx2.chan, &peer::disposition(true, id, None, true, Some(peer::accepted()))).await;
                            }
                            if restate {
                                peer.send(ctx2.chan, &sane_flow(seen_transfers, seen_deliveries)).await;
                            }
                        }
                        wire::BEGIN => {
                            // a fresh session from a client victim
                            if f.perf.as_ref().map(|p| p.field(0).is_null()).unwrap_or(false) {
                                peer.send(f.channel, &peer::begin(Some(f.channel), 0, 2048, 2048)).await;
                            }
                        }
                        wire::DETACH => {
                            let p = f.perf.as_ref().unwrap();
                            let h = p.field(0).as_u32().unwrap_or(0);
                            let closed = p.field(1).as_bool().unwrap_or(false);
                            // the peer's handle for the endpoint's handle: links were attached in the order S, R
                            let ours = if h == 0 { 5 } else { 4 };
                            if !(kinds2.contains(&Hostile::DetachTwice) && ours == 4) {
                                peer.send(f.channel, &peer::detach(ours, closed, None)).await;
                            }
                        }
                        wire::END => {
                            if !(ended_by_us && f.channel == ctx2.ep_chan) {
                                peer.send(f.channel, &peer::end(None)).await;
                            }
                            ended_by_us = false;
                        }
                        wire::CLOSE => {
                            if !closed_by_us {
                                peer.send(0, &peer::close(None)).await;
                            }
                            closed_by_us = true;
                            peer.shutdown().await;
                        }
                        _ => {}
                    },
                    Some(_) => {}
                    None => {
                        if peer.eof || peer.read_error.is_some() {
                            // the endpoint is gone: a well-behaved peer ends its side too
                            peer.shutdown().await;
                            break;
                        }
                    }
                }
            }
            pd.put(());
        });
    }
    // ---- quiescence: the endpoint has digested the hostile bytes
    let t0 = sim::now_ms();
    settle_soft(&net).await;
    sim::sleep_ms(50).await;
    settle_soft(&net).await;
    if sim::has_violation() {
        return;
    }
    if sim::now_ms() - t0 > 120_000 {
        sim::violation("slow-to-settle", format!("{} virtual ms passed before the endpoint was quiescent after the hostile action", sim::now_ms() - t0));
        return;
    }
    let after = aftermath(&mon, d, since);
    let transport_gone = { net.a2b.lock().unwrap().cut_fired } || peer_gone(&net, d);
    let conn_down = after.close || transport_gone || then_eof;
    let sess_down = conn_down || after.ended;
    sim::append_config(&format!(" aftermath={:?}", after));
    // ---- the application now uses every handle it has
    let mut errors_seen = 0u32;
    for (i, f) in outcome_futs.into_iter().enumerate() {
        match sim::op(&format!("outcome {}", i), f).await {
            Some(Ok(_)) => {}
            Some(Err(_)) => errors_seen += 1,
            None => return,
        }
    }
    if let Some(mut s) = sender.take() {
        let link_down = sess_down || after.detached.iter().any(|(h, _)| *h == 0);
        // a data-path call on a scope that is down must fail; on a live scope it may do either
        let r = if link_down {
            sim::op("send on the sender link", s.send(msgs::gen_message(7100, 50, 1))).await
        } else {
            // the link is up as far as the wire tells: the peer accepts what arrives, but credit may be gone
            match tokio::time::timeout(std::time::Duration::from_secs(20), s.send(msgs::gen_message(7100, 50, 1))).await {
                Ok(r) => Some(r),
                Err(_) => {
                    sim::probe("send-pending-on-live-link");
                    None
                }
            }
        };
        match r {
            Some(Ok(_)) if link_down => {
                sim::violation("operation-succeeded-on-dead-scope", format!("a send on a link whose scope the endpoint had shut down ({:?}) returned Ok", after));
                return;
            }
            Some(Ok(_)) => {}
            Some(Err(_)) => errors_seen += 1,
            None => {
                if sim::has_violation() {
                    return;
                }
            }
        }
        match sim::op("sender close", s.close()).await {
            Some(Err(_)) => errors_seen += 1,
            Some(Ok(())) => {}
            None => return,
        }
    }
    if let Some(mut r) = receiver.take() {
        let link_down = sess_down || after.detached.iter().any(|(h, _)| *h == 1);
        if link_down {
            match sim::op("recv on the receiver link", r.recv::<Body<Value>>()).await {
                Some(Ok(_)) => {
                    // deliveries that had arrived before the shutdown may still be handed out
                }
                Some(Err(_)) => errors_seen += 1,
                None => return,
            }
        } else {
            match tokio::time::timeout(std::time::Duration::from_secs(5), r.recv::<Body<Value>>()).await {
                Ok(Err(_)) => errors_seen += 1,
                _ => {}
            }
        }
        match sim::op("receiver close", r.close()).await {
            Some(Err(_)) => errors_seen += 1,
            Some(Ok(())) => {}
            None => return,
        }
    }
    // a fresh session shows that a connection that is still up is not wedged
    if !conn_down && conn.is_some() {
        match conn.as_mut().unwrap() {
            Conn::C(c) => match sim::op("fresh session begin", sim::in_group(group, Session::begin(c))).await {
                Some(Ok(mut s)) => {
                    match sim::op("fresh session end", s.end()).await {
                        Some(Ok(())) => sim::probe("fresh-session-worked"),
                        Some(Err(e)) => {
                            sim::violation("connection-wedged", format!("the connection was left up ({:?}) but ending a fresh session failed: {:?}", after, e));
                            return;
                        }
                        None => return,
                    }
                }
                Some(Err(e)) => {
                    // the endpoint may have closed in the meantime (e.g. answering a later frame)
                    let a2 = aftermath(&mon, d, since);
                    if !(a2.close || peer_gone(&net, d)) {
                        sim::violation("connection-wedged", format!("the connection was left up ({:?}) but a fresh session could not be begun: {:?}", after, e));
                        return;
                    }
                }
                None => return,
            },
            Conn::L(_) => {}
        }
    }
    if let Some(s) = sess.take() {
        let r = match s {
            Sess::C(mut s) => sim::op("session end", s.end()).await.map(|r| r.map_err(|e| format!("{:?}", e))),
            Sess::L(mut s) => sim::op("session end", s.end()).await.map(|r| r.map_err(|e| format!("{:?}", e))),
        };
        match r {
            Some(Err(_)) => errors_seen += 1,
            Some(Ok(())) => {}
            None => return,
        }
    }
    let close_result = match conn {
        Some(Conn::C(mut c)) => sim::op("connection close", c.close()).await.map(|r| r.map_err(|e| format!("{:?}", e))),
        Some(Conn::L(mut c)) => sim::op("connection close", c.close()).await.map(|r| r.map_err(|e| format!("{:?}", e))),
        None => sim::op("connection close (concurrent) result", close_task_done.take()).await,
    };
    let close_result = match close_result {
        Some(r) => r,
        None => return,
    };
    if close_result.is_err() {
        errors_seen += 1;
    }
    // an endpoint that shut a scope down because of the peer makes the error visible to the application
    let shut_with_error = after.close_error.is_some() || after.end_error.is_some() || after.detached.iter().any(|(_, e)| e.is_some());
    if shut_with_error && errors_seen == 0 && !during_close {
        sim::violation(
            "shutdown-invisible-to-application",
            format!("the endpoint answered the hostile action with {:?}, yet no call on any handle reported an error (connection.close() = {:?})", after, close_result),
        );
        return;
    }
    if transport_gone && !after.close && !then_eof && !has(Hostile::FramesAfterClose) && !during_close && close_result.is_ok() {
        sim::violation(
            "shutdown-invisible-to-application",
            format!("the endpoint dropped the transport without a close frame after the hostile action; connection.close() returned Ok and {} calls reported an error", errors_seen),
        );
        return;
    }
    if after.close_error.is_some() && close_result.is_ok() && !during_close {
        sim::violation(
            "shutdown-invisible-to-application",
            format!("the endpoint closed the connection with {:?}; connection.close() returned Ok", after.close_error),
        );
        return;
    }
    sim::probe(if after.close { "answered-with-close" } else if after.ended { "answered-with-end" } else if !after.detached.is_empty() { "answered-with-detach" } else if transport_gone { "transport-dropped" } else { "ignored" });
    *peer_stop.borrow_mut() = true;
    if sim::op("peer script", peer_done.take()).await.is_none() {
        return;
    }
    // ---- the victim's engine tasks are gone, the bystander never noticed
    settle_soft(&net).await;
    sim::sleep_ms(3000).await;
    sim::until_idle().await;
    let alive = sim::alive_tasks(true, Some(group));
    if !alive.is_empty() {
        sim::violation("engine-task-alive", format!("after every handle of the attacked connection was closed, engine tasks are still alive: {:?}", alive));
        return;
    }
    match sim::op("bystander", bdone.take()).await {
        Some(Ok(6)) => sim::probe("bystander-unaffected"),
        Some(other) => sim::violation("bystander-affected", format!("the healthy connection in the same process ended with {:?}", other)),
        None => {}
    }
}

/// Quiescence after a hostile action: the endpoint may have stopped reading for good, so unread
/// bytes do not count; bounded
async fn settle_soft(net: &crate::net::NetHandle) {
    for _ in 0..40 {
        sim::until_idle().await;
        if net.idle() {
            return;
        }
        sim::sleep_ms(25).await;
    }
    sim::until_idle().await;
}

/// true if the endpoint (writer of direction d) ended its stream
fn peer_gone(net: &crate::net::NetHandle, d: usize) -> bool {
    let p = if d == 0 { &net.a2b } else { &net.b2a };
    p.lock().unwrap().writer_is_closed()
}
