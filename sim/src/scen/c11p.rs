//! C11, scripted-peer variant — a peer that picks identifiers of its own.
//!
//! The quantifier of C11 ends with "peers that pick arbitrary (sparse, large, reused) handle
//! and channel numbers of their own". The pair scenarios cannot produce those: a real
//! endpoint allocates the smallest free number. Here a scripted peer talks to a real listener
//! (the peer begins and attaches) or to a real client (the peer answers), with
//!
//! * several sessions on sparse / large channel numbers (0, 1, 7, 254, 1000, 40000, 65535 ...
//!   within the agreed channel-max), the same delivery-id space in every session,
//! * links on sparse / large handles (0, 5, 77, 65536, 2^31, 2^32-1 ...), the same handle
//!   numbers used again in every session,
//! * a handle used again for another link after a closing detach, a channel used again for
//!   another session after an end,
//! * deliveries (one or several frames, frames of two deliveries interleaved across links and
//!   sessions), per-link credit grants and dispositions with distinguishable outcomes.
//!
//! Oracles: every message carries the name of the link it was sent on and must come out of
//! the receiver of that name, in order, and of no other; what the endpoint sends must arrive
//! on the (channel, handle) its own attach gave to that link name, and never beyond the
//! credit granted to *that* link; every send resolves with the outcome the peer applied to
//! that very delivery on that very session; the endpoint's answering begin / attach name the
//! peer's channel / link; no link, session or connection is torn down by the endpoint; the
//! wire models for channels, handles, names and delivery-ids hold for what the endpoint writes.

use std::cell::RefCell;
use std::collections::BTreeMap;
use std::rc::Rc;

use fe2o3_amqp::acceptor::{LinkAcceptor, LinkEndpoint, ListenerSessionHandle, SessionAcceptor};
use fe2o3_amqp::link::receiver::CreditMode;
use fe2o3_amqp::session::SessionHandle;
use fe2o3_amqp::types::messaging::{AmqpValue, Body, Message, Outcome};
use fe2o3_amqp::types::primitives::Value;
use fe2o3_amqp::{Receiver, Sender, Session};

use crate::chooser::{choice, pick};
use crate::peer::{self, AttachArgs, Peer, PeerSession, TransferArgs};
use crate::refcodec::V;
use crate::sim;
use crate::wire::{self, Item, Models, WFrame};
use crate::world::{self, EndpointCfg};

const CHANNELS: [u16; 11] = [0, 1, 2, 5, 7, 100, 254, 255, 1000, 40000, 65535];
const HANDLES: [u32; 12] = [0, 1, 2, 5, 77, 255, 256, 1000, 65536, 0x8000_0000, u32::MAX - 1, u32::MAX];

#[derive(Default, Debug)]
struct AppLink {
    received: Vec<String>,
    outcomes: Vec<(String, String)>,
    error: Option<String>,
    attached: u32,
}
type AppLogs = Rc<RefCell<BTreeMap<String, AppLink>>>;

fn message(tag: &str, pad: usize) -> Message<Body<Value>> {
    let s = format!("{}|{}", tag, "x".repeat(pad));
    Message::builder().body(Body::Value(AmqpValue(Value::String(s)))).build()
}

fn tag_of(m: &Message<Body<Value>>) -> String {
    match &m.body {
        Body::Value(AmqpValue(Value::String(s))) => s.split('|').next().unwrap_or("").to_string(),
        other => format!("?{:?}", other).chars().take(40).collect(),
    }
}

fn verdict_of(o: &Outcome) -> String {
    match o {
        Outcome::Accepted(_) => "A".into(),
        Outcome::Released(_) => "L".into(),
        Outcome::Modified(_) => "M".into(),
        Outcome::Rejected(r) => format!("R:{}", r.error.as_ref().and_then(|e| e.description.clone()).unwrap_or_default()),
        #[allow(unreachable_patterns)]
        _ => "?".into(),
    }
}

/// How many messages the application behind a sending link wants to send: "...-n<k>"
fn planned(name: &str) -> usize {
    name.rsplit_once("-n").and_then(|(_, k)| k.parse().ok()).unwrap_or(0)
}

async fn app_receiver(mut r: Receiver, logs: AppLogs) {
    let name = r.name().to_string();
    logs.borrow_mut().entry(name.clone()).or_default().attached += 1;
    r.set_credit_mode(CreditMode::Auto(200));
    loop {
        match r.recv::<Body<Value>>().await {
            Ok(d) => {
                logs.borrow_mut().get_mut(&name).unwrap().received.push(tag_of(d.message()));
                let _ = r.accept(&d).await;
            }
            Err(e) => {
                logs.borrow_mut().get_mut(&name).unwrap().error = Some(format!("{:?}", e));
                break;
            }
        }
    }
    // the application's next operation answers the peer's detach
    let _ = tokio::time::timeout(std::time::Duration::from_secs(30), r.close()).await;
}

async fn app_sender(mut s: Sender, logs: AppLogs, batchable: bool, pad: usize) {
    let name = s.name().to_string();
    logs.borrow_mut().entry(name.clone()).or_default().attached += 1;
    let n = planned(&name);
    let mut futs = Vec::new();
    let mut failed = false;
    for k in 1..=n {
        let tag = format!("{}#{}", name, k);
        let m = message(&tag, if k % 3 == 0 { pad } else { 0 });
        if batchable {
            match s.send_batchable(m).await {
                Ok(f) => futs.push((tag, f)),
                Err(e) => {
                    logs.borrow_mut().get_mut(&name).unwrap().error = Some(format!("{:?}", e));
                    failed = true;
                    break;
                }
            }
        } else {
            match s.send(m).await {
                Ok(o) => logs.borrow_mut().get_mut(&name).unwrap().outcomes.push((tag, verdict_of(&o))),
                Err(e) => {
                    logs.borrow_mut().get_mut(&name).unwrap().error = Some(format!("{:?}", e));
                    failed = true;
                    break;
                }
            }
        }
    }
    for (tag, f) in futs {
        match f.await {
            Ok(o) => logs.borrow_mut().get_mut(&name).unwrap().outcomes.push((tag, verdict_of(&o))),
            Err(e) => {
                let mut l = logs.borrow_mut();
                let l = l.get_mut(&name).unwrap();
                if l.error.is_none() {
                    l.error = Some(format!("{:?}", e));
                }
                failed = true;
            }
        }
    }
    if !failed {
        let e = s.on_detach().await;
        logs.borrow_mut().get_mut(&name).unwrap().error = Some(format!("{:?}", e));
    }
    let _ = tokio::time::timeout(std::time::Duration::from_secs(30), s.close()).await;
}

async fn listener_session(mut sess: ListenerSessionHandle, logs: AppLogs) {
    let la = LinkAcceptor::new();
    let mut errors = 0;
    loop {
        match la.accept(&mut sess).await {
            Ok(LinkEndpoint::Receiver(r)) => sim::spawn("app-receiver", sim::in_group(2, app_receiver(r, logs.clone()))),
            Ok(LinkEndpoint::Sender(s)) => {
                let batchable = s.name().contains("-b-");
                sim::spawn("app-sender", sim::in_group(2, app_sender(s, logs.clone(), batchable, 900)))
            }
            Err(e) => {
                let es = format!("{:?}", e);
                errors += 1;
                if es.contains("SessionStopped") || es.contains("IllegalSessionState") || errors > 3 {
                    break;
                }
            }
        }
    }
    let _ = sess.on_end().await;
}

// ---------------------------------------------------------------------------------------
// the peer's books

struct PSess {
    ps: PeerSession,
    ep_channel: u16,
    alive: bool,
    /// delivery-ids the peer has sent on this session
    sent_ids: Vec<u32>,
    /// deliveries received on this session and not yet disposed of: (delivery-id, link index)
    undisposed: Vec<(u32, usize)>,
}

struct PLink {
    si: usize,
    name: String,
    peer_handle: u32,
    ep_handle: u32,
    peer_is_sender: bool,
    alive: bool,
    // peer sends:
    sent: Vec<String>,
    /// last (delivery-count, link-credit) the endpoint stated for this link
    ep_credit: Option<(u32, u32)>,
    // peer receives:
    dc0: u32,
    limit: u32,
    got: Vec<(u32, String)>,
    open: Option<(u32, Vec<u8>)>,
    verdicts: BTreeMap<String, String>,
}

struct Books {
    sess: Vec<PSess>,
    links: Vec<PLink>,
    /// name of the real endpoint in messages
    who: &'static str,
}

impl Books {
    fn live_sess_by_ep_channel(&self, ch: u16) -> Option<usize> {
        self.sess.iter().position(|s| s.alive && s.ep_channel == ch)
    }
    fn live_link_by_ep_handle(&self, si: usize, h: u32) -> Option<usize> {
        self.links.iter().position(|l| l.alive && l.si == si && l.ep_handle == h)
    }

    /// Everything the endpoint writes passes through here. Lifecycle frames that the script
    /// is not waiting for are the endpoint tearing something down on its own.
    fn absorb(&mut self, f: &WFrame) {
        let p = match &f.perf {
            Some(p) => p,
            None => return,
        };
        match f.code {
            wire::TRANSFER => {
                let si = match self.live_sess_by_ep_channel(f.channel) {
                    Some(si) => si,
                    None => {
                        sim::violation("frame-on-foreign-channel", format!("{} sent a transfer on channel {} which carries no live session of its own", self.who, f.channel));
                        return;
                    }
                };
                self.sess[si].ps.on_transfer_received();
                let h = p.field(0).as_u32().unwrap_or(0);
                let li = match self.live_link_by_ep_handle(si, h) {
                    Some(li) if !self.links[li].peer_is_sender => li,
                    _ => {
                        sim::violation("transfer-on-foreign-handle", format!("{} sent a transfer with handle {} on its channel {}: no sending link of that session has that handle", self.who, h, f.channel));
                        return;
                    }
                };
                let more = p.field(5).as_bool().unwrap_or(false);
                let (id, mut buf) = match self.links[li].open.take() {
                    Some(x) => x,
                    None => (p.field(1).as_u32().unwrap_or(0), Vec::new()),
                };
                buf.extend_from_slice(&f.payload);
                if more {
                    self.links[li].open = Some((id, buf));
                    return;
                }
                let tag = match serde_amqp::from_slice::<fe2o3_amqp_types::messaging::message::__private::Deserializable<Message<Body<Value>>>>(&buf) {
                    Ok(m) => tag_of(&m.0),
                    Err(e) => format!("undecodable: {:?}", e),
                };
                let l = &mut self.links[li];
                let expect = format!("{}#{}", l.name, l.got.len() + 1);
                if tag != expect {
                    sim::violation(
                        "outgoing-message-on-wrong-link",
                        format!("{} sent message {:?} on (channel {}, handle {}), which its attach gave to link {:?}; expected {:?}", self.who, tag, f.channel, h, l.name, expect),
                    );
                    return;
                }
                l.got.push((id, tag));
                if l.got.len() as u32 > l.limit {
                    sim::violation(
                        "delivery-beyond-the-credit-of-its-link",
                        format!("{} sent delivery {} on link {:?} which has been granted {} in all (a flow went to the wrong link?)", self.who, l.got.len(), l.name, l.limit),
                    );
                    return;
                }
                self.sess[si].undisposed.push((id, li));
            }
            wire::FLOW => {
                let si = match self.live_sess_by_ep_channel(f.channel) {
                    Some(si) => si,
                    None => return,
                };
                if let Some(h) = p.field(4).as_u32() {
                    if let Some(li) = self.live_link_by_ep_handle(si, h) {
                        if self.links[li].peer_is_sender {
                            self.links[li].ep_credit = Some((p.field(5).as_u32().unwrap_or(0), p.field(6).as_u32().unwrap_or(0)));
                        }
                    }
                }
            }
            wire::DISPOSITION => {
                let si = match self.live_sess_by_ep_channel(f.channel) {
                    Some(si) => si,
                    None => return,
                };
                if p.field(0).as_bool() == Some(true) {
                    let first = p.field(1).as_u32().unwrap_or(0);
                    let last = p.field(2).as_u32().unwrap_or(first);
                    let mut id = first;
                    loop {
                        if !self.sess[si].sent_ids.contains(&id) {
                            sim::violation(
                                "disposition-for-a-delivery-of-another-session",
                                format!("{} disposed of delivery-id {} on its channel {}: the peer sent no such delivery on that session (sent: {:?})", self.who, id, f.channel, self.sess[si].sent_ids),
                            );
                            return;
                        }
                        if id == last || last.wrapping_sub(first) > 10_000 {
                            break;
                        }
                        id = id.wrapping_add(1);
                    }
                }
            }
            wire::DETACH | wire::END | wire::CLOSE => {
                sim::violation(
                    "endpoint-tore-down-on-its-own",
                    format!("{} wrote {} although the peer did nothing illegal", self.who, wire::describe_frame(f)),
                );
            }
            _ => {}
        }
    }
}

/// Read until a frame satisfies `pred`; everything else goes through the books
async fn pump_until(peer: &mut Peer, books: &mut Books, what: &str, pred: impl Fn(&WFrame) -> bool) -> Option<WFrame> {
    let deadline = tokio::time::Instant::now() + sim::OP_DEADLINE;
    let mut backlog: Vec<WFrame> = std::mem::take(&mut peer.skipped);
    backlog.reverse();
    loop {
        if sim::has_violation() {
            return None;
        }
        let f = match backlog.pop() {
            Some(f) => f,
            None => {
                let left = deadline.saturating_duration_since(tokio::time::Instant::now());
                match tokio::time::timeout(left, peer.recv()).await {
                    Ok(Some(Item::Frame(f))) => f,
                    Ok(Some(_)) => continue,
                    _ => {
                        sim::violation("no-answer", format!("{}: {} never arrived (eof={} read-error={:?})", books.who, what, peer.eof, peer.read_error));
                        return None;
                    }
                }
            }
        };
        if pred(&f) {
            return Some(f);
        }
        books.absorb(&f);
    }
}

async fn quiesce(peer: &mut Peer, net: &crate::net::NetHandle, books: &mut Books) -> bool {
    let mut frames = std::mem::take(&mut peer.skipped);
    let ok = peer::settle(peer, net, |f| frames.push(f.clone())).await;
    for f in &frames {
        books.absorb(f);
        if sim::has_violation() {
            return false;
        }
    }
    if !ok && !(peer.eof || peer.read_error.is_some()) {
        sim::violation("no-quiescence", "the endpoint kept producing traffic for the whole virtual deadline".into());
    }
    ok
}

fn draw_distinct<T: Copy + PartialEq>(pool: &[T], taken: &[T], ok: impl Fn(T) -> bool) -> Option<T> {
    let cands: Vec<T> = pool.iter().copied().filter(|x| !taken.contains(x) && ok(*x)).collect();
    if cands.is_empty() {
        None
    } else {
        Some(cands[choice(cands.len() as u32) as usize])
    }
}

fn verdict_v(kind: u32, tag: &str) -> (String, V) {
    match kind {
        0 => ("A".into(), peer::accepted()),
        1 => ("L".into(), peer::released()),
        2 => ("M".into(), peer::modified(true, false)),
        _ => {
            let d = format!("verdict for {}", tag);
            (format!("R:{}", d), peer::rejected(Some(&d)))
        }
    }
}

/// Frames of one delivery of the peer on link `li`
fn build_delivery(books: &mut Books, li: usize, seq: usize) -> Vec<(usize, V, Vec<u8>)> {
    let l = &books.links[li];
    let tag = format!("{}#{}", l.name, seq);
    let pad = pick(&[0usize, 0, 40, 700, 1500]);
    let bytes = serde_amqp::to_vec(&fe2o3_amqp_types::messaging::message::__private::Serializable(message(&tag, pad))).expect("message serialises");
    let nfr = if bytes.len() > 100 { 1 + choice(3) as usize } else { 1 + choice(2) as usize };
    let mut cuts: Vec<usize> = (1..nfr).map(|_| choice(bytes.len() as u32 + 1) as usize).collect();
    cuts.sort();
    cuts.push(bytes.len());
    let si = l.si;
    let s = &mut books.sess[si];
    let id = s.ps.next_delivery_id;
    s.ps.next_delivery_id = id.wrapping_add(1);
    s.sent_ids.push(id);
    let mut out = Vec::new();
    let mut at = 0;
    for (k, c) in cuts.iter().enumerate() {
        let last = k + 1 == cuts.len();
        let first = k == 0;
        let t = TransferArgs {
            handle: books.links[li].peer_handle,
            delivery_id: if first || choice(2) == 1 { Some(id) } else { None },
            delivery_tag: if first || choice(2) == 1 { Some(format!("t{}", id).into_bytes()) } else { None },
            message_format: if first || choice(2) == 1 { Some(0) } else { None },
            settled: Some(false),
            more: Some(!last),
            ..Default::default()
        };
        out.push((li, peer::transfer(&t), bytes[at..*c].to_vec()));
        at = *c;
    }
    books.links[li].sent.push(tag);
    out
}

fn credit_left(l: &PLink) -> u32 {
    match l.ep_credit {
        Some((dc, credit)) => dc.wrapping_add(credit).wrapping_sub(l.sent.len() as u32),
        None => 0,
    }
}

async fn peer_sends(peer: &mut Peer, net: &crate::net::NetHandle, books: &mut Books) -> bool {
    let mut cands: Vec<usize> = (0..books.links.len()).filter(|&i| books.links[i].alive && books.links[i].peer_is_sender && books.links[i].sent.len() < 100).collect();
    if cands.is_empty() {
        return true;
    }
    if cands.iter().any(|&i| credit_left(&books.links[i]) == 0 || credit_left(&books.links[i]) > 1 << 30) {
        if !quiesce(peer, net, books).await {
            return false;
        }
        cands.retain(|&i| {
            let c = credit_left(&books.links[i]);
            c > 0 && c < 1 << 30
        });
        if cands.is_empty() {
            sim::probe("peer-sender-without-credit");
            return true;
        }
    }
    // one delivery, or two deliveries on different links with their frames interleaved
    let a = cands[choice(cands.len() as u32) as usize];
    let seq_a = books.links[a].sent.len() + 1;
    let mut fa = build_delivery(books, a, seq_a);
    let others: Vec<usize> = cands.iter().copied().filter(|&i| i != a).collect();
    let mut fb = if !others.is_empty() && choice(2) == 1 {
        let b = others[choice(others.len() as u32) as usize];
        let seq_b = books.links[b].sent.len() + 1;
        if books.links[b].si != books.links[a].si {
            sim::probe("frames-of-two-sessions-interleaved");
        } else {
            sim::probe("frames-of-two-links-interleaved");
        }
        build_delivery(books, b, seq_b)
    } else {
        Vec::new()
    };
    fa.reverse();
    fb.reverse();
    while !fa.is_empty() || !fb.is_empty() {
        let take_a = fb.is_empty() || (!fa.is_empty() && choice(2) == 0);
        let (li, perf, payload) = if take_a { fa.pop().unwrap() } else { fb.pop().unwrap() };
        let si = books.links[li].si;
        let ch = books.sess[si].ps.channel;
        if payload.len() > 0 && books.links[li].sent.len() > 0 {
            sim::probe("peer-transfer-frame");
        }
        if !peer.send_with_payload(ch, &perf, &payload).await {
            return false;
        }
        books.sess[si].ps.on_transfer_sent();
    }
    true
}

async fn peer_grants(peer: &mut Peer, books: &mut Books, all: bool) -> bool {
    let cands: Vec<usize> = (0..books.links.len())
        .filter(|&i| {
            let l = &books.links[i];
            l.alive && !l.peer_is_sender && (l.limit as usize) < planned(&l.name)
        })
        .collect();
    if cands.is_empty() {
        return true;
    }
    let chosen: Vec<usize> = if all { cands } else { vec![cands[choice(cands.len() as u32) as usize]] };
    for li in chosen {
        let l = &mut books.links[li];
        let k = if all { planned(&l.name) as u32 } else { 1 + choice(3) };
        let got = l.got.len() as u32;
        l.limit = l.limit.max(got + k);
        let mut f = books.sess[l.si].ps.flow_args();
        f.handle = Some(l.peer_handle);
        f.delivery_count = Some(l.dc0.wrapping_add(got));
        f.link_credit = Some(k);
        sim::probe("credit-granted-to-one-link");
        let ch = books.sess[l.si].ps.channel;
        if !peer.send(ch, &peer::flow(&f)).await {
            return false;
        }
    }
    true
}

async fn peer_disposes(peer: &mut Peer, books: &mut Books, all: bool) -> bool {
    loop {
        let cands: Vec<usize> = (0..books.sess.len()).filter(|&i| books.sess[i].alive && !books.sess[i].undisposed.is_empty()).collect();
        if cands.is_empty() {
            return true;
        }
        let si = cands[choice(cands.len() as u32) as usize];
        books.sess[si].undisposed.sort();
        let start = choice(books.sess[si].undisposed.len() as u32) as usize;
        // a run of consecutive ids (it may span links of the session)
        let mut end = start;
        let want = choice(3) as usize;
        while end + 1 < books.sess[si].undisposed.len() && end - start < want && books.sess[si].undisposed[end + 1].0 == books.sess[si].undisposed[end].0.wrapping_add(1) {
            end += 1;
        }
        let run: Vec<(u32, usize)> = books.sess[si].undisposed.drain(start..=end).collect();
        let first_tag = {
            let (id, li) = run[0];
            books.links[li].got.iter().find(|(i, _)| *i == id).map(|(_, t)| t.clone()).unwrap_or_default()
        };
        let (vs, vv) = verdict_v(choice(5), &first_tag);
        for (id, li) in &run {
            let tag = books.links[*li].got.iter().find(|(i, _)| i == id).map(|(_, t)| t.clone()).unwrap_or_default();
            books.links[*li].verdicts.insert(tag, vs.clone());
        }
        if run.len() > 1 {
            sim::probe("range-disposition");
            if run.iter().any(|(_, li)| *li != run[0].1) {
                sim::probe("range-disposition-spanning-links");
            }
        }
        let ch = books.sess[si].ps.channel;
        let last = if run.len() > 1 || choice(2) == 1 { Some(run[run.len() - 1].0) } else { None };
        if !peer.send(ch, &peer::disposition(true, run[0].0, last, true, Some(vv))).await {
            return false;
        }
        if !all {
            return true;
        }
    }
}

/// Final judgement on what the applications saw
fn judge(books: &Books, logs: &AppLogs) {
    let logs = logs.borrow();
    for (name, l) in logs.iter() {
        if !books.links.iter().any(|k| &k.name == name) {
            sim::violation("link-nobody-attached", format!("the application of {} got a link named {:?} which the peer never attached", books.who, name));
            return;
        }
        for t in &l.received {
            if !t.starts_with(&format!("{}#", name)) {
                sim::violation("message-delivered-to-wrong-link", format!("the receiver {:?} of {} returned message {:?}", name, books.who, t));
                return;
            }
        }
    }
    for k in &books.links {
        let l = match logs.get(&k.name) {
            Some(l) => l,
            None => {
                sim::violation("link-never-reached-the-application", format!("link {:?} was attached on the wire but {}'s application never got it", k.name, books.who));
                return;
            }
        };
        if l.attached != 1 {
            sim::violation("link-handed-out-twice", format!("link {:?} was handed to {}'s application {} times", k.name, books.who, l.attached));
            return;
        }
        if k.peer_is_sender {
            let exact = k.alive && books.sess[k.si].alive;
            let ok = if exact { l.received == k.sent } else { k.sent.starts_with(&l.received) };
            if !ok {
                sim::violation(
                    "messages-of-a-link-lost-or-misrouted",
                    format!("link {:?} (peer channel {}, peer handle {}): peer sent {:?}, {}'s receiver returned {:?} (error {:?})", k.name, books.sess[k.si].ps.channel, k.peer_handle, k.sent, books.who, l.received, l.error),
                );
                return;
            }
            if !l.received.is_empty() {
                sim::probe("routed-incoming-messages-checked");
            }
        } else {
            for (tag, v) in &l.outcomes {
                match k.verdicts.get(tag) {
                    Some(pv) if pv == v => sim::probe("outcome-of-own-delivery-checked"),
                    other => {
                        sim::violation(
                            "outcome-of-another-delivery",
                            format!("send of {:?} on link {:?} resolved with {:?}; the peer applied {:?} to that delivery", tag, k.name, v, other),
                        );
                        return;
                    }
                }
            }
            if k.alive && books.sess[k.si].alive {
                let n = planned(&k.name);
                if k.got.len() != n.min(k.limit as usize) {
                    sim::violation(
                        "granted-credit-not-used-by-its-link",
                        format!("link {:?}: the application wants to send {}, the peer granted {} to this link, {} arrived (error {:?})", k.name, n, k.limit, k.got.len(), l.error),
                    );
                    return;
                }
                if l.outcomes.len() != k.verdicts.len() {
                    sim::violation(
                        "outcome-never-reached-its-send",
                        format!("link {:?}: the peer disposed of {:?}, the application saw outcomes for {:?} (error {:?})", k.name, k.verdicts.keys().collect::<Vec<_>>(), l.outcomes.iter().map(|(t, _)| t).collect::<Vec<_>>(), l.error),
                    );
                    return;
                }
            }
        }
    }
}

// ---------------------------------------------------------------------------------------
// (a) the peer is the client: real listener

struct Namer {
    next: u32,
}
impl Namer {
    fn link(&mut self, si: usize, peer_is_sender: bool) -> String {
        self.next += 1;
        if peer_is_sender {
            format!("g{}-s{}-in", self.next, si)
        } else {
            format!("g{}-s{}-out-{}-n{}", self.next, si, if choice(2) == 1 { "b" } else { "p" }, 1 + choice(5))
        }
    }
}

async fn l_begin(peer: &mut Peer, books: &mut Books, channel: u16, initial_id: u32) -> Option<usize> {
    let mut ps = PeerSession::new(channel, initial_id, 5000, 5000);
    peer.send(channel, &peer::begin(None, ps.next_outgoing_id, ps.incoming_window, ps.outgoing_window)).await;
    let b = pump_until(peer, books, "the begin that answers the peer's begin", |f| f.code == wire::BEGIN).await?;
    let p = b.perf.as_ref().unwrap();
    if p.field(0).as_u32() != Some(channel as u32) {
        sim::violation(
            "begin-answers-another-channel",
            format!("{} answered the begin on peer channel {} with a begin whose remote-channel is {:?}", books.who, channel, p.field(0)),
        );
        return None;
    }
    if books.sess.iter().any(|s| s.alive && s.ep_channel == b.channel) {
        sim::violation("channel-in-use", format!("{} answered on its channel {} which carries a live session", books.who, b.channel));
        return None;
    }
    ps.on_remote_begin(p, b.channel);
    books.sess.push(PSess { ps, ep_channel: b.channel, alive: true, sent_ids: Vec::new(), undisposed: Vec::new() });
    Some(books.sess.len() - 1)
}

async fn l_attach(peer: &mut Peer, books: &mut Books, si: usize, name: String, peer_handle: u32, peer_is_sender: bool) -> Option<usize> {
    let mut args = if peer_is_sender { AttachArgs::sender(&name, peer_handle) } else { AttachArgs::receiver(&name, peer_handle) };
    if peer_is_sender {
        args.initial_delivery_count = Some(0);
    }
    let ch = books.sess[si].ps.channel;
    let ep_ch = books.sess[si].ep_channel;
    peer.send(ch, &peer::attach(&args)).await;
    let n2 = name.clone();
    let a = pump_until(peer, books, "the attach that answers the peer's attach", move |f| f.code == wire::ATTACH && f.perf.as_ref().unwrap().field(0).as_str() == Some(n2.as_str())).await?;
    let p = a.perf.as_ref().unwrap();
    if a.channel != ep_ch {
        sim::violation(
            "attach-answered-on-another-session",
            format!("{} answered the attach of {:?} (peer channel {}) on its channel {}; that session's channel is {}", books.who, name, ch, a.channel, ep_ch),
        );
        return None;
    }
    let ep_handle = p.field(1).as_u32().unwrap_or(0);
    if p.field(2).as_bool() != Some(peer_is_sender) {
        sim::violation("attach-answer-with-wrong-role", format!("{} answered the attach of {:?} with role receiver={:?}", books.who, name, p.field(2)));
        return None;
    }
    books.links.push(PLink {
        si,
        name,
        peer_handle,
        ep_handle,
        peer_is_sender,
        alive: true,
        sent: Vec::new(),
        ep_credit: None,
        dc0: p.field(9).as_u32().unwrap_or(0),
        limit: 0,
        got: Vec::new(),
        open: None,
        verdicts: BTreeMap::new(),
    });
    Some(books.links.len() - 1)
}

pub async fn run_listener() {
    let mut lcfg = EndpointCfg::default_cfg();
    lcfg.channel_max = pick(&[65535u16, 65535, 255, 7]);
    let peer_cm = pick(&[65535u16, 65535, 255]);
    let agreed = lcfg.channel_max.min(peer_cm);
    let (nab, nba, nd) = world::draw_net(true);
    let nsess = 1 + choice(3) as usize;
    let same_handles = choice(2) == 1;
    let initial_id = pick(&[0u32, 0, 5, u32::MAX - 2]);
    sim::set_config(format!("side=listener channel-max={}/{} sessions={} same-handles-in-every-session={} initial-delivery-id={} {}", lcfg.channel_max, peer_cm, nsess, same_handles, initial_id, nd));
    sim::mark_nontrivial();
    let models = Models { sess: true, link: true, delivery: true, ..Models::none() };
    let pvl = match peer::peer_vs_listener(&lcfg, peer::open("peer", Some(65536), Some(peer_cm), None), nab, nba, models).await {
        Some(x) => x,
        None => return,
    };
    let peer::ListenerVsPeer { mut listener, mut peer, net, mon, .. } = pvl;
    let logs: AppLogs = Rc::new(RefCell::new(BTreeMap::new()));
    let logs2 = logs.clone();
    let lcfg2 = lcfg.clone();
    sim::spawn(
        "listener-app",
        sim::in_group(2, async move {
            let sa = world::session_acceptor(&lcfg2);
            loop {
                match sa.accept(&mut listener).await {
                    Ok(sess) => sim::spawn("listener-session", sim::in_group(2, listener_session(sess, logs2.clone()))),
                    Err(_) => break,
                }
            }
            let _ = listener.on_close().await;
        }),
    );
    let mut books = Books { sess: Vec::new(), links: Vec::new(), who: "listener" };
    let mut namer = Namer { next: 0 };
    // sessions on channels of the peer's choosing
    let mut channels: Vec<u16> = Vec::new();
    for _ in 0..nsess {
        let c = match draw_distinct(&CHANNELS, &channels, |c| c <= agreed) {
            Some(c) => c,
            None => break,
        };
        channels.push(c);
        if c > 255 {
            sim::probe("large-channel-number");
        }
        if l_begin(&mut peer, &mut books, c, initial_id).await.is_none() {
            return;
        }
    }
    // links on handles of the peer's choosing
    let handle_pool: Vec<u32> = (0..4).filter_map(|_| Some(pick(&HANDLES))).collect();
    for si in 0..books.sess.len() {
        let nlinks = 1 + choice(3) as usize;
        let mut taken: Vec<u32> = Vec::new();
        for k in 0..nlinks {
            let h = if same_handles && !taken.contains(&handle_pool[k]) { handle_pool[k] } else { draw_distinct(&HANDLES, &taken, |_| true).unwrap() };
            taken.push(h);
            if h > 65535 {
                sim::probe("large-handle-number");
            }
            let peer_is_sender = choice(2) == 1;
            let name = namer.link(si, peer_is_sender);
            if l_attach(&mut peer, &mut books, si, name, h, peer_is_sender).await.is_none() {
                return;
            }
        }
    }
    if !quiesce(&mut peer, &net, &mut books).await {
        return;
    }
    let steps = 6 + choice(14);
    for _ in 0..steps {
        if sim::has_violation() {
            return;
        }
        match choice(10) {
            0..=3 => {
                if !peer_sends(&mut peer, &net, &mut books).await {
                    return;
                }
            }
            4 | 5 => {
                if !peer_grants(&mut peer, &mut books, false).await {
                    return;
                }
            }
            6 => {
                // read what has arrived, then dispose of something
                let frames = peer.drain_for(pick(&[1u64, 5, 20])).await;
                for f in &frames {
                    books.absorb(f);
                }
                if !peer_disposes(&mut peer, &mut books, false).await {
                    return;
                }
            }
            7 => {
                // a closing detach, then another link on the same handle
                let cands: Vec<usize> = (0..books.links.len()).filter(|&i| books.links[i].alive && books.sess[books.links[i].si].alive).collect();
                if cands.is_empty() {
                    continue;
                }
                let li = cands[choice(cands.len() as u32) as usize];
                let (si, h, eh) = (books.links[li].si, books.links[li].peer_handle, books.links[li].ep_handle);
                let (ch, ep_ch) = (books.sess[si].ps.channel, books.sess[si].ep_channel);
                // outstanding deliveries of the link are settled first, so that nothing but the detach is pending
                if !quiesce(&mut peer, &net, &mut books).await {
                    return;
                }
                books.sess[si].undisposed.retain(|(_, l)| *l != li);
                peer.send(ch, &peer::detach(h, true, None)).await;
                if pump_until(&mut peer, &mut books, "the detach that answers the peer's closing detach", |f| f.code == wire::DETACH && f.channel == ep_ch && f.perf.as_ref().unwrap().field(0).as_u32() == Some(eh)).await.is_none() {
                    return;
                }
                books.links[li].alive = false;
                let peer_is_sender = choice(2) == 1;
                let name = namer.link(si, peer_is_sender);
                sim::probe("handle-reused-after-detach");
                if l_attach(&mut peer, &mut books, si, name, h, peer_is_sender).await.is_none() {
                    return;
                }
            }
            8 => {
                // end, then another session on the same channel, with the same handles
                let cands: Vec<usize> = (0..books.sess.len()).filter(|&i| books.sess[i].alive).collect();
                if cands.is_empty() {
                    continue;
                }
                let si = cands[choice(cands.len() as u32) as usize];
                if !quiesce(&mut peer, &net, &mut books).await {
                    return;
                }
                let (ch, ep_ch) = (books.sess[si].ps.channel, books.sess[si].ep_channel);
                peer.send(ch, &peer::end(None)).await;
                // links of an ended session may be detached by the applications in passing
                let mut guard = 0;
                loop {
                    let f = match pump_until(&mut peer, &mut books, "the end that answers the peer's end", |f| f.channel == ep_ch && (f.code == wire::END || f.code == wire::DETACH)).await {
                        Some(f) => f,
                        None => return,
                    };
                    guard += 1;
                    if f.code == wire::END || guard > 50 {
                        break;
                    }
                }
                books.sess[si].alive = false;
                let old: Vec<(u32, bool)> = books.links.iter().filter(|l| l.si == si && l.alive).map(|l| (l.peer_handle, l.peer_is_sender)).collect();
                for l in books.links.iter_mut().filter(|l| l.si == si) {
                    l.alive = false;
                }
                sim::probe("channel-reused-after-end");
                let nsi = match l_begin(&mut peer, &mut books, ch, initial_id).await {
                    Some(x) => x,
                    None => return,
                };
                for (h, role) in old.into_iter().take(2) {
                    let name = namer.link(nsi, role);
                    if l_attach(&mut peer, &mut books, nsi, name, h, role).await.is_none() {
                        return;
                    }
                }
            }
            _ => {
                if !quiesce(&mut peer, &net, &mut books).await {
                    return;
                }
            }
        }
    }
    // let everything run out: all credit, all outcomes
    // (quiescence first: a grant restates the delivery-count, which must not lag behind transfers in flight)
    if !quiesce(&mut peer, &net, &mut books).await || !peer_grants(&mut peer, &mut books, true).await || !quiesce(&mut peer, &net, &mut books).await {
        return;
    }
    // a plain send() sends its next message only when the outcome of the previous one is in: one
    // round of disposals per message
    for _ in 0..12 {
        if books.sess.iter().all(|s| !s.alive || s.undisposed.is_empty()) {
            break;
        }
        if !peer_disposes(&mut peer, &mut books, true).await || !quiesce(&mut peer, &net, &mut books).await {
            return;
        }
    }
    mon.borrow_mut().sync();
    if sim::has_violation() {
        return;
    }
    judge(&books, &logs);
    peer.send(0, &peer::close(None)).await;
    let _ = peer.drain_for(2000).await;
}

// ---------------------------------------------------------------------------------------
// (b) the peer is the listener: real client

struct CSess {
    handle: Option<SessionHandle<()>>,
}

async fn c_begin(client: &mut fe2o3_amqp::connection::ConnectionHandle<()>, peer: &mut Peer, books: &mut Books, peer_channel: u16, initial_id: u32) -> Option<(usize, SessionHandle<()>)> {
    let mut ps = PeerSession::new(peer_channel, initial_id, 5000, 5000);
    let begin_fut = sim::in_group(1, Session::builder().begin(client));
    let mut ep_channel = 0u16;
    let who = books.who;
    let peer_begin = async {
        let b = peer.expect(wire::BEGIN).await?;
        ps.on_remote_begin(b.perf.as_ref().unwrap(), b.channel);
        ep_channel = b.channel;
        peer.send(peer_channel, &peer::begin(Some(b.channel), ps.next_outgoing_id, ps.incoming_window, ps.outgoing_window)).await;
        Some(())
    };
    match sim::op("begin", world::join2(begin_fut, peer_begin)).await {
        Some((Ok(s), Some(()))) => {
            if books.sess.iter().any(|x| x.alive && x.ep_channel == ep_channel) {
                sim::violation("channel-in-use", format!("{} began a session on its channel {} which carries a live session", who, ep_channel));
                return None;
            }
            books.sess.push(PSess { ps, ep_channel, alive: true, sent_ids: Vec::new(), undisposed: Vec::new() });
            Some((books.sess.len() - 1, s))
        }
        Some((r, _)) => {
            sim::violation("begin-failed", format!("begin answered on peer channel {}: {:?}", peer_channel, r.map(|_| ())));
            None
        }
        None => None,
    }
}

#[allow(clippy::too_many_arguments)]
async fn c_attach(session: &mut SessionHandle<()>, peer: &mut Peer, books: &mut Books, logs: &AppLogs, si: usize, name: String, peer_handle: u32, peer_is_sender: bool) -> Option<usize> {
    let ch = books.sess[si].ps.channel;
    let ep_ch = books.sess[si].ep_channel;
    let who = books.who;
    let mut ep_handle = 0u32;
    let mut dc0 = 0u32;
    let mut wrong: Option<String> = None;
    let n2 = name.clone();
    let peer_att = async {
        let a = peer.expect(wire::ATTACH).await?;
        let p = a.perf.as_ref().unwrap();
        if a.channel != ep_ch || p.field(0).as_str() != Some(n2.as_str()) {
            wrong = Some(format!("{} attached {:?} on its channel {}; the application attached {:?} on the session of channel {}", who, p.field(0), a.channel, n2, ep_ch));
        }
        ep_handle = p.field(1).as_u32().unwrap_or(0);
        dc0 = p.field(9).as_u32().unwrap_or(0);
        let mut args = if peer_is_sender { AttachArgs::sender(&n2, peer_handle) } else { AttachArgs::receiver(&n2, peer_handle) };
        if peer_is_sender {
            args.initial_delivery_count = Some(0);
        }
        peer.send(ch, &peer::attach(&args)).await;
        Some(())
    };
    if peer_is_sender {
        let att = sim::in_group(1, Receiver::builder().name(name.clone()).source("q").credit_mode(CreditMode::Auto(200)).attach(session));
        match sim::op("attach receiver", world::join2(att, peer_att)).await {
            Some((Ok(r), Some(()))) => sim::spawn("app-receiver", sim::in_group(1, app_receiver(r, logs.clone()))),
            Some((r, _)) => {
                sim::violation("attach-failed", format!("{:?}", r.map(|_| ())));
                return None;
            }
            None => return None,
        }
    } else {
        let att = sim::in_group(1, Sender::builder().name(name.clone()).target("q").attach(session));
        match sim::op("attach sender", world::join2(att, peer_att)).await {
            Some((Ok(s), Some(()))) => {
                let batchable = name.contains("-b-");
                sim::spawn("app-sender", sim::in_group(1, app_sender(s, logs.clone(), batchable, 900)))
            }
            Some((r, _)) => {
                sim::violation("attach-failed", format!("{:?}", r.map(|_| ())));
                return None;
            }
            None => return None,
        }
    }
    if let Some(w) = wrong {
        sim::violation("attach-on-another-session", w);
        return None;
    }
    books.links.push(PLink {
        si,
        name,
        peer_handle,
        ep_handle,
        peer_is_sender,
        alive: true,
        sent: Vec::new(),
        ep_credit: None,
        dc0,
        limit: 0,
        got: Vec::new(),
        open: None,
        verdicts: BTreeMap::new(),
    });
    Some(books.links.len() - 1)
}

pub async fn run_client() {
    let mut ccfg = EndpointCfg::default_cfg();
    ccfg.channel_max = pick(&[65535u16, 65535, 255, 7]);
    let peer_cm = pick(&[65535u16, 65535, 255]);
    let agreed = ccfg.channel_max.min(peer_cm);
    let (nab, nba, nd) = world::draw_net(true);
    let nsess = 1 + choice(3) as usize;
    let same_handles = choice(2) == 1;
    let initial_id = pick(&[0u32, 0, 5, u32::MAX - 2]);
    sim::set_config(format!("side=client channel-max={}/{} sessions={} same-handles-in-every-session={} initial-delivery-id={} {}", ccfg.channel_max, peer_cm, nsess, same_handles, initial_id, nd));
    sim::mark_nontrivial();
    let models = Models { sess: true, link: true, delivery: true, ..Models::none() };
    let cvp = match peer::client_vs_peer(&ccfg, peer::open("peer", Some(65536), Some(peer_cm), None), nab, nba, models).await {
        Some(x) => x,
        None => return,
    };
    let peer::ClientVsPeer { mut client, mut peer, net, mon, .. } = cvp;
    let logs: AppLogs = Rc::new(RefCell::new(BTreeMap::new()));
    let mut books = Books { sess: Vec::new(), links: Vec::new(), who: "client" };
    let mut namer = Namer { next: 0 };
    let mut csess: Vec<CSess> = Vec::new();
    let mut channels: Vec<u16> = Vec::new();
    for _ in 0..nsess {
        let c = match draw_distinct(&CHANNELS, &channels, |c| c <= agreed) {
            Some(c) => c,
            None => break,
        };
        channels.push(c);
        if c > 255 {
            sim::probe("large-channel-number");
        }
        match c_begin(&mut client, &mut peer, &mut books, c, initial_id).await {
            Some((_, s)) => csess.push(CSess { handle: Some(s) }),
            None => return,
        }
    }
    let handle_pool: Vec<u32> = (0..4).map(|_| pick(&HANDLES)).collect();
    for si in 0..books.sess.len() {
        let nlinks = 1 + choice(3) as usize;
        let mut taken: Vec<u32> = Vec::new();
        for k in 0..nlinks {
            let h = if same_handles && !taken.contains(&handle_pool[k]) { handle_pool[k] } else { draw_distinct(&HANDLES, &taken, |_| true).unwrap() };
            taken.push(h);
            if h > 65535 {
                sim::probe("large-handle-number");
            }
            let peer_is_sender = choice(2) == 1;
            let name = namer.link(si, peer_is_sender);
            let sess = csess[si].handle.as_mut().unwrap();
            if c_attach(sess, &mut peer, &mut books, &logs, si, name, h, peer_is_sender).await.is_none() {
                return;
            }
        }
    }
    if !quiesce(&mut peer, &net, &mut books).await {
        return;
    }
    let steps = 6 + choice(14);
    for _ in 0..steps {
        if sim::has_violation() {
            return;
        }
        match choice(10) {
            0..=3 => {
                if !peer_sends(&mut peer, &net, &mut books).await {
                    return;
                }
            }
            4 | 5 => {
                if !peer_grants(&mut peer, &mut books, false).await {
                    return;
                }
            }
            6 => {
                let frames = peer.drain_for(pick(&[1u64, 5, 20])).await;
                for f in &frames {
                    books.absorb(f);
                }
                if !peer_disposes(&mut peer, &mut books, false).await {
                    return;
                }
            }
            7 => {
                // the peer closes a link; the application then attaches another one and the peer
                // answers with the handle it has just freed
                let cands: Vec<usize> = (0..books.links.len()).filter(|&i| books.links[i].alive && books.sess[books.links[i].si].alive).collect();
                if cands.is_empty() {
                    continue;
                }
                let li = cands[choice(cands.len() as u32) as usize];
                let (si, h, eh) = (books.links[li].si, books.links[li].peer_handle, books.links[li].ep_handle);
                let (ch, ep_ch) = (books.sess[si].ps.channel, books.sess[si].ep_channel);
                if !quiesce(&mut peer, &net, &mut books).await {
                    return;
                }
                books.sess[si].undisposed.retain(|(_, l)| *l != li);
                peer.send(ch, &peer::detach(h, true, None)).await;
                if pump_until(&mut peer, &mut books, "the detach that answers the peer's closing detach", |f| f.code == wire::DETACH && f.channel == ep_ch && f.perf.as_ref().unwrap().field(0).as_u32() == Some(eh)).await.is_none() {
                    return;
                }
                books.links[li].alive = false;
                let peer_is_sender = choice(2) == 1;
                let name = namer.link(si, peer_is_sender);
                sim::probe("handle-reused-after-detach");
                let sess = csess[si].handle.as_mut().unwrap();
                if c_attach(sess, &mut peer, &mut books, &logs, si, name, h, peer_is_sender).await.is_none() {
                    return;
                }
            }
            8 => {
                // the application ends a session and begins another; the peer answers on the channel
                // it has just freed and re-uses the handles
                let cands: Vec<usize> = (0..books.sess.len()).filter(|&i| books.sess[i].alive).collect();
                if cands.is_empty() {
                    continue;
                }
                let si = cands[choice(cands.len() as u32) as usize];
                if !quiesce(&mut peer, &net, &mut books).await {
                    return;
                }
                let (ch, ep_ch) = (books.sess[si].ps.channel, books.sess[si].ep_channel);
                let mut s = csess[si].handle.take().unwrap();
                let end_fut = sim::in_group(1, async move {
                    let r = s.end().await;
                    drop(s);
                    r
                });
                let peer_end = async {
                    let mut guard = 0;
                    loop {
                        let f = pump_until(&mut peer, &mut books, "the application's end", |f| f.channel == ep_ch && (f.code == wire::END || f.code == wire::DETACH)).await?;
                        guard += 1;
                        if f.code == wire::END || guard > 50 {
                            break;
                        }
                    }
                    peer.send(ch, &peer::end(None)).await;
                    Some(())
                };
                match sim::op("end", world::join2(end_fut, peer_end)).await {
                    Some((_, Some(()))) => {}
                    _ => return,
                }
                books.sess[si].alive = false;
                let old: Vec<(u32, bool)> = books.links.iter().filter(|l| l.si == si && l.alive).map(|l| (l.peer_handle, l.peer_is_sender)).collect();
                for l in books.links.iter_mut().filter(|l| l.si == si) {
                    l.alive = false;
                }
                sim::probe("channel-reused-after-end");
                let (nsi, s) = match c_begin(&mut client, &mut peer, &mut books, ch, initial_id).await {
                    Some(x) => x,
                    None => return,
                };
                while csess.len() <= nsi {
                    csess.push(CSess { handle: None });
                }
                csess[nsi].handle = Some(s);
                for (h, role) in old.into_iter().take(2) {
                    let name = namer.link(nsi, role);
                    let sess = csess[nsi].handle.as_mut().unwrap();
                    if c_attach(sess, &mut peer, &mut books, &logs, nsi, name, h, role).await.is_none() {
                        return;
                    }
                }
            }
            _ => {
                if !quiesce(&mut peer, &net, &mut books).await {
                    return;
                }
            }
        }
    }
    // (quiescence first: a grant restates the delivery-count, which must not lag behind transfers in flight)
    if !quiesce(&mut peer, &net, &mut books).await || !peer_grants(&mut peer, &mut books, true).await || !quiesce(&mut peer, &net, &mut books).await {
        return;
    }
    // a plain send() sends its next message only when the outcome of the previous one is in: one
    // round of disposals per message
    for _ in 0..12 {
        if books.sess.iter().all(|s| !s.alive || s.undisposed.is_empty()) {
            break;
        }
        if !peer_disposes(&mut peer, &mut books, true).await || !quiesce(&mut peer, &net, &mut books).await {
            return;
        }
    }
    mon.borrow_mut().sync();
    if sim::has_violation() {
        return;
    }
    judge(&books, &logs);
    if sim::has_violation() {
        return;
    }
    let td = async {
        let _ = tokio::time::timeout(std::time::Duration::from_secs(20), client.close()).await;
        drop(csess);
    };
    let _ = world::join2(td, peer::serve_teardown(&mut peer, 30_000)).await;
}
