//! C02 — retention: "When the receiver settles second, the receiver keeps the delivery unsettled
//! until the sender's settling disposition arrives … After settlement neither side retains the
//! delivery in its unsettled state."
//!
//! What an endpoint holds in its unsettled state is observable through the public resume path: the
//! application detaches the link without closing it and resumes it, and the attach frame the real
//! endpoint then writes carries its unsettled map (delivery-tag -> state). A scripted peer plays
//! the other end, knows which deliveries are settled, and reads that map off the wire.
//!
//! (r) real client Receiver <- scripted sender: pre-settled and unsettled deliveries of 1-3 frames,
//!     outcomes applied to a seeded subset, in mode second the peer settles a seeded subset of the
//!     reported outcomes; probe; then the peer settles the rest; second probe.
//! (s) real client Sender -> scripted receiver: a seeded subset of the deliveries is settled (mode
//!     first: settled dispositions; mode second: outcome, echo, nothing more owed); probe.

use std::cell::RefCell;
use std::collections::BTreeMap;
use std::rc::Rc;

use fe2o3_amqp::link::receiver::{CreditMode, ResumingReceiver};
use fe2o3_amqp::types::definitions::{ReceiverSettleMode, SenderSettleMode};
use fe2o3_amqp::types::messaging::{Body, Outcome};
use fe2o3_amqp::types::primitives::Value;
use fe2o3_amqp::{Delivery, Receiver, Sendable, Sender, Session};

use crate::chooser::{choice, pick};
use crate::msgs;
use crate::peer::{self, AttachArgs, Peer, PeerSession, TransferArgs};
use crate::refcodec::{hex, V};
use crate::scen::c02::Out;
use crate::sim;
use crate::wire::{self, Models, WFrame};
use crate::world::{self, EndpointCfg, Slot};

fn out_code(o: &Out) -> u64 {
    match o {
        Out::Accept => 0x24,
        Out::Reject(_) => 0x25,
        Out::Release => 0x26,
        Out::Modify(..) => 0x27,
    }
}

/// The unsettled map of an attach frame as (tag, state) pairs; `None` if the field is malformed
fn unsettled_of(attach: &V) -> Option<Vec<(Vec<u8>, V)>> {
    match attach.field(7) {
        V::Null => Some(Vec::new()),
        V::Map(m) => {
            let mut out = Vec::new();
            for (k, v) in m {
                out.push((k.as_bin()?.to_vec(), v.clone()));
            }
            Some(out)
        }
        _ => None,
    }
}

async fn begin_client(client: &mut fe2o3_amqp::connection::ConnectionHandle<()>, peer: &mut Peer, ps: &mut PeerSession) -> Option<fe2o3_amqp::session::SessionHandle<()>> {
    let begin_fut = sim::in_group(1, Session::builder().begin(client));
    let peer_begin = async {
        let b = peer.expect(wire::BEGIN).await?;
        ps.on_remote_begin(b.perf.as_ref().unwrap(), b.channel);
        peer.send(ps.channel, &peer::begin(Some(b.channel), ps.next_outgoing_id, ps.incoming_window, ps.outgoing_window)).await;
        Some(())
    };
    match sim::op("begin", world::join2(begin_fut, peer_begin)).await {
        Some((Ok(s), Some(()))) => Some(s),
        Some((r, _)) => {
            sim::violation("begin-failed", format!("{:?}", r.map(|_| ())));
            None
        }
        None => None,
    }
}

/// Wait (virtual time) until the peer has read a frame with this performative code; other frames
/// are handed to `other`
async fn expect_code(peer: &mut Peer, code: u64, mut other: impl FnMut(&WFrame)) -> Option<WFrame> {
    let deadline = tokio::time::Instant::now() + sim::OP_DEADLINE;
    loop {
        if tokio::time::Instant::now() >= deadline || peer.eof || sim::has_violation() {
            return None;
        }
        for f in peer.drain_for(5).await {
            if f.code == code {
                return Some(f);
            }
            other(&f);
        }
    }
}

// ---------------------------------------------------------------------------------------
// (r) real receiver

#[derive(Clone, Debug, PartialEq)]
enum Act {
    Dispose(Out),
    Hold,
}

struct PlanR {
    tag: Vec<u8>,
    presettled: bool,
    frames: usize,
    act: Act,
}

enum Cmd {
    DetachResume,
    RecvOne,
    Finish,
}

fn spawn_receiver_app(mut r: Receiver, acts: Vec<Act>, cmds: Slot<Cmd>, done: Slot<Result<(), String>>, strategy: u32) {
    sim::spawn("app-receiver", async move {
        let mut held: Vec<Delivery<Body<Value>>> = Vec::new();
        let mut batch: Vec<(Delivery<Body<Value>>, Out)> = Vec::new();
        for (k, act) in acts.iter().enumerate() {
            let d = match sim::op(&format!("recv #{}", k), r.recv::<Body<Value>>()).await {
                Some(Ok(d)) => d,
                Some(Err(e)) => {
                    done.put(Err(format!("recv #{} failed: {:?}", k, e)));
                    return;
                }
                None => return,
            };
            match act {
                Act::Hold => held.push(d),
                Act::Dispose(o) => batch.push((d, o.clone())),
            }
            let flush = match strategy {
                0 => true,
                1 => batch.len() >= 2,
                _ => false,
            };
            if flush || k + 1 == acts.len() {
                if strategy == 2 {
                    batch.reverse();
                }
                for (d, o) in batch.drain(..) {
                    let res = match &o {
                        Out::Accept => r.accept(&d).await,
                        Out::Release => r.release(&d).await,
                        Out::Reject(desc) => r.reject(&d, fe2o3_amqp::types::definitions::Error::new(fe2o3_amqp::types::definitions::AmqpError::InternalError, Some(desc.clone()), None)).await,
                        Out::Modify(f, u) => {
                            r.modify(&d, fe2o3_amqp::types::messaging::Modified { delivery_failed: Some(*f), undeliverable_here: Some(*u), message_annotations: None })
                                .await
                        }
                    };
                    if let Err(e) = res {
                        done.put(Err(format!("dispose failed: {:?}", e)));
                        return;
                    }
                }
            }
        }
        done.put(Ok(()));
        loop {
            match cmds.take().await {
                Cmd::DetachResume => {
                    let detached = match sim::op("detach before resume", r.detach()).await {
                        Some(Ok(d)) => d,
                        Some(Err((_, e))) => {
                            done.put(Err(format!("detach failed: {:?}", e)));
                            return;
                        }
                        None => return,
                    };
                    r = match sim::op("resume", detached.resume()).await {
                        Some(Ok(ResumingReceiver::Complete(r))) => r,
                        Some(Ok(other)) => {
                            done.put(Err(format!("the peer reported nothing unsettled, yet resume gave {:?}", other)));
                            return;
                        }
                        Some(Err(e)) => {
                            done.put(Err(format!("resume failed: {:?}", e)));
                            return;
                        }
                        None => return,
                    };
                    done.put(Ok(()));
                }
                Cmd::RecvOne => {
                    match sim::op("recv after resume", r.recv::<Body<Value>>()).await {
                        Some(Ok(d)) => {
                            let _ = r.accept(&d).await;
                            done.put(Ok(()));
                        }
                        Some(Err(e)) => {
                            done.put(Err(format!("recv after resume failed: {:?}", e)));
                            return;
                        }
                        None => return,
                    }
                }
                Cmd::Finish => break,
            }
        }
        drop(held);
        let _ = tokio::time::timeout(std::time::Duration::from_secs(30), r.close()).await;
        done.put(Ok(()));
        std::future::pending::<()>().await;
    });
}

struct RState {
    /// delivery-id -> (terminal?, settled?, state descriptor) of the receiver's dispositions
    disp: BTreeMap<u32, (bool, bool, Option<u64>)>,
    flows: usize,
}

fn absorb_r(st: &mut RState, f: &WFrame) {
    let p = match &f.perf {
        Some(p) => p,
        None => return,
    };
    match f.code {
        wire::DISPOSITION => {
            let first = p.field(1).as_u32().unwrap_or(0);
            let last = p.field(2).as_u32().unwrap_or(first);
            let settled = p.field(3).as_bool().unwrap_or(false);
            let code = p.field(4).descriptor_code();
            let terminal = matches!(code, Some(0x24..=0x27));
            let n = last.wrapping_sub(first).min(1000);
            for k in 0..=n {
                st.disp.insert(first.wrapping_add(k), (terminal, settled, code));
            }
        }
        wire::FLOW => st.flows += 1,
        _ => {}
    }
}

async fn quiesce_r(peer: &mut Peer, net: &crate::net::NetHandle, st: &mut RState) -> bool {
    let mut frames = Vec::new();
    let ok = peer::settle(peer, net, |f| frames.push(f.clone())).await;
    for f in &frames {
        absorb_r(st, f);
    }
    if !ok && !(peer.eof || peer.read_error.is_some()) {
        sim::violation("no-quiescence", "the endpoint kept producing traffic for the whole virtual deadline".into());
    }
    ok
}

/// One detach / resume round: returns the unsettled map of the resuming attach
async fn probe_receiver(peer: &mut Peer, net: &crate::net::NetHandle, ps: &mut PeerSession, st: &mut RState, name: &str, peer_handle: u32, delivery_count: u32, rcv_second: bool, cmds: &Slot<Cmd>, done: &Slot<Result<(), String>>) -> Option<Vec<(Vec<u8>, V)>> {
    cmds.put(Cmd::DetachResume);
    let mut others: Vec<WFrame> = Vec::new();
    let d = expect_code(peer, wire::DETACH, |f| others.push(f.clone())).await;
    let d = match d {
        Some(d) => d,
        None => {
            if !sim::has_violation() {
                sim::violation("detach-missing", "the application detached its receiver; no detach frame was written".into());
            }
            return None;
        }
    };
    if d.perf.as_ref().unwrap().field(1).as_bool() == Some(true) {
        sim::violation("detach-closed", "detach() wrote a closing detach".into());
        return None;
    }
    peer.send(ps.channel, &peer::detach(peer_handle, false, None)).await;
    sim::fault("link-detached-by-the-application");
    let a = expect_code(peer, wire::ATTACH, |f| others.push(f.clone())).await;
    for f in &others {
        absorb_r(st, f);
    }
    let a = match a {
        Some(a) => a,
        None => {
            if !sim::has_violation() {
                sim::violation("resume-attach-missing", "the application resumed its receiver; no attach frame was written".into());
            }
            return None;
        }
    };
    let ap = a.perf.as_ref().unwrap();
    let map = match unsettled_of(ap) {
        Some(m) => m,
        None => {
            sim::violation("unsettled-map-malformed", format!("the resuming attach carries {:?} as its unsettled map", ap.field(7)));
            return None;
        }
    };
    // the peer reports nothing unsettled of its own and carries on from its current delivery-count
    let mut args = AttachArgs::sender(name, peer_handle);
    args.snd_settle_mode = Some(2);
    args.rcv_settle_mode = Some(if rcv_second { 1 } else { 0 });
    args.initial_delivery_count = Some(delivery_count);
    peer.send(ps.channel, &peer::attach(&args)).await;
    match sim::op("application resumes", done.take()).await {
        Some(Ok(())) => {}
        Some(Err(e)) => {
            sim::violation("resume-failed", e);
            return None;
        }
        None => return None,
    }
    if !quiesce_r(peer, net, st).await {
        return None;
    }
    sim::probe("receiver-unsettled-map-read");
    Some(map)
}

pub async fn run_receiver() {
    let ccfg = EndpointCfg::default_cfg();
    let (nab, nba, nd) = world::draw_net(true);
    let rcv_second = choice(3) != 0;
    let n = 1 + choice(6) as usize;
    let strategy = choice(3);
    let mut plans: Vec<PlanR> = Vec::new();
    for i in 0..n {
        let presettled = choice(4) == 0;
        let act = if choice(4) == 0 { Act::Hold } else { Act::Dispose(Out::draw(9000 + i as u64)) };
        plans.push(PlanR { tag: format!("t{}-{}", i, choice(1000)).into_bytes(), presettled, frames: 1 + choice(3) as usize, act });
    }
    let initial_dc = pick(&[0u32, 7, u32::MAX - 1]);
    sim::set_config(format!(
        "variant=retention-receiver rcv-second={} deliveries={:?} strategy={} initial-dc={} {}",
        rcv_second,
        plans.iter().map(|p| format!("{}{}x{}:{}", if p.presettled { "S" } else { "u" }, hex(&p.tag), p.frames, match &p.act { Act::Hold => "hold".to_string(), Act::Dispose(o) => format!("{:x}", out_code(o)) })).collect::<Vec<_>>(),
        strategy,
        initial_dc,
        nd
    ));
    sim::mark_nontrivial();
    let cvp = match peer::client_vs_peer(&ccfg, peer::open("peer", Some(65536), Some(255), None), nab, nba, Models::none()).await {
        Some(x) => x,
        None => return,
    };
    let peer::ClientVsPeer { mut client, mut peer, net, .. } = cvp;
    let mut ps = PeerSession::new(0, pick(&[0u32, 100]), 5000, 5000);
    let mut session = match begin_client(&mut client, &mut peer, &mut ps).await {
        Some(s) => s,
        None => return,
    };
    let name = "ret-r";
    let peer_handle = pick(&[0u32, 6]);
    let att = sim::in_group(
        1,
        Receiver::builder()
            .name(name)
            .source("q")
            .receiver_settle_mode(if rcv_second { ReceiverSettleMode::Second } else { ReceiverSettleMode::First })
            .credit_mode(CreditMode::Auto(50))
            .attach(&mut session),
    );
    let peer_att = async {
        let _a = peer.expect(wire::ATTACH).await?;
        let mut args = AttachArgs::sender(name, peer_handle);
        args.snd_settle_mode = Some(2);
        args.rcv_settle_mode = Some(if rcv_second { 1 } else { 0 });
        args.initial_delivery_count = Some(initial_dc);
        peer.send(ps.channel, &peer::attach(&args)).await;
        Some(())
    };
    let receiver = match sim::op("attach receiver", world::join2(att, peer_att)).await {
        Some((Ok(r), Some(()))) => r,
        Some((r, _)) => {
            sim::violation("attach-failed", format!("{:?}", r.map(|_| ())));
            return;
        }
        None => return,
    };
    let cmds: Slot<Cmd> = Slot::new();
    let done: Slot<Result<(), String>> = Slot::new();
    spawn_receiver_app(receiver, plans.iter().map(|p| p.act.clone()).collect(), cmds.clone(), done.clone(), strategy);
    let mut st = RState { disp: BTreeMap::new(), flows: 0 };
    if !quiesce_r(&mut peer, &net, &mut st).await {
        return;
    }
    // the deliveries
    let mut ids: Vec<u32> = Vec::new();
    let mut uid = 91_000u64;
    let mut dc = initial_dc;
    for p in &plans {
        uid += 1;
        let payload = msgs::encode(&msgs::gen_message(uid, 200, 2));
        let id = ps.next_delivery_id;
        ps.next_delivery_id = ps.next_delivery_id.wrapping_add(1);
        ids.push(id);
        let k = p.frames.min(payload.len().max(1));
        let step = (payload.len() + k - 1) / k.max(1);
        let pieces: Vec<&[u8]> = if payload.is_empty() { vec![&payload[..]] } else { payload.chunks(step.max(1)).collect() };
        for (i, piece) in pieces.iter().enumerate() {
            let last = i + 1 == pieces.len();
            let t = TransferArgs {
                handle: peer_handle,
                delivery_id: if i == 0 || choice(2) == 1 { Some(id) } else { None },
                delivery_tag: if i == 0 || choice(2) == 1 { Some(p.tag.clone()) } else { None },
                message_format: Some(0),
                // settled may only show on the last frame
                settled: if p.presettled && (last || choice(2) == 1) { Some(true) } else if last { Some(false) } else { None },
                more: Some(!last),
                ..Default::default()
            };
            peer.send_with_payload(ps.channel, &peer::transfer(&t), piece).await;
            ps.on_transfer_sent();
        }
        dc = dc.wrapping_add(1);
        if pieces.len() > 1 {
            sim::probe("multi-frame-delivery");
        }
    }
    match sim::op("receiver application", done.take()).await {
        Some(Ok(())) => {}
        Some(Err(e)) => {
            sim::violation("receiver-error", e);
            return;
        }
        None => return,
    }
    if !quiesce_r(&mut peer, &net, &mut st).await {
        return;
    }
    // what the receiver reported, and what the scripted sender settles now
    let mut settled_now: Vec<usize> = Vec::new();
    let mut reported_unsettled: Vec<usize> = Vec::new();
    for (i, p) in plans.iter().enumerate() {
        if p.presettled {
            continue;
        }
        if let Act::Dispose(_) = &p.act {
            match st.disp.get(&ids[i]) {
                Some((true, false, _)) => reported_unsettled.push(i),
                Some((true, true, _)) => {}
                other => {
                    sim::violation("disposition-missing", format!("the application disposed of delivery {} (tag {}); on the wire: {:?}", ids[i], hex(&p.tag), other));
                    return;
                }
            }
        }
    }
    if !rcv_second && !reported_unsettled.is_empty() {
        sim::violation("unsettled-disposition-in-mode-first", format!("receiver settles first, yet it reported outcomes without settling for {:?}", reported_unsettled.iter().map(|i| ids[*i]).collect::<Vec<_>>()));
        return;
    }
    for i in &reported_unsettled {
        if choice(2) == 1 {
            settled_now.push(*i);
        }
    }
    for i in &settled_now {
        let code = st.disp[&ids[*i]].2.unwrap();
        peer.send(ps.channel, &peer::disposition(false, ids[*i], None, true, Some(crate::refcodec::described(code, vec![])))).await;
    }
    if !quiesce_r(&mut peer, &net, &mut st).await {
        return;
    }
    let still_owed: Vec<usize> = reported_unsettled.iter().copied().filter(|i| !settled_now.contains(i)).collect();
    // first probe
    let map = match probe_receiver(&mut peer, &net, &mut ps, &mut st, name, peer_handle, dc, rcv_second, &cmds, &done).await {
        Some(m) => m,
        None => return,
    };
    if !judge_receiver_map(&map, &plans, &ids, &st, &settled_now, &still_owed, rcv_second, "first") {
        return;
    }
    // the sender settles the rest; nothing may be left but what the application still holds
    if !still_owed.is_empty() {
        for i in &still_owed {
            let code = st.disp[&ids[*i]].2.unwrap();
            peer.send(ps.channel, &peer::disposition(false, ids[*i], None, true, Some(crate::refcodec::described(code, vec![])))).await;
        }
        if !quiesce_r(&mut peer, &net, &mut st).await {
            return;
        }
        let all: Vec<usize> = reported_unsettled.clone();
        let map = match probe_receiver(&mut peer, &net, &mut ps, &mut st, name, peer_handle, dc, rcv_second, &cmds, &done).await {
            Some(m) => m,
            None => return,
        };
        if !judge_receiver_map(&map, &plans, &ids, &st, &all, &[], rcv_second, "second") {
            return;
        }
        sim::probe("second-probe-after-late-settlement");
    }
    // the resumed link works
    {
        uid += 1;
        let payload = msgs::encode(&msgs::gen_message(uid, 100, 1));
        let id = ps.next_delivery_id;
        ps.next_delivery_id = ps.next_delivery_id.wrapping_add(1);
        let t = TransferArgs { handle: peer_handle, delivery_id: Some(id), delivery_tag: Some(b"after-resume".to_vec()), message_format: Some(0), settled: Some(false), more: Some(false), ..Default::default() };
        peer.send_with_payload(ps.channel, &peer::transfer(&t), &payload).await;
        ps.on_transfer_sent();
        cmds.put(Cmd::RecvOne);
        match sim::op("delivery on the resumed link", done.take()).await {
            Some(Ok(())) => {}
            Some(Err(e)) => {
                sim::violation("resumed-link-broken", e);
                return;
            }
            None => return,
        }
    }
    cmds.put(Cmd::Finish);
    let td = async {
        let _ = tokio::time::timeout(std::time::Duration::from_secs(60), done.take()).await;
        let _ = tokio::time::timeout(std::time::Duration::from_secs(20), session.end()).await;
        let _ = tokio::time::timeout(std::time::Duration::from_secs(20), client.close()).await;
    };
    let _ = world::join2(td, peer::serve_teardown(&mut peer, 30_000)).await;
}

#[allow(clippy::too_many_arguments)]
fn judge_receiver_map(map: &[(Vec<u8>, V)], plans: &[PlanR], ids: &[u32], st: &RState, settled_by_sender: &[usize], owed: &[usize], rcv_second: bool, which: &str) -> bool {
    let find = |tag: &[u8]| map.iter().find(|(t, _)| t == tag);
    let show: Vec<String> = map.iter().map(|(t, s)| format!("{}={:?}", hex(t), s)).collect();
    for (i, p) in plans.iter().enumerate() {
        let present = find(&p.tag);
        if p.presettled {
            if present.is_some() {
                sim::violation(
                    "settled-delivery-retained",
                    format!("{} probe: delivery {} (tag {}) was sent settled, yet the receiver's resuming attach lists it as unsettled: {:?}", which, ids[i], hex(&p.tag), show),
                );
                return false;
            }
            continue;
        }
        let disposed = matches!(p.act, Act::Dispose(_));
        let settled = disposed && (!rcv_second || settled_by_sender.contains(&i) || matches!(st.disp.get(&ids[i]), Some((_, true, _))));
        if settled {
            if present.is_some() {
                sim::violation(
                    "settled-delivery-retained",
                    format!(
                        "{} probe: delivery {} (tag {}) is settled ({}), yet the receiver's resuming attach still lists it as unsettled: {:?}",
                        which,
                        ids[i],
                        hex(&p.tag),
                        if rcv_second { "the sender's settling disposition was delivered" } else { "the receiver settled it with its disposition" },
                        show
                    ),
                );
                return false;
            }
            sim::probe("settled-delivery-absent-from-unsettled-map");
        } else if owed.contains(&i) {
            // mode second, outcome reported, sender has not settled yet
            match present {
                None => {
                    sim::violation(
                        "unsettled-delivery-forgotten",
                        format!(
                            "{} probe: receiver settles second and reported an outcome for delivery {} (tag {}); the sender has not settled it, yet the receiver's resuming attach does not list it: {:?}",
                            which,
                            ids[i],
                            hex(&p.tag),
                            show
                        ),
                    );
                    return false;
                }
                Some((_, s)) => {
                    let want = match &p.act {
                        Act::Dispose(o) => out_code(o),
                        Act::Hold => 0,
                    };
                    if s.descriptor_code() != Some(want) {
                        sim::violation(
                            "unsettled-delivery-wrong-state",
                            format!("{} probe: delivery {} (tag {}) was given outcome {:#x} by the application; the resuming attach lists it with state {:?}", which, ids[i], hex(&p.tag), want, s),
                        );
                        return false;
                    }
                    sim::probe("outcome-kept-until-sender-settles");
                }
            }
        } else if !disposed && present.is_some() {
            sim::probe("held-delivery-listed");
        }
    }
    true
}

// ---------------------------------------------------------------------------------------
// (s) real sender

pub async fn run_sender() {
    let ccfg = EndpointCfg::default_cfg();
    let (nab, nba, nd) = world::draw_net(true);
    let rcv_second = choice(2) == 1;
    let mixed = choice(2) == 1;
    let n = 1 + choice(6) as usize;
    // per message: pre-settled (mixed only), settled by the peer before the probe
    let plan: Vec<(bool, bool, Out)> = (0..n).map(|i| (mixed && choice(3) == 0, choice(4) != 0, Out::draw(9500 + i as u64))).collect();
    let mms = pick(&[None, None, Some(120u64)]);
    let report_in_attach = choice(2) == 1;
    sim::set_config(format!("variant=retention-sender rcv-second={} mixed={} report-outcomes-in-resuming-attach={} plan={:?} max-message-size={:?} {}", rcv_second, mixed, report_in_attach, plan.iter().map(|(p, s, o)| format!("{}{}{:x}", if *p { "S" } else { "u" }, if *s { "+" } else { "-" }, out_code(o))).collect::<Vec<_>>(), mms, nd));
    sim::mark_nontrivial();
    let cvp = match peer::client_vs_peer(&ccfg, peer::open("peer", Some(65536), Some(255), None), nab, nba, Models::none()).await {
        Some(x) => x,
        None => return,
    };
    let peer::ClientVsPeer { mut client, mut peer, net, .. } = cvp;
    let mut ps = PeerSession::new(0, 10, 5000, 5000);
    let mut session = match begin_client(&mut client, &mut peer, &mut ps).await {
        Some(s) => s,
        None => return,
    };
    let name = "ret-s";
    let peer_handle = pick(&[0u32, 4]);
    let att = sim::in_group(
        1,
        Sender::builder()
            .name(name)
            .target("q")
            .sender_settle_mode(if mixed { SenderSettleMode::Mixed } else { SenderSettleMode::Unsettled })
            .receiver_settle_mode(if rcv_second { ReceiverSettleMode::Second } else { ReceiverSettleMode::First })
            .attach(&mut session),
    );
    let mut ep_handle = 0u32;
    let peer_att = async {
        let a = peer.expect(wire::ATTACH).await?;
        ep_handle = a.perf.as_ref().unwrap().field(1).as_u32().unwrap_or(0);
        let mut args = AttachArgs::receiver(name, peer_handle);
        args.rcv_settle_mode = Some(if rcv_second { 1 } else { 0 });
        args.snd_settle_mode = Some(if mixed { 2 } else { 0 });
        args.max_message_size = mms;
        peer.send(ps.channel, &peer::attach(&args)).await;
        let mut f = ps.flow_args();
        f.handle = Some(peer_handle);
        f.delivery_count = Some(0);
        f.link_credit = Some(1000);
        peer.send(ps.channel, &peer::flow(&f)).await;
        Some(())
    };
    let sender = match sim::op("attach sender", world::join2(att, peer_att)).await {
        Some((Ok(s), Some(()))) => s,
        Some((r, _)) => {
            sim::violation("attach-failed", format!("{:?}", r.map(|_| ())));
            return;
        }
        None => return,
    };
    let _ = ep_handle;
    let cmds: Slot<u32> = Slot::new();
    let done: Slot<Result<(), String>> = Slot::new();
    let results: Rc<RefCell<BTreeMap<usize, Result<Outcome, String>>>> = Rc::new(RefCell::new(BTreeMap::new()));
    let late: Rc<RefCell<BTreeMap<usize, Result<Outcome, String>>>> = Rc::new(RefCell::new(BTreeMap::new()));
    let late_done: Slot<()> = Slot::new();
    {
        let late = late.clone();
        let late_done = late_done.clone();
        let cmds = cmds.clone();
        let done = done.clone();
        let plan = plan.clone();
        let results = results.clone();
        sim::spawn("app-sender", async move {
            let mut s = sender;
            let mut futs = Vec::new();
            for (i, (pre, _, _)) in plan.iter().enumerate() {
                let m = msgs::gen_message(92_000 + i as u64, 300, 2);
                let sendable = Sendable::builder().message(m).settled(if *pre { Some(true) } else { None }).build();
                match sim::op(&format!("send_batchable #{}", i), s.send_batchable(sendable)).await {
                    Some(Ok(f)) => futs.push((i, f)),
                    Some(Err(e)) => {
                        done.put(Err(format!("send_batchable #{} failed: {:?}", i, e)));
                        return;
                    }
                    None => return,
                }
            }
            done.put(Ok(()));
            // 1: await the outcomes of the deliveries the peer has settled
            let _ = cmds.take().await;
            let mut rest = Vec::new();
            for (i, f) in futs {
                if plan[i].0 || plan[i].1 {
                    match sim::op(&format!("outcome #{}", i), f).await {
                        Some(r) => {
                            results.borrow_mut().insert(i, r.map_err(|e| format!("{:?}", e)));
                        }
                        None => return,
                    }
                } else {
                    rest.push((i, f));
                }
            }
            done.put(Ok(()));
            // 2: detach and resume
            let _ = cmds.take().await;
            let detached = match sim::op("detach before resume", s.detach()).await {
                Some(Ok(d)) => d,
                Some(Err((_, e))) => {
                    done.put(Err(format!("detach failed: {:?}", e)));
                    return;
                }
                None => return,
            };
            // the outcomes still outstanding are awaited by a task of their own: the peer may
            // report them in the unsettled map of the attach that answers the resumption
            {
                let late = late.clone();
                let late_done = late_done.clone();
                let rest = std::mem::take(&mut rest);
                sim::spawn("app-late-outcomes", async move {
                    for (i, f) in rest {
                        let r = f.await;
                        late.borrow_mut().insert(i, r.map_err(|e| format!("{:?}", e)));
                    }
                    late_done.put(());
                });
            }
            let resumed = sim::op("resume", detached.resume()).await;
            match resumed {
                Some(Ok(mut s)) => {
                    done.put(Ok(()));
                    // 3: one more send on the resumed link
                    if cmds.take().await == 3 {
                        let m = msgs::gen_message(92_900, 100, 1);
                        match sim::op("send on the resumed link", s.send(m)).await {
                            Some(Ok(Outcome::Accepted(_))) => done.put(Ok(())),
                            Some(other) => done.put(Err(format!("send on the resumed link: {:?}", other.map_err(|e| format!("{:?}", e))))),
                            None => return,
                        }
                    }
                    let _ = cmds.take().await;
                    let _ = tokio::time::timeout(std::time::Duration::from_secs(30), s.close()).await;
                }
                Some(Err(e)) => done.put(Err(format!("{:?}", e.kind))),
                None => return,
            }
            drop(rest);
            std::future::pending::<()>().await;
        });
    }
    // collect the deliveries
    let mut got: Vec<(u32, Vec<u8>, bool)> = Vec::new(); // (delivery-id, tag, settled by sender)
    let mut open: Option<(u32, Vec<u8>, bool)> = None;
    let deadline = tokio::time::Instant::now() + sim::OP_DEADLINE;
    let mut echoes: Vec<u32> = Vec::new();
    let mut on_frame = |f: &WFrame, got: &mut Vec<(u32, Vec<u8>, bool)>, open: &mut Option<(u32, Vec<u8>, bool)>, echoes: &mut Vec<u32>, ps: &mut PeerSession| {
        let p = match &f.perf {
            Some(p) => p,
            None => return,
        };
        if f.code == wire::TRANSFER {
            ps.on_transfer_received();
            let (id, tag, mut settled) = open.take().unwrap_or((p.field(1).as_u32().unwrap_or(0), p.field(2).as_bin().map(|b| b.to_vec()).unwrap_or_default(), false));
            settled = settled || p.field(4).as_bool().unwrap_or(false);
            if p.field(5).as_bool().unwrap_or(false) {
                *open = Some((id, tag, settled));
            } else {
                got.push((id, tag, settled));
            }
        } else if f.code == wire::DISPOSITION && p.field(0).as_bool() == Some(false) && p.field(3).as_bool() == Some(true) {
            let first = p.field(1).as_u32().unwrap_or(0);
            let last = p.field(2).as_u32().unwrap_or(first);
            for k in 0..=last.wrapping_sub(first).min(1000) {
                echoes.push(first.wrapping_add(k));
            }
        }
    };
    match sim::op("sends queued", done.take()).await {
        Some(Ok(())) => {}
        Some(Err(e)) => {
            sim::violation("send-failed", e);
            return;
        }
        None => return,
    }
    while got.len() < n {
        if tokio::time::Instant::now() >= deadline || peer.eof || sim::has_violation() {
            sim::violation("deliveries-missing", format!("{} of {} deliveries reached the scripted receiver", got.len(), n));
            return;
        }
        for f in peer.drain_for(5).await {
            on_frame(&f, &mut got, &mut open, &mut echoes, &mut ps);
        }
    }
    // with link-level splitting (max-message-size) every delivery is still one delivery
    if got.len() != n {
        sim::violation("delivery-count", format!("{} sends, {} deliveries", n, got.len()));
        return;
    }
    // the peer's dispositions for the subset it settles
    for (i, (pre, settle, out)) in plan.iter().enumerate() {
        if *pre {
            continue;
        }
        let (id, _, _) = got[i];
        if !*settle {
            // a delivery that stays outstanding may have a non-terminal state at the sender
            // (delivery-tag 8 of the resumption table when the outcome is reported in the attach)
            if report_in_attach && choice(3) == 0 {
                peer.send(ps.channel, &peer::disposition(true, id, None, false, Some(peer::received_state(0, 0)))).await;
                sim::probe("outstanding-delivery-with-non-terminal-state");
            }
            continue;
        }
        peer.send(ps.channel, &peer::disposition(true, id, None, !rcv_second, Some(out.to_v()))).await;
    }
    {
        let mut frames = Vec::new();
        if !peer::settle(&mut peer, &net, |f| frames.push(f.clone())).await {
            return;
        }
        for f in &frames {
            on_frame(f, &mut got, &mut open, &mut echoes, &mut ps);
        }
    }
    cmds.put(1);
    match sim::op("outcomes of the settled deliveries", done.take()).await {
        Some(Ok(())) => {}
        Some(Err(e)) => {
            sim::violation("outcome-failed", e);
            return;
        }
        None => return,
    }
    for (i, (pre, settle, out)) in plan.iter().enumerate() {
        if !(*pre || *settle) {
            continue;
        }
        let want = if *pre { Out::Accept } else { out.clone() };
        match results.borrow().get(&i) {
            Some(Ok(o)) if want.matches(o) => {}
            other => {
                sim::violation("wrong-outcome", format!("send #{} resolved with {:?}; the receiver applied {:?}{}", i, other, out, if *pre { " (pre-settled: expected accepted)" } else { "" }));
                return;
            }
        }
    }
    {
        let mut frames = Vec::new();
        if !peer::settle(&mut peer, &net, |f| frames.push(f.clone())).await {
            return;
        }
        for f in &frames {
            on_frame(f, &mut got, &mut open, &mut echoes, &mut ps);
        }
    }
    if rcv_second {
        for (i, (pre, settle, _)) in plan.iter().enumerate() {
            if !*pre && *settle && !echoes.contains(&got[i].0) {
                sim::violation("settling-echo-missing", format!("receiver settles second and reported an outcome for delivery {}; the sender's settling dispositions cover {:?}", got[i].0, echoes));
                return;
            }
        }
    }
    // probe
    cmds.put(2);
    let mut others = Vec::new();
    let d = match expect_code(&mut peer, wire::DETACH, |f| others.push(f.clone())).await {
        Some(d) => d,
        None => {
            if !sim::has_violation() {
                sim::violation("detach-missing", "the application detached its sender; no detach frame was written".into());
            }
            return;
        }
    };
    if d.perf.as_ref().unwrap().field(1).as_bool() == Some(true) {
        sim::violation("detach-closed", "detach() wrote a closing detach".into());
        return;
    }
    peer.send(ps.channel, &peer::detach(peer_handle, false, None)).await;
    sim::fault("link-detached-by-the-application");
    let a = match expect_code(&mut peer, wire::ATTACH, |f| others.push(f.clone())).await {
        Some(a) => a,
        None => {
            if !sim::has_violation() {
                sim::violation("resume-attach-missing", "the application resumed its sender; no attach frame was written".into());
            }
            return;
        }
    };
    let ap = a.perf.as_ref().unwrap();
    let map = match unsettled_of(ap) {
        Some(m) => m,
        None => {
            sim::violation("unsettled-map-malformed", format!("the resuming attach carries {:?} as its unsettled map", ap.field(7)));
            return;
        }
    };
    sim::probe("sender-unsettled-map-read");
    let show: Vec<String> = map.iter().map(|(t, s)| format!("{}={:?}", hex(t), s)).collect();
    let mut outstanding = 0;
    for (i, (pre, settle, _)) in plan.iter().enumerate() {
        let (id, tag, _) = &got[i];
        let present = map.iter().any(|(t, _)| t == tag);
        if *pre || *settle {
            if present {
                sim::violation(
                    "settled-delivery-retained",
                    format!(
                        "delivery {} (tag {}) is settled ({}), yet the sender's resuming attach still lists it as unsettled: {:?}",
                        id,
                        hex(tag),
                        if *pre { "sent settled" } else if rcv_second { "outcome reported by the receiver and settled by the sender's own disposition" } else { "settled by the receiver's disposition" },
                        show
                    ),
                );
                return;
            }
            sim::probe("settled-delivery-absent-from-unsettled-map");
        } else {
            outstanding += 1;
            if present {
                sim::probe("outstanding-delivery-listed");
            }
        }
    }
    if outstanding == 0 {
        // nothing is unsettled on either side: the resumed link must work like a fresh one
        let mut args = AttachArgs::receiver(name, peer_handle);
        args.rcv_settle_mode = Some(if rcv_second { 1 } else { 0 });
        args.snd_settle_mode = Some(if mixed { 2 } else { 0 });
        peer.send(ps.channel, &peer::attach(&args)).await;
        let mut f = ps.flow_args();
        f.handle = Some(peer_handle);
        f.delivery_count = ap.field(9).as_u32().or(Some(n as u32));
        f.link_credit = Some(10);
        peer.send(ps.channel, &peer::flow(&f)).await;
        match sim::op("application resumes", done.take()).await {
            Some(Ok(())) => {}
            Some(Err(e)) => {
                sim::violation("resume-failed", e);
                return;
            }
            None => return,
        }
        cmds.put(3);
        let t = match expect_code(&mut peer, wire::TRANSFER, |_| {}).await {
            Some(t) => t,
            None => {
                if !sim::has_violation() {
                    sim::violation("resumed-link-broken", "a send on the resumed link put no transfer on the wire".into());
                }
                return;
            }
        };
        ps.on_transfer_received();
        let id = t.perf.as_ref().unwrap().field(1).as_u32().unwrap_or(0);
        peer.send(ps.channel, &peer::disposition(true, id, None, true, Some(peer::accepted()))).await;
        match sim::op("send on the resumed link", done.take()).await {
            Some(Ok(())) => sim::probe("resumed-link-works"),
            Some(Err(e)) => {
                sim::violation("resumed-link-broken", e);
                return;
            }
            None => return,
        }
        cmds.put(4);
    } else if report_in_attach {
        // deliveries are outstanding and the receiving side has applied an outcome to each of them:
        // it says so in the unsettled map of its attach (delivery-tag 3 of the resumption table).
        // Every one of those sends resolves with that outcome; nothing needs to be sent again.
        let mut args = AttachArgs::receiver(name, peer_handle);
        args.rcv_settle_mode = Some(if rcv_second { 1 } else { 0 });
        args.snd_settle_mode = Some(if mixed { 2 } else { 0 });
        let mut m = Vec::new();
        for (i, (pre, settle, out)) in plan.iter().enumerate() {
            if !*pre && !*settle {
                m.push((V::Bin(got[i].1.clone()), out.to_v()));
            }
        }
        args.unsettled = V::Map(m);
        peer.send(ps.channel, &peer::attach(&args)).await;
        sim::fault("outcomes-reported-in-the-resuming-attach");
        // the two sides then suspend and attach again until nothing is unsettled: answered in kind
        let mut serve = Box::pin(serve_outcomes(&mut peer, &ps, name, peer_handle, rcv_second, mixed));
        let mut ld = Box::pin(late_done.take());
        let finished = std::future::poll_fn(|cx| {
            use std::future::Future;
            if ld.as_mut().poll(cx).is_ready() {
                return std::task::Poll::Ready(true);
            }
            if serve.as_mut().poll(cx).is_ready() {
                return std::task::Poll::Ready(false);
            }
            std::task::Poll::Pending
        })
        .await;
        drop(serve);
        if !finished {
            sim::violation(
                "outcome-reported-on-resumption-never-resolved",
                format!("the receiver listed its outcomes for the outstanding deliveries in the attach that answered the resumption; after 120 virtual seconds the sends have resolved as {:?}", late.borrow()),
            );
            return;
        }
        for (i, (pre, settle, out)) in plan.iter().enumerate() {
            if *pre || *settle {
                continue;
            }
            match late.borrow().get(&i) {
                Some(Ok(o)) if out.matches(o) => sim::probe("outcome-learnt-on-resumption"),
                other => {
                    sim::violation(
                        "wrong-outcome",
                        format!("send #{} was outstanding when the link was resumed; the receiver's attach lists its delivery with {:?}; the send resolved with {:?}", i, out, other),
                    );
                    return;
                }
            }
        }
        peer.send(0, &peer::close(Some(peer::error("amqp:not-implemented", Some("that will do"))))).await;
        let _ = sim::op("application resumes (connection closed by the peer)", done.take()).await;
    } else {
        // deliveries are outstanding: what resumption does with them is not C02's business (the
        // crate resends them, detaches and attaches again); the peer ends the conversation here
        peer.send(0, &peer::close(Some(peer::error("amqp:not-implemented", Some("no resumption here"))))).await;
        let _ = sim::op("application resumes (connection closed by the peer)", done.take()).await;
    }
    let td = async {
        let _ = tokio::time::timeout(std::time::Duration::from_secs(20), session.end()).await;
        let _ = tokio::time::timeout(std::time::Duration::from_secs(20), client.close()).await;
    };
    let _ = world::join2(td, peer::serve_teardown(&mut peer, 30_000)).await;
}

/// The receiving side of a resumption that goes through several rounds: every detach is answered
/// in kind, every attach with an attach whose unsettled map is empty; gives up after 120 virtual s
async fn serve_outcomes(peer: &mut Peer, ps: &PeerSession, name: &str, peer_handle: u32, rcv_second: bool, mixed: bool) {
    let deadline = tokio::time::Instant::now() + std::time::Duration::from_secs(120);
    loop {
        let left = deadline.saturating_duration_since(tokio::time::Instant::now());
        if left.is_zero() {
            break;
        }
        match tokio::time::timeout(left, peer.recv()).await {
            Ok(Some(crate::wire::Item::Frame(f))) => match f.code {
                wire::DETACH => {
                    let closed = f.perf.as_ref().unwrap().field(1).as_bool().unwrap_or(false);
                    peer.send(ps.channel, &peer::detach(peer_handle, closed, None)).await;
                }
                wire::ATTACH => {
                    let mut args = AttachArgs::receiver(name, peer_handle);
                    args.rcv_settle_mode = Some(if rcv_second { 1 } else { 0 });
                    args.snd_settle_mode = Some(if mixed { 2 } else { 0 });
                    peer.send(ps.channel, &peer::attach(&args)).await;
                }
                _ => {}
            },
            Ok(Some(_)) => {}
            _ => break,
        }
    }
}
