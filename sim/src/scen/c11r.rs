//! C11 — identifiers across link resumption: a sender link is detached (non-closing) and
//! attached again with `resume()`, `resume_on_session()` or `detach_then_resume_on_session()`,
//! on the same session or on another one of the same connection, while sibling links stay
//! attached on both sessions. Whatever way a link gets attached, it takes a handle that is free
//! in the session whose channel carries the attach, its frames travel on that channel, and what
//! is sent on it arrives at the link of that name on that session and nowhere else.
//!
//! Real client <-> real listener; the wire monitor's session/link models (handle in use,
//! duplicate name, frames for unattached handles, delivery-ids) judge the bytes, the listener
//! application's log judges the routing.

use std::cell::RefCell;
use std::rc::Rc;

use fe2o3_amqp::acceptor::{LinkAcceptor, LinkEndpoint, ListenerSessionHandle};
use fe2o3_amqp::link::receiver::CreditMode;
use fe2o3_amqp::types::messaging::Body;
use fe2o3_amqp::types::primitives::Value;
use fe2o3_amqp::Sender;

use crate::chooser::{choice, pick};
use crate::msgs;
use crate::sim;
use crate::wire::Models;
use crate::world::{self, EndpointCfg};

#[derive(Clone, Copy, Debug, PartialEq)]
enum Way {
    Resume,
    ResumeOnOtherSession,
    DetachThenResumeOnOtherSession,
    DetachThenResumeOnSameSession,
}

type Log = Rc<RefCell<Vec<(usize, String, u64)>>>;

fn listener_session(si: usize, mut sess: ListenerSessionHandle, log: Log) {
    sim::spawn(
        "listener-session",
        sim::in_group(2, async move {
            let acceptor = LinkAcceptor::new();
            loop {
                match acceptor.accept(&mut sess).await {
                    Ok(LinkEndpoint::Receiver(mut r)) => {
                        let log = log.clone();
                        sim::spawn("listener-link", async move {
                            r.set_credit_mode(CreditMode::Auto(50));
                            let name = r.name().to_string();
                            loop {
                                match r.recv::<Body<Value>>().await {
                                    Ok(d) => {
                                        let _ = r.accept(&d).await;
                                        log.borrow_mut().push((si, name.clone(), msgs::uid_of(d.message()).unwrap_or(0)));
                                    }
                                    Err(e) => {
                                        // answer in kind
                                        let es = format!("{:?}", e);
                                        if es.contains("RemoteDetached") {
                                            let _ = r.detach().await;
                                        } else {
                                            let _ = r.close().await;
                                        }
                                        break;
                                    }
                                }
                            }
                        });
                    }
                    Ok(LinkEndpoint::Sender(s)) => {
                        let _ = s.close().await;
                    }
                    Err(e) => {
                        let es = format!("{:?}", e);
                        if es.contains("SessionStopped") || es.contains("IllegalSessionState") {
                            break;
                        }
                    }
                }
            }
            let _ = sess.on_end().await;
        }),
    );
}

pub async fn run() {
    let way = pick(&[Way::Resume, Way::ResumeOnOtherSession, Way::DetachThenResumeOnOtherSession, Way::DetachThenResumeOnSameSession]);
    // siblings attached before the link under test: they decide which handles are free where
    let sibs_a = choice(3) as usize;
    let sibs_b = choice(3) as usize;
    // the link under test is attached before or after the siblings of its own session
    let test_first = choice(2) == 1;
    let ccfg = EndpointCfg::default_cfg();
    let lcfg = EndpointCfg::default_cfg();
    let (nab, nba, nd) = world::draw_net(true);
    sim::set_config(format!("variant=resume way={:?} siblings={}/{} link-under-test-first={} {}", way, sibs_a, sibs_b, test_first, nd));
    sim::mark_nontrivial();
    let models = Models { sess: true, link: true, delivery: true, ..Models::none() };
    let mut pair = match world::open_pair(&ccfg, &lcfg, nab, nba, models).await {
        Some(p) => p,
        None => return,
    };
    let (mut sa, la) = match world::begin_pair(&ccfg, &lcfg, &mut pair).await {
        Some(x) => x,
        None => return,
    };
    let (mut sb, lb) = match world::begin_pair(&ccfg, &lcfg, &mut pair).await {
        Some(x) => x,
        None => return,
    };
    let log: Log = Rc::new(RefCell::new(Vec::new()));
    listener_session(0, la, log.clone());
    listener_session(1, lb, log.clone());

    let mut uid = 70_000u64;
    let mut expect: Vec<(usize, String, u64)> = Vec::new();
    macro_rules! attach {
        ($sess:expr, $name:expr) => {
            match sim::op(&format!("attach {}", $name), sim::in_group(1, Sender::attach($sess, $name, "q"))).await {
                Some(Ok(s)) => s,
                Some(Err(e)) => {
                    sim::violation("attach-failed", format!("attach of {} failed: {:?}", $name, e));
                    return;
                }
                None => return,
            }
        };
    }
    macro_rules! send {
        ($s:expr, $si:expr, $name:expr) => {{
            uid += 1;
            expect.push(($si, $name.to_string(), uid));
            match sim::op(&format!("send on {}", $name), $s.send(msgs::gen_message(uid, 100, 1))).await {
                Some(Ok(_)) => {}
                Some(Err(e)) => {
                    sim::violation("send-failed", format!("send on {} (session {}) failed: {:?}", $name, $si, e));
                    return;
                }
                None => return,
            }
        }};
    }
    let mut test = if test_first { Some(attach!(&mut sa, "under-test")) } else { None };
    let mut siblings_a: Vec<Sender> = Vec::new();
    for k in 0..sibs_a {
        siblings_a.push(attach!(&mut sa, format!("a{}", k)));
    }
    let mut siblings_b: Vec<Sender> = Vec::new();
    for k in 0..sibs_b {
        siblings_b.push(attach!(&mut sb, format!("b{}", k)));
    }
    if test.is_none() {
        test = Some(attach!(&mut sa, "under-test"));
    }
    let mut test = test.unwrap();
    // a sibling that has gone frees a handle below the link under test
    if !siblings_a.is_empty() && choice(2) == 1 {
        let s = siblings_a.remove(0);
        if sim::op("close a sibling", s.close()).await.is_none() {
            return;
        }
    }
    send!(test, 0, "under-test");
    for s in siblings_a.iter_mut() {
        let name = s.name().to_string();
        send!(s, 0, name);
    }
    for s in siblings_b.iter_mut() {
        let name = s.name().to_string();
        send!(s, 1, name);
    }
    // ---- detach and attach again
    let on_other = matches!(way, Way::ResumeOnOtherSession | Way::DetachThenResumeOnOtherSession);
    let mut test = match way {
        Way::Resume | Way::ResumeOnOtherSession => {
            let d = match sim::op("detach the link under test", test.detach()).await {
                Some(Ok(d)) => d,
                Some(Err((_, e))) => {
                    sim::violation("detach-failed", format!("{:?}", e));
                    return;
                }
                None => return,
            };
            let r = if on_other { sim::op("resume_on_session", sim::in_group(1, d.resume_on_session(&sb))).await } else { sim::op("resume", sim::in_group(1, d.resume())).await };
            match r {
                Some(Ok(s)) => s,
                Some(Err(e)) => {
                    sim::violation("resume-failed", format!("{:?} failed: {:?}", way, e));
                    return;
                }
                None => return,
            }
        }
        Way::DetachThenResumeOnOtherSession | Way::DetachThenResumeOnSameSession => {
            let r = if on_other { sim::op("detach_then_resume_on_session", sim::in_group(1, test.detach_then_resume_on_session(&sb))).await } else { sim::op("detach_then_resume_on_session", sim::in_group(1, test.detach_then_resume_on_session(&sa))).await };
            match r {
                Some(Ok(())) => test,
                Some(Err(e)) => {
                    sim::violation("resume-failed", format!("{:?} failed: {:?}", way, e));
                    return;
                }
                None => return,
            }
        }
    };
    sim::probe("link-resumed");
    let si = if on_other { 1 } else { 0 };
    send!(test, si, "under-test");
    send!(test, si, "under-test");
    // the siblings are where they were
    for s in siblings_a.iter_mut() {
        let name = s.name().to_string();
        send!(s, 0, name);
    }
    for s in siblings_b.iter_mut() {
        let name = s.name().to_string();
        send!(s, 1, name);
    }
    // a link attached afterwards must not collide with the resumed one either
    let mut late = attach!(if on_other { &mut sb } else { &mut sa }, "late");
    send!(late, si, "late");
    world::quiesce_pair(&pair.net).await;
    if sim::has_violation() {
        return;
    }
    {
        let got = log.borrow();
        for e in &expect {
            let n = got.iter().filter(|g| g.2 == e.2).count();
            let at = got.iter().find(|g| g.2 == e.2);
            match at {
                None => {
                    sim::violation("message-not-routed", format!("message {} sent on link {} of session {} never reached the peer application (it received {:?})", e.2, e.1, e.0, *got));
                    return;
                }
                Some(g) if g.0 != e.0 || g.1 != e.1 || n != 1 => {
                    sim::violation(
                        "misrouted-message",
                        format!("message {} was sent on link {} of session {}; the peer application received it {} time(s), first on link {} of session {}", e.2, e.1, e.0, n, g.1, g.0),
                    );
                    return;
                }
                Some(_) => {}
            }
        }
        if got.len() != expect.len() {
            sim::violation("unexpected-message", format!("the peer application received {} messages, {} were sent", got.len(), expect.len()));
            return;
        }
    }
    // teardown
    let _ = sim::op("close late", late.close()).await;
    let _ = sim::op("close the link under test", test.close()).await;
    for s in siblings_a {
        let _ = sim::op("close sibling", s.close()).await;
    }
    for s in siblings_b {
        let _ = sim::op("close sibling", s.close()).await;
    }
    let _ = sim::op("end a", sa.end()).await;
    let _ = sim::op("end b", sb.end()).await;
    let _ = sim::op("close", pair.client.close()).await;
}

// ---------------------------------------------------------------------------------------
// "No two sessions of a connection share a channel", seen from the listener: the channel numbers
// are the peer's. A scripted peer begins a session, uses it, and then sends a second begin on the
// same channel without having ended the first. The listener must not give that channel a second
// session (it may refuse the connection); whatever it does, no second begin may answer the
// channel, and what the peer sends for the first session's link must not reach another session.

pub async fn run_duplicate_begin() {
    use crate::peer::{self, AttachArgs, PeerSession, TransferArgs};
    use crate::wire;
    use fe2o3_amqp::acceptor::SessionAcceptor;
    let lcfg = EndpointCfg::default_cfg();
    let (nab, nba, nd) = world::draw_net(true);
    let ch = pick(&[0u16, 0, 3, 200]);
    let with_link = choice(2) == 1;
    sim::set_config(format!("variant=duplicate-begin-vs-listener channel={} link-on-first-session={} {}", ch, with_link, nd));
    sim::mark_nontrivial();
    sim::set_panic_is_violation(true);
    let models = Models { sess: true, ..Models::none() };
    let pvl = match peer::peer_vs_listener(&lcfg, peer::open("peer", Some(65536), Some(255), None), nab, nba, models).await {
        Some(x) => x,
        None => return,
    };
    let peer::ListenerVsPeer { mut listener, mut peer, .. } = pvl;
    let log: Log = Rc::new(RefCell::new(Vec::new()));
    let log2 = log.clone();
    let sessions_accepted = Rc::new(std::cell::Cell::new(0usize));
    let sa2 = sessions_accepted.clone();
    sim::spawn(
        "listener-sessions",
        sim::in_group(2, async move {
            let acc = SessionAcceptor::new();
            let mut si = 0usize;
            while let Ok(sess) = acc.accept(&mut listener).await {
                sa2.set(sa2.get() + 1);
                listener_session(si, sess, log2.clone());
                si += 1;
            }
            let _ = listener.on_close().await;
        }),
    );
    let mut ps = PeerSession::new(ch, 0, 5000, 5000);
    peer.send(ch, &peer::begin(None, 0, 5000, 5000)).await;
    let b = match peer.expect(wire::BEGIN).await {
        Some(b) => b,
        None => {
            sim::violation("begin-failed", "the listener did not answer the first begin".into());
            return;
        }
    };
    ps.on_remote_begin(b.perf.as_ref().unwrap(), b.channel);
    if with_link {
        peer.send(ch, &peer::attach(&AttachArgs::sender("first", 0))).await;
        if peer.expect(wire::ATTACH).await.is_none() {
            sim::violation("attach-failed", "the listener did not answer the attach on the first session".into());
            return;
        }
        let _ = peer.drain_for(50).await;
    }
    // the second begin on the channel that is in use
    sim::fault("begin-on-a-channel-in-use");
    peer.send(ch, &peer::begin(None, 0, 5000, 5000)).await;
    let mut second_begin = false;
    let mut closed = false;
    for f in peer.drain_for(pick(&[50u64, 500])).await {
        if f.code == wire::BEGIN {
            second_begin = true;
        }
        if f.code == wire::CLOSE {
            closed = true;
        }
    }
    if second_begin {
        sim::violation(
            "channel-shared-by-two-sessions",
            format!("the peer began a second session on channel {} without ending the first; the listener answered with a second begin (sessions accepted by the application: {})", ch, sessions_accepted.get()),
        );
        return;
    }
    if !closed && with_link {
        // the connection was left up: the first session's link still gets what is sent for it
        let m = msgs::gen_message(77, 60, 1);
        let t = TransferArgs { handle: 0, delivery_id: Some(0), delivery_tag: Some(vec![7]), message_format: Some(0), settled: Some(true), ..Default::default() };
        peer.send_with_payload(ch, &peer::transfer(&t), &msgs::encode(&m)).await;
        ps.on_transfer_sent();
        let _ = peer.drain_for(500).await;
        let got = log.borrow();
        if !(peer.eof || got.iter().any(|g| g.0 == 0 && g.1 == "first" && g.2 == 77)) && !got.is_empty() {
            sim::violation("misrouted-message", format!("a message for the first session's link arrived as {:?}", *got));
            return;
        }
    }
    sim::probe("duplicate-begin-refused");
    peer.send(0, &peer::close(None)).await;
    let _ = peer.drain_for(1000).await;
}

// ---------------------------------------------------------------------------------------
// "A handle or channel is reused only after the previous holder has ended" - and then it may be: for
// the peer its channel is free the moment it has sent its end. A scripted peer ends a session and
// begins the next one on the same channel in the same write, several times over, with a link and a
// message on each: every begin must be answered, every message must reach the link of that round's
// session, and the connection must stay up.

pub async fn run_end_then_begin_on_the_same_channel() {
    use crate::peer::{self, AttachArgs, PeerSession, TransferArgs};
    use crate::wire;
    use fe2o3_amqp::acceptor::SessionAcceptor;
    let lcfg = EndpointCfg::default_cfg();
    let (nab, nba, nd) = world::draw_net(true);
    let ch = pick(&[0u16, 0, 5, 254]);
    let rounds = 2 + choice(4) as usize;
    sim::set_config(format!("variant=end-then-begin-on-the-same-channel channel={} rounds={} {}", ch, rounds, nd));
    sim::mark_nontrivial();
    sim::set_panic_is_violation(true);
    let models = Models { sess: true, link: true, ..Models::none() };
    let pvl = match peer::peer_vs_listener(&lcfg, peer::open("peer", Some(65536), Some(255), None), nab, nba, models).await {
        Some(x) => x,
        None => return,
    };
    let peer::ListenerVsPeer { mut listener, mut peer, .. } = pvl;
    let log: Log = Rc::new(RefCell::new(Vec::new()));
    let log2 = log.clone();
    sim::spawn(
        "listener-sessions",
        sim::in_group(2, async move {
            let acc = SessionAcceptor::new();
            let mut si = 0usize;
            while let Ok(sess) = acc.accept(&mut listener).await {
                listener_session(si, sess, log2.clone());
                si += 1;
            }
            let _ = listener.on_close().await;
        }),
    );
    let mut next_out = 0u32;
    for round in 0..rounds {
        let mut bytes = Vec::new();
        if round > 0 {
            // the end of the previous session and the begin of the next in one write
            bytes.extend_from_slice(&peer::perf_frame(ch, &peer::end(None), &[]));
            sim::fault("end-and-begin-pipelined-on-one-channel");
        }
        bytes.extend_from_slice(&peer::perf_frame(ch, &peer::begin(None, next_out, 5000, 5000), &[]));
        peer.send_raw(&bytes).await;
        let mut ps = PeerSession::new(ch, next_out, 5000, 5000);
        // the listener answers the end of the previous round (if any) and the begin of this one
        let mut begun = None;
        let deadline = tokio::time::Instant::now() + std::time::Duration::from_secs(60);
        while begun.is_none() {
            if tokio::time::Instant::now() >= deadline || peer.eof {
                break;
            }
            for f in peer.drain_for(20).await {
                match f.code {
                    wire::BEGIN => begun = Some(f),
                    wire::CLOSE => {
                        sim::violation(
                            "reuse-of-an-ended-channel-refused",
                            format!("round {}: the peer ended its session on channel {} and began the next one on the same channel; the listener closed the connection: {}", round, ch, wire::describe_frame(&f)),
                        );
                        return;
                    }
                    _ => {}
                }
            }
        }
        let b = match begun {
            Some(b) => b,
            None => {
                sim::violation("begin-not-answered", format!("round {}: the begin on channel {} (after the end of the previous session there) was not answered (eof={})", round, ch, peer.eof));
                return;
            }
        };
        ps.on_remote_begin(b.perf.as_ref().unwrap(), b.channel);
        let name = format!("round-{}", round);
        peer.send(ch, &peer::attach(&AttachArgs::sender(&name, 0))).await;
        if peer.expect(wire::ATTACH).await.is_none() {
            sim::violation("attach-failed", format!("round {}: the attach on the new session was not answered", round));
            return;
        }
        // (the link's credit first)
        if peer.expect(wire::FLOW).await.is_none() {
            sim::violation("attach-failed", format!("round {}: no credit was granted on the new session's link", round));
            return;
        }
        let uid = 500 + round as u64;
        let t = TransferArgs { handle: 0, delivery_id: Some(next_out), delivery_tag: Some(vec![round as u8]), message_format: Some(0), settled: Some(true), ..Default::default() };
        peer.send_with_payload(ch, &peer::transfer(&t), &msgs::encode(&msgs::gen_message(uid, 60, 1))).await;
        next_out = next_out.wrapping_add(1);
        let mut waited = 0;
        while waited < 120_000 && !peer.eof && !log.borrow().iter().any(|g| g.2 == uid) {
            let _ = peer.drain_for(25).await;
            waited += 25;
        }
        let got = log.borrow();
        match got.iter().find(|g| g.2 == uid) {
            Some(g) if g.0 == round && g.1 == name => {}
            other => {
                sim::violation("misrouted-message", format!("round {}: the message for link {} of the session begun in this round arrived as {:?} (all: {:?})", round, name, other, *got));
                return;
            }
        }
    }
    sim::probe("channel-reused-right-after-the-peers-end");
    peer.send(ch, &peer::end(None)).await;
    peer.send(0, &peer::close(None)).await;
    let _ = peer.drain_for(1000).await;
}
