//! C12 — connection lifecycle: the real endpoint (client or listener) against a
//! scripted peer that opens early/late/pipelined, closes at any point with or
//! without error, sends frames that are illegal in the current state, goes silent,
//! or cuts the stream. The connection state machine is checked on the bytes the
//! endpoint wrote (wire monitor, M-conn) and on the API results.

use fe2o3_amqp::connection::ConnectionHandle;
use fe2o3_amqp::types::definitions::{self, AmqpError};
use fe2o3_amqp::Session;

use crate::chooser::{choice, pick};
use crate::net::{CutKind, NetCfg, SimStream};
use crate::peer::{self, Peer, AMQP_HEADER};
use crate::sim;
use crate::wire::{self, Item, Models};
use crate::world::{self, EndpointCfg};

#[derive(Clone, Copy, Debug, PartialEq)]
enum PeerAct {
    /// nothing special: a well-behaved peer
    Clean,
    /// close without error at some point
    Close,
    /// close with an error at some point
    CloseWithError,
    /// begin naming a remote-channel the endpoint never began
    BeginUnknownRemoteChannel,
    /// end on a channel that is not mapped
    EndUnmappedChannel,
    /// attach on a channel that is not mapped
    AttachUnmappedChannel,
    /// a second open
    SecondOpen,
    /// stops answering (never closes)
    Silence,
    /// clean EOF
    Eof,
    /// connection reset
    Reset,
    /// floods of empty frames, then behaves
    EmptyFrames,
    /// well-behaved until the endpoint's close arrives: then it ends the stream (EOF or reset)
    /// without sending a close of its own
    HangUpOnClose,
}

#[derive(Clone, Copy, Debug, PartialEq)]
enum LocalAct {
    Close,
    CloseWithError,
    Drop,
    BeginThenClose,
    /// waits for the peer to act (on_close)
    Wait,
    /// polls try_close() until it yields the result: every poll repeats the close request
    TryClose,
}

/// for the oracles a polled close is a close
fn judged_as(l: LocalAct) -> LocalAct {
    if l == LocalAct::TryClose { LocalAct::Close } else { l }
}

fn models() -> Models {
    Models {
        conn: true,
        sess: false,
        decodable: true,
        size: true,
        ..Models::none()
    }
}

fn err_string<T: std::fmt::Debug>(r: &Result<(), T>) -> String {
    format!("{:?}", r)
}

/// Await an API call. With a peer that has gone silent the call is allowed to stay pending
/// (nothing in the property bounds it), so it is only given a grace period.
async fn call<T>(what: &str, may_stay_pending: bool, fut: impl std::future::Future<Output = T>) -> Option<T> {
    if may_stay_pending {
        tokio::time::timeout(std::time::Duration::from_secs(120), fut).await.ok()
    } else {
        sim::op(what, fut).await
    }
}

struct Outcome {
    /// result of the final close()/on_close()/close_with_error()
    api: Option<String>,
    api_ok: bool,
    begin_result: Option<String>,
}

async fn local_script(mut handle: ConnectionHandle<()>, act: LocalAct, delay_ms: u64, silent: bool) -> Outcome {
    let mut out = Outcome { api: None, api_ok: false, begin_result: None };
    if delay_ms > 0 {
        sim::sleep_ms(delay_ms).await;
    }
    match act {
        LocalAct::TryClose => {
            use fe2o3_amqp::connection::TryCloseError;
            let gap = pick(&[1u64, 7, 50]);
            let poll = async {
                loop {
                    match handle.try_close() {
                        Ok(r) => return Some(r),
                        Err(TryCloseError::RemoteCloseNotReceived) => sim::sleep_ms(gap).await,
                        Err(TryCloseError::AlreadyClosed) => return None,
                    }
                }
            };
            match call("connection.try_close() polled", silent, poll).await {
                Some(Some(r)) => {
                    out.api_ok = r.is_ok();
                    out.api = Some(err_string(&r));
                    if !handle.is_closed() {
                        sim::violation("not-closed-after-close", "try_close() returned the result of the close and is_closed() is false".into());
                    }
                    if !matches!(handle.try_close(), Err(TryCloseError::AlreadyClosed)) {
                        sim::violation("try-close-twice", "try_close() after a completed try_close() did not report AlreadyClosed".into());
                    }
                }
                Some(None) => sim::violation("try-close-already-closed", "the first try_close() on an open connection reported AlreadyClosed".into()),
                None => {}
            }
        }
        LocalAct::Close => {
            if let Some(r) = call("connection.close()", silent, handle.close()).await {
                out.api_ok = r.is_ok();
                out.api = Some(err_string(&r));
            }
        }
        LocalAct::CloseWithError => {
            let e = definitions::Error::new(AmqpError::InternalError, Some("local-close-error".to_string()), None);
            if let Some(r) = call("connection.close_with_error()", silent, handle.close_with_error(e)).await {
                out.api_ok = r.is_ok();
                out.api = Some(err_string(&r));
            }
        }
        LocalAct::Drop => {
            drop(handle);
            return out;
        }
        LocalAct::BeginThenClose => {
            match call("session begin", silent, Session::begin(&mut handle)).await {
                Some(Ok(mut s)) => {
                    out.begin_result = Some("Ok".into());
                    let _ = call("session end", silent, s.end()).await;
                }
                Some(Err(e)) => out.begin_result = Some(format!("{:?}", e)),
                None => return out,
            }
            if let Some(r) = call("connection.close()", silent, handle.close()).await {
                out.api_ok = r.is_ok();
                out.api = Some(err_string(&r));
            }
        }
        LocalAct::Wait => {
            if let Some(r) = call("connection.on_close()", silent, handle.on_close()).await {
                out.api_ok = r.is_ok();
                out.api = Some(err_string(&r));
            }
        }
    }
    out
}

struct PeerReport {
    sent_close: bool,
    sent_close_error: Option<&'static str>,
    sent_illegal: Option<&'static str>,
    cut: bool,
    saw_close: bool,
    saw_close_error: Option<String>,
    silent: bool,
    /// frames the endpoint wrote after the peer's illegal frame, other than close
    acted_on_illegal: Vec<String>,
}

/// The scripted peer after the open exchange
async fn peer_script(peer: &mut Peer, net: &crate::net::NetHandle, act: PeerAct, delay_ms: u64, local_waits: bool, ep_idle: Option<u32>) -> PeerReport {
    let mut rep = PeerReport {
        sent_close: false,
        sent_close_error: None,
        sent_illegal: None,
        cut: false,
        saw_close: false,
        saw_close_error: None,
        silent: false,
        acted_on_illegal: Vec::new(),
    };
    let mut acted = false;
    let start = tokio::time::Instant::now();
    let deadline = start + sim::OP_DEADLINE + std::time::Duration::from_secs(60);
    loop {
        if sim::has_violation() || tokio::time::Instant::now() >= deadline {
            return rep;
        }
        // serve what arrives
        let mut wait = if acted { 200 } else { delay_ms.max(1) };
        if let Some(t) = ep_idle {
            // a legal peer keeps the endpoint's advertised idle time-out satisfied
            wait = wait.min((t as u64 / 4).max(1));
            if act != PeerAct::Silence && !rep.cut && !rep.sent_close {
                peer.send_empty().await;
            }
        }
        let item = peer.recv_within(wait).await;
        match item {
            Some(Item::Frame(f)) => match f.code {
                wire::BEGIN if f.perf.is_some() => {
                    if rep.sent_illegal.is_some() {
                        rep.acted_on_illegal.push(wire::describe_frame(&f));
                    }
                    if act != PeerAct::Silence {
                        peer.send(f.channel, &peer::begin(Some(f.channel), 0, 100, 100)).await;
                    }
                }
                wire::END => {
                    if act != PeerAct::Silence {
                        peer.send(f.channel, &peer::end(None)).await;
                    }
                }
                wire::CLOSE => {
                    rep.saw_close = true;
                    rep.saw_close_error = wire::error_condition(f.perf.as_ref().unwrap().field(0));
                    if act == PeerAct::HangUpOnClose && !rep.sent_close {
                        if choice(2) == 0 {
                            peer.shutdown().await;
                            sim::fault("hang-up-eof-on-close");
                        } else {
                            net.cut_now(CutKind::Reset);
                            sim::fault("hang-up-reset-on-close");
                        }
                        rep.cut = true;
                        let _ = peer.drain_for(500).await;
                        return rep;
                    }
                    if !rep.sent_close && act != PeerAct::Silence {
                        peer.send(0, &peer::close(None)).await;
                        rep.sent_close = true;
                    }
                    if act != PeerAct::Silence {
                        peer.shutdown().await;
                        // whatever else the endpoint writes is for the monitor to judge
                        let _ = peer.drain_for(500).await;
                        return rep;
                    }
                }
                _ => {
                    if rep.sent_illegal.is_some() && f.perf.is_some() {
                        rep.acted_on_illegal.push(wire::describe_frame(&f));
                    }
                }
            },
            Some(Item::Header(_)) => {}
            None => {
                if peer.eof || peer.read_error.is_some() {
                    return rep;
                }
            }
        }
        if !acted && tokio::time::Instant::now() >= start + std::time::Duration::from_millis(delay_ms) {
            acted = true;
            match act {
                PeerAct::Clean | PeerAct::Silence | PeerAct::HangUpOnClose => {
                    rep.silent = act == PeerAct::Silence;
                    if act != PeerAct::Silence && local_waits {
                        peer.send(0, &peer::close(None)).await;
                        rep.sent_close = true;
                    }
                }
                PeerAct::Close => {
                    peer.send(0, &peer::close(None)).await;
                    rep.sent_close = true;
                }
                PeerAct::CloseWithError => {
                    peer.send(0, &peer::close(Some(peer::error("amqp:resource-limit-exceeded", Some("peer-close-error"))))).await;
                    rep.sent_close = true;
                    rep.sent_close_error = Some("amqp:resource-limit-exceeded");
                }
                PeerAct::BeginUnknownRemoteChannel => {
                    peer.send(7, &peer::begin(Some(55), 0, 100, 100)).await;
                    rep.sent_illegal = Some("begin with unknown remote-channel");
                }
                PeerAct::EndUnmappedChannel => {
                    peer.send(9, &peer::end(None)).await;
                    rep.sent_illegal = Some("end on an unmapped channel");
                }
                PeerAct::AttachUnmappedChannel => {
                    peer.send(11, &peer::attach(&peer::AttachArgs::sender("x", 0))).await;
                    rep.sent_illegal = Some("attach on an unmapped channel");
                }
                PeerAct::SecondOpen => {
                    peer.send(0, &peer::open("peer-again", None, None, None)).await;
                    rep.sent_illegal = Some("second open");
                }
                PeerAct::Eof => {
                    net.cut_now(CutKind::Eof);
                    sim::fault("cut-eof");
                    rep.cut = true;
                }
                PeerAct::Reset => {
                    net.cut_now(CutKind::Reset);
                    sim::fault("cut-reset");
                    rep.cut = true;
                }
                PeerAct::EmptyFrames => {
                    for _ in 0..(3 + choice(30)) {
                        peer.send_empty().await;
                    }
                    sim::probe("empty-frame-flood");
                    if local_waits {
                        peer.send(0, &peer::close(None)).await;
                        rep.sent_close = true;
                    }
                }
            }
        }
    }
}

/// The peer sends a close (with or without an error) where its open is due. The endpoint has
/// sent its header and open by then, so the peer's close must be answered with a close before
/// the endpoint ends the stream, and the open/accept call must fail.
async fn peer_closes_instead_of_opening(peer: &mut Peer, with_error: bool) {
    let err = if with_error { Some(peer::error("amqp:resource-limit-exceeded", Some("refused"))) } else { None };
    peer.send(0, &peer::close(err)).await;
    // give the endpoint time to answer, then end the stream whatever it did
    let mut waited = 0;
    while waited < 3000 && !peer.eof {
        if peer.drain_for(100).await.iter().any(|f| f.code == wire::CLOSE && f.perf.is_some()) {
            break;
        }
        waited += 100;
    }
    peer.shutdown().await;
    let _ = peer.drain_for(500).await;
}

/// After a frame in place of its open the peer has been refused with a close carrying an error.
/// "After closing with an error the endpoint ignores everything until the peer's close": the peer
/// now sends more frames - none of them a close - and possibly a late open; the endpoint must write
/// nothing and must not end the stream; then the peer closes and the endpoint lets go.
/// Returns false after a violation.
async fn frames_between_refusal_and_close(peer: &mut Peer, side: &str, quiet_ms: u64) -> bool {
    // wait for the refusal
    let mut saw_close = false;
    let mut waited = 0;
    while waited < 3000 && !peer.eof && !saw_close {
        saw_close = peer.drain_for(100).await.iter().any(|f| f.code == wire::CLOSE && f.perf.is_some());
        waited += 100;
    }
    if saw_close && !peer.eof && choice(3) != 0 {
        let k = 1 + choice(3);
        for _ in 0..k {
            match choice(5) {
                0 => peer.send(0, &peer::end(None)).await,
                1 => peer.send(1, &peer::begin(None, 0, 10, 10)).await,
                2 => peer.send(0, &peer::attach(&peer::AttachArgs::sender("late", 0))).await,
                3 => peer.send(0, &peer::flow(&peer::PeerSession::new(0, 0, 10, 10).flow_args())).await,
                _ => peer.send_empty().await,
            };
        }
        sim::fault("frames-between-refusal-and-peer-close");
        let wrote = peer.drain_for(quiet_ms).await;
        if let Some(f) = wrote.iter().find(|f| f.perf.is_some()) {
            sim::violation(
                "frame-after-closing-with-error-acted-upon",
                format!("the {} had refused the connection with a close carrying an error; it answered a later frame of the peer with {}", side, wire::describe_frame(f)),
            );
            return false;
        }
        if peer.eof || peer.read_error.is_some() {
            sim::violation(
                "hung-up-before-the-peers-close",
                format!("the {} had refused the connection with a close carrying an error and must ignore everything until the peer's close; it ended the stream when {} more frame(s) arrived", side, k),
            );
            return false;
        }
        if choice(2) == 0 {
            // the open it had been waiting for, too late
            peer.send(0, &peer::open("peer-late", None, None, None)).await;
            let wrote = peer.drain_for(quiet_ms).await;
            if let Some(f) = wrote.iter().find(|f| f.perf.is_some()) {
                sim::violation(
                    "frame-after-closing-with-error-acted-upon",
                    format!("the {} had refused the connection with a close carrying an error; it answered the late open with {}", side, wire::describe_frame(f)),
                );
                return false;
            }
            if peer.eof || peer.read_error.is_some() {
                sim::violation("hung-up-before-the-peers-close", format!("the {} ended the stream when the late open arrived, before the peer's close", side));
                return false;
            }
        }
        sim::probe("ignored-everything-until-the-peers-close");
    }
    if saw_close {
        peer.send(0, &peer::close(None)).await;
    }
    peer.shutdown().await;
    let _ = peer.drain_for(500).await;
    true
}

fn judge_close_instead_of_open(mon: &wire::MonitorRef, d: usize, opened: bool, result: String) {
    if opened {
        sim::violation("close-instead-of-open-accepted", "the peer sent a close where its open was due and the open/accept call succeeded".into());
        return;
    }
    let mut m = mon.borrow_mut();
    m.sync();
    if m.ends[d].open.is_some() && m.ends[d].close.is_none() {
        sim::violation(
            "peer-close-not-answered",
            format!("the peer sent a close where its open was due; the endpoint had sent its open and ended the stream without sending a close (call returned {})", result),
        );
    }
}

fn draw_peer_act() -> PeerAct {
    pick(&[
        PeerAct::Clean,
        PeerAct::Clean,
        PeerAct::Close,
        PeerAct::CloseWithError,
        PeerAct::BeginUnknownRemoteChannel,
        PeerAct::EndUnmappedChannel,
        PeerAct::AttachUnmappedChannel,
        PeerAct::SecondOpen,
        PeerAct::Silence,
        PeerAct::Eof,
        PeerAct::Reset,
        PeerAct::EmptyFrames,
        PeerAct::HangUpOnClose,
    ])
}

fn draw_local_act() -> LocalAct {
    pick(&[LocalAct::Close, LocalAct::Close, LocalAct::CloseWithError, LocalAct::Drop, LocalAct::BeginThenClose, LocalAct::Wait, LocalAct::TryClose])
}

/// Judge the run from what the endpoint wrote (`d` = its direction) and what its API returned
fn judge(mon: &wire::MonitorRef, d: usize, pact: PeerAct, lact: LocalAct, out: &Outcome, rep: &PeerReport, heartbeat: bool, shutdown_fails: bool) {
    let mut m = mon.borrow_mut();
    m.sync();
    if sim::has_violation() {
        return;
    }
    let e = &m.ends[d];
    let what = format!("peer={:?} local={:?} heartbeat={}", pact, lact, heartbeat);
    // a peer close must be answered with a close unless the stream was cut or the endpoint had closed first
    if rep.sent_close && !rep.cut && e.close.is_none() {
        sim::violation("peer-close-not-answered", format!("the peer closed ({}), the endpoint never wrote a close", what));
        return;
    }
    // an illegal frame must lead to a close that carries an error, and must not be acted on
    if let Some(ill) = rep.sent_illegal {
        match &e.close {
            None => {
                if !rep.cut {
                    sim::violation("illegal-frame-not-refused", format!("after `{}` the endpoint did not close the connection ({})", ill, what));
                    return;
                }
            }
            Some(_) => {
                // if the endpoint's own clean close was already on the wire before the illegal frame
                // arrived, no error can be attached to it any more
                let own_close_first = matches!(lact, LocalAct::Close | LocalAct::CloseWithError | LocalAct::Drop | LocalAct::BeginThenClose);
                if e.close_error().is_none() && !own_close_first {
                    sim::violation(
                        "illegal-frame-closed-without-error",
                        format!("after `{}` the endpoint closed without an error condition ({})", ill, what),
                    );
                    return;
                }
            }
        }
        if !rep.acted_on_illegal.is_empty() && lact == LocalAct::Wait {
            sim::violation(
                "illegal-frame-acted-upon",
                format!("after `{}` the endpoint wrote {:?} ({})", ill, rep.acted_on_illegal, what),
            );
            return;
        }
    }
    // API results
    if let Some(api) = &out.api {
        // (when shutting the stream down fails after a clean exchange, reporting that failure is not
        // held against the endpoint; the peer's error, when there is one, must get through all the same)
        let clean_exchange = !rep.cut
            && !shutdown_fails
            && rep.sent_illegal.is_none()
            && rep.sent_close_error.is_none()
            && !rep.silent
            && matches!(lact, LocalAct::Close | LocalAct::BeginThenClose | LocalAct::Wait)
            && matches!(pact, PeerAct::Clean | PeerAct::Close | PeerAct::EmptyFrames);
        // When the peer's close was on the wire first the library reports `RemoteClosed`, which
        // names who closed and is not an error of the exchange; when the endpoint closed first
        // a clean exchange must be reported as Ok.
        let peer_close_seq = m.ends[1 - d].close_seq;
        let endpoint_closed_first = e.close.is_some() && (m.ends[1 - d].close.is_none() || e.close_seq < peer_close_seq);
        if clean_exchange && endpoint_closed_first && !out.api_ok {
            sim::violation("clean-close-reported-as-error", format!("a clean close exchange initiated by the endpoint returned {} ({})", api, what));
            return;
        }
        if clean_exchange && !endpoint_closed_first && !out.api_ok && !api.contains("RemoteClosed") {
            sim::violation("clean-close-reported-as-error", format!("a clean close exchange initiated by the peer returned {} ({})", api, what));
            return;
        }
        // a clean result is for a clean close: when the application closed without an error (or only
        // waited) and the peer wrote no close at all - the stream just ended - the exchange did not take
        // place and cannot be reported as Ok. (What close_with_error returns when the peer hangs up is
        // not stated and not judged.)
        if matches!(judged_as(lact), LocalAct::Close | LocalAct::BeginThenClose | LocalAct::Wait) && m.ends[1 - d].close.is_none() {
            if out.api_ok {
                sim::violation(
                    "unanswered-close-reported-as-clean",
                    format!("the peer never sent a close (the stream ended: cut={}), yet the call returned {} ({})", rep.cut, api, what),
                );
                return;
            }
            sim::probe("unanswered-close-reported-as-error");
        }
        if let Some(cond) = rep.sent_close_error {
            // the peer's error must reach the caller unless the caller's own close completed first
            let mentions = api.contains("ResourceLimitExceeded") || api.contains("resource-limit-exceeded") || api.contains("peer-close-error");
            if !mentions && lact == LocalAct::Wait {
                sim::violation(
                    "peer-close-error-not-reported",
                    format!("the peer closed with {}, on_close returned {} ({})", cond, api, what),
                );
                return;
            }
            if out.api_ok {
                sim::violation(
                    "peer-close-error-reported-as-ok",
                    format!("the peer closed with {}, the close call returned {} ({})", cond, api, what),
                );
                return;
            }
        }

    }
}

pub async fn run_client() {
    let pact = draw_peer_act();
    let lact = draw_local_act();
    let lact = if pact == PeerAct::Silence && lact == LocalAct::Wait { LocalAct::Close } else { lact };
    let peer_delay = pick(&[0u64, 0, 3, 40, 900]);
    let local_delay = pick(&[0u64, 0, 5, 60, 1200]);
    let heartbeat = choice(3) == 1;
    let pipelined = choice(4) == 1;
    let mut ccfg = EndpointCfg::default_cfg();
    ccfg.idle_time_out = if choice(4) == 1 { Some(pick(&[400u32, 5000])) } else { None };
    let (nab, nba, nd) = if ccfg.idle_time_out.is_some() { world::draw_fast_net() } else { world::draw_net(true) };
    sim::set_config(format!(
        "side=client peer={:?}@{}ms local={:?}@{}ms peer-idle-time-out={} pipelined-open={} local-idle={:?} {}",
        pact, peer_delay, lact, local_delay, heartbeat, pipelined, ccfg.idle_time_out, nd
    ));
    sim::mark_nontrivial();
    let (cs, ps, net) = SimStream::pair("client", "peer", nab, nba);
    // fault: the final shutdown of the endpoint's write half fails
    let shutdown_fails = choice(4) == 1;
    if shutdown_fails {
        net.a2b.lock().unwrap().shutdown_fails = true;
        sim::append_config(" shutdown-fails");
    }
    let mon = wire::install(&net, ["client", "peer"], [models(), Models::none()]);
    let mut peer = Peer::new("peer", ps);
    let peer_open = peer::open("peer", Some(pick(&[65536u32, 512])), Some(255), if heartbeat { Some(pick(&[300u32, 2000])) } else if choice(3) == 0 { Some(0) } else { None });
    if choice(12) == 1 {
        // a begin where the peer's open is due: the client must refuse (close with an error), must not
        // act on the begin, and must ignore what follows until the peer's close
        sim::fault("frame-before-open");
        let quiet = if ccfg.idle_time_out.is_some() { 50 } else { pick(&[100u64, 700]) };
        let hs = async {
            let _ = peer.expect_header().await;
            peer.send_header(AMQP_HEADER).await;
            peer.send(0, &peer::begin(None, 0, 10, 10)).await;
            frames_between_refusal_and_close(&mut peer, "client", quiet).await;
        };
        let (c, _) = match sim::op("open", world::join2(sim::in_group(1, world::client_open(&ccfg, cs)), hs)).await {
            Some(x) => x,
            None => return,
        };
        if sim::has_violation() {
            return;
        }
        if c.is_ok() {
            sim::violation("frame-before-open-accepted", "the client's open succeeded although the peer's first frame was a begin".into());
            return;
        }
        let mut m = mon.borrow_mut();
        m.sync();
        if m.ends[0].close.is_some() && m.ends[0].close_error().is_none() {
            sim::violation("illegal-frame-closed-without-error", "a begin arrived where the peer's open was due; the client closed the connection without an error condition".into());
        }
        return;
    }
    if choice(10) == 1 {
        sim::fault("close-instead-of-open");
        let with_error = choice(2) == 1;
        let hs = async {
            if choice(2) == 1 {
                peer.send_header(AMQP_HEADER).await;
                let _ = peer.expect_header().await;
            } else {
                let _ = peer.expect_header().await;
                peer.send_header(AMQP_HEADER).await;
            }
            if choice(2) == 1 {
                let _ = peer.expect(wire::OPEN).await;
            }
            peer_closes_instead_of_opening(&mut peer, with_error).await;
        };
        let (c, _) = match sim::op("open", world::join2(sim::in_group(1, world::client_open(&ccfg, cs)), hs)).await {
            Some(x) => x,
            None => return,
        };
        let res = format!("{:?}", c.as_ref().map(|_| ()));
        judge_close_instead_of_open(&mon, 0, c.is_ok(), res);
        return;
    }
    let hs = async {
        if pipelined {
            // header and open in one go, before anything was read
            let mut bytes = AMQP_HEADER.to_vec();
            bytes.extend_from_slice(&peer::perf_frame(0, &peer_open, &[]));
            peer.send_raw(&bytes).await;
            let _ = peer.expect_header().await?;
            peer.expect(wire::OPEN).await?;
        } else {
            let _ = peer.expect_header().await?;
            peer.send_header(AMQP_HEADER).await;
            peer.expect(wire::OPEN).await?;
            if choice(2) == 1 {
                let d = pick(&[1u64, 50, 700]);
                // (a delay beyond the endpoint's own idle time-out would legitimately end the open)
                if ccfg.idle_time_out.map(|t| d * 2 < t as u64).unwrap_or(true) {
                    sim::sleep_ms(d).await;
                }
            }
            peer.send(0, &peer_open).await;
        }
        Some(())
    };
    let (c, o) = match sim::op("open", world::join2(sim::in_group(1, world::client_open(&ccfg, cs)), hs)).await {
        Some(x) => x,
        None => return,
    };
    let handle = match (c, o) {
        (Ok(h), Some(())) => h,
        (c, o) => {
            sim::violation("open-failed", format!("open against a legal peer failed: {:?} / {:?}", c.map(|_| ()), o));
            return;
        }
    };
    let ep_idle = ccfg.idle_time_out.map(|t| t / 2);
    let (out, rep) = world::join2(local_script(handle, lact, local_delay, pact == PeerAct::Silence), peer_script(&mut peer, &net, pact, peer_delay, lact == LocalAct::Wait, ep_idle)).await;
    if sim::has_violation() {
        return;
    }
    // let the endpoint finish writing whatever it is going to write
    let _ = peer.drain_for(3000).await;
    judge(&mon, 0, pact, judged_as(lact), &out, &rep, heartbeat, shutdown_fails);
}

pub async fn run_listener() {
    let pact = draw_peer_act();
    let lact = pick(&[LocalAct::Close, LocalAct::CloseWithError, LocalAct::Drop, LocalAct::Wait, LocalAct::Wait]);
    let lact = if pact == PeerAct::Silence && lact == LocalAct::Wait { LocalAct::Close } else { lact };
    let silent = pact == PeerAct::Silence;
    let peer_delay = pick(&[0u64, 0, 3, 40, 900]);
    let local_delay = pick(&[0u64, 0, 5, 60, 1200]);
    let heartbeat = choice(3) == 1;
    let frames_before_open = choice(6) == 1;
    let mut lcfg = EndpointCfg::default_cfg();
    lcfg.idle_time_out = if choice(4) == 1 { Some(pick(&[400u32, 5000])) } else { None };
    let (nab, nba, nd) = if lcfg.idle_time_out.is_some() { world::draw_fast_net() } else { world::draw_net(true) };
    sim::set_config(format!(
        "side=listener peer={:?}@{}ms local={:?}@{}ms peer-idle-time-out={} frames-before-open={} local-idle={:?} {}",
        pact, peer_delay, lact, local_delay, heartbeat, frames_before_open, lcfg.idle_time_out, nd
    ));
    sim::mark_nontrivial();
    let (ps, ls, net) = SimStream::pair("peer", "listener", nab, nba);
    let shutdown_fails = choice(4) == 1;
    if shutdown_fails {
        net.b2a.lock().unwrap().shutdown_fails = true;
        sim::append_config(" shutdown-fails");
    }
    let mon = wire::install(&net, ["peer", "listener"], [Models::none(), models()]);
    let mut peer = Peer::new("peer", ps);
    let peer_open = peer::open("peer", Some(pick(&[65536u32, 512])), Some(255), if heartbeat { Some(pick(&[300u32, 2000])) } else if choice(3) == 0 { Some(0) } else { None });
    let acceptor = world::listener_acceptor(&lcfg);
    if frames_before_open {
        // a begin before the open: the listener must refuse the connection, not act on the begin
        sim::fault("frame-before-open");
        let hs = async {
            peer.send_header(AMQP_HEADER).await;
            peer.send(0, &peer::begin(None, 0, 10, 10)).await;
            // whatever the listener does, answer a close and end the stream - after some more frames
            // that a listener which has closed with an error must ignore
            let quiet = if lcfg.idle_time_out.is_some() { 50 } else { pick(&[100u64, 700]) };
            frames_between_refusal_and_close(&mut peer, "listener", quiet).await;
        };
        let (l, _) = match sim::op("accept", world::join2(sim::in_group(2, acceptor.accept(ls)), hs)).await {
            Some(x) => x,
            None => return,
        };
        if sim::has_violation() {
            return;
        }
        if l.is_ok() {
            sim::violation("frame-before-open-accepted", "the listener accepted a connection whose first frame was a begin".into());
            return;
        }
        let mut m = mon.borrow_mut();
        m.sync();
        if m.ends[1].sessions.iter().any(|s| s.begun) {
            sim::violation("frame-before-open-acted-upon", "the listener answered a begin that came before the open".into());
            return;
        }
        if m.ends[1].close.is_some() && m.ends[1].close_error().is_none() {
            sim::violation(
                "illegal-frame-closed-without-error",
                "a begin arrived before the open; the listener closed the connection without an error condition".into(),
            );
        }
        return;
    }
    if choice(10) == 1 {
        sim::fault("close-instead-of-open");
        let with_error = choice(2) == 1;
        let hs = async {
            peer.send_header(AMQP_HEADER).await;
            if choice(2) == 1 {
                let _ = peer.expect_header().await;
            }
            peer_closes_instead_of_opening(&mut peer, with_error).await;
        };
        let (l, _) = match sim::op("accept", world::join2(sim::in_group(2, acceptor.accept(ls)), hs)).await {
            Some(x) => x,
            None => return,
        };
        let res = format!("{:?}", l.as_ref().map(|_| ()));
        judge_close_instead_of_open(&mon, 1, l.is_ok(), res);
        return;
    }
    let hs = async {
        peer.send_header(AMQP_HEADER).await;
        if choice(2) == 1 {
            // pipelined open
            peer.send(0, &peer_open).await;
            let _ = peer.expect_header().await?;
            peer.expect(wire::OPEN).await?;
        } else {
            let _ = peer.expect_header().await?;
            peer.send(0, &peer_open).await;
            peer.expect(wire::OPEN).await?;
        }
        Some(())
    };
    let (l, o) = match sim::op("accept", world::join2(sim::in_group(2, acceptor.accept(ls)), hs)).await {
        Some(x) => x,
        None => return,
    };
    let handle = match (l, o) {
        (Ok(h), Some(())) => h,
        (l, o) => {
            sim::violation("open-failed", format!("accept of a legal peer failed: {:?} / {:?}", l.map(|_| ()), o));
            return;
        }
    };
    // the listener handle has the same close API
    let local = async {
        let mut handle = handle;
        let mut out = Outcome { api: None, api_ok: false, begin_result: None };
        if local_delay > 0 {
            sim::sleep_ms(local_delay).await;
        }
        match lact {
            LocalAct::Close | LocalAct::BeginThenClose | LocalAct::TryClose => {
                if let Some(r) = call("listener connection.close()", silent, handle.close()).await {
                    out.api_ok = r.is_ok();
                    out.api = Some(err_string(&r));
                }
            }
            LocalAct::CloseWithError => {
                let e = definitions::Error::new(AmqpError::InternalError, Some("local-close-error".to_string()), None);
                if let Some(r) = call("listener connection.close_with_error()", silent, handle.close_with_error(e)).await {
                    out.api_ok = r.is_ok();
                    out.api = Some(err_string(&r));
                }
            }
            LocalAct::Drop => drop(handle),
            LocalAct::Wait => {
                if let Some(r) = call("listener connection.on_close()", silent, handle.on_close()).await {
                    out.api_ok = r.is_ok();
                    out.api = Some(err_string(&r));
                }
            }
        }
        out
    };
    let ep_idle = lcfg.idle_time_out.map(|t| t / 2);
    let (out, rep) = world::join2(local, peer_script(&mut peer, &net, pact, peer_delay, lact == LocalAct::Wait, ep_idle)).await;
    if sim::has_violation() {
        return;
    }
    let _ = peer.drain_for(3000).await;
    judge(&mon, 1, pact, lact, &out, &rep, heartbeat, shutdown_fails);
    let _ = NetCfg::plain();
}

// ---------------------------------------------------------------------------------------
// "A close from the peer is always answered with a close (after already queued frames are
// flushed)": the client has 3-10 sessions, the direction client -> peer stops delivering, the
// application ends every session (each end carries a description of a few hundred bytes, so that
// the connection engine is soon stuck in a write with the other ends queued behind it), the peer
// sends its close (with or without an error), and then the direction is opened again. Whatever the
// engine picks up first, every end that had been queued must be written before the answering close.

pub async fn run_flush_before_close() {
    let k = 3 + choice(8) as usize;
    let with_error = choice(3) != 0;
    let mut ccfg = EndpointCfg::default_cfg();
    ccfg.max_frame_size = pick(&[65536u32, 4096, 1024]);
    let mut nab = NetCfg::draw();
    nab.capacity = pick(&[64usize, 300, 1000]);
    nab.stall_den = 0;
    let nba = NetCfg::plain();
    let desc_len = pick(&[50usize, 300, 600]);
    sim::set_config(format!("variant=flush-before-close sessions={} peer-close-with-error={} a2b-capacity={} description={}B {}", k, with_error, nab.capacity, desc_len, nab.describe()));
    sim::mark_nontrivial();
    let (cs, ps, net) = SimStream::pair("client", "peer", nab, nba);
    let mon = wire::install(&net, ["client", "peer"], [models(), Models::none()]);
    let mut peer = Peer::new("peer", ps);
    let hs = async {
        let _ = peer.expect_header().await?;
        peer.send_header(AMQP_HEADER).await;
        peer.expect(wire::OPEN).await?;
        peer.send(0, &peer::open("peer", Some(65536), Some(255), None)).await;
        Some(())
    };
    let (c, o) = match sim::op("open", world::join2(sim::in_group(1, world::client_open(&ccfg, cs)), hs)).await {
        Some(x) => x,
        None => return,
    };
    let mut handle = match (c, o) {
        (Ok(h), Some(())) => h,
        _ => {
            sim::violation("open-failed", "open against a legal peer failed".into());
            return;
        }
    };
    // the sessions
    let mut sessions = Vec::new();
    for i in 0..k {
        let bf = sim::in_group(1, Session::begin(&mut handle));
        let pb = async {
            let b = peer.expect(wire::BEGIN).await?;
            peer.send(b.channel, &peer::begin(Some(b.channel), 0, 100, 100)).await;
            Some(())
        };
        match sim::op(&format!("begin #{}", i), world::join2(bf, pb)).await {
            Some((Ok(s), Some(()))) => sessions.push(s),
            _ => {
                sim::violation("begin-failed", "begin against a legal peer failed".into());
                return;
            }
        }
    }
    let _ = peer::settle(&mut peer, &net, |_| {}).await;
    // nothing the client writes from here on reaches the peer until further notice
    net.freeze_a2b(true);
    sim::fault("peer-stops-reading");
    let ended = std::rc::Rc::new(std::cell::Cell::new(0usize));
    for (i, mut s) in sessions.into_iter().enumerate() {
        let ended2 = ended.clone();
        sim::spawn("app-ending-a-session", sim::in_group(1, async move {
            let e = definitions::Error::new(AmqpError::InternalError, Some(format!("{}-{}", i, "d".repeat(desc_len))), None);
            let _ = tokio::time::timeout(std::time::Duration::from_secs(300), s.end_with_error(e)).await;
            ended2.set(ended2.get() + 1);
        }));
    }
    // every session engine has handed its end to the connection engine, which is stuck in a write
    // (or has written them all, if they were small): nothing is runnable
    sim::sleep_ms(5).await;
    sim::until_idle().await;
    let err = if with_error { Some(peer::error("amqp:connection:forced", Some("peer-closes"))) } else { None };
    peer.send(0, &peer::close(err)).await;
    sim::fault(if with_error { "peer-closes-with-error-while-frames-are-queued" } else { "peer-closes-while-frames-are-queued" });
    sim::sleep_ms(pick(&[0u64, 1, 20])).await;
    sim::until_idle().await;
    net.freeze_a2b(false);
    // read everything the client writes until its close or the end of the stream
    let mut ends = 0usize;
    let mut saw_close = false;
    loop {
        match peer.recv_within(20_000).await {
            Some(Item::Frame(f)) if f.code == wire::END => ends += 1,
            Some(Item::Frame(f)) if f.code == wire::CLOSE => {
                saw_close = true;
                break;
            }
            Some(_) => {}
            None => break,
        }
    }
    peer.shutdown().await;
    let _ = tokio::time::timeout(std::time::Duration::from_secs(60), handle.on_close()).await;
    mon.borrow_mut().sync();
    if sim::has_violation() {
        return;
    }
    if !saw_close {
        sim::violation("peer-close-not-answered", format!("the peer closed while {} ends were queued; the client wrote {} ends and no close", k, ends));
        return;
    }
    if ends != k {
        sim::violation(
            "queued-frames-not-flushed-before-close",
            format!("{} sessions had been ended (their end frames queued in the connection) when the peer's close{} arrived; the client wrote {} of the ends before its answering close", k, if with_error { " with an error" } else { "" }, ends),
        );
        return;
    }
    sim::probe("queued-frames-flushed-before-close");
}
