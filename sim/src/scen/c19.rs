//! C19 — SASL: no connection without successful authentication; SCRAM is mutual.
//!
//! (a) scripted SASL client (honest and dishonest behaviours) <-> real listener configured with
//!     PLAIN or SCRAM-SHA-1/256/512;
//! (b) real client (PLAIN / SCRAM) <-> scripted SASL server (honest and dishonest behaviours);
//! (c) real client <-> real listener with equal or differing credentials and mechanisms.
//!
//! The SCRAM arithmetic below (HMAC, PBKDF2, message construction) is the harness's own, on top
//! of the sha1/sha2 digest crates only.

use std::sync::Arc;

use base64::Engine;
use fe2o3_amqp::acceptor::{ConnectionAcceptor, SaslPlainMechanism};
use fe2o3_amqp::auth::scram::{ScramAuthenticator, ScramVersion};
use fe2o3_amqp::acceptor::scram::SingleScramCredential;
use fe2o3_amqp::sasl_profile::{SaslProfile, SaslScramSha1, SaslScramSha256, SaslScramSha512};
use fe2o3_amqp::Connection;
use sha1::Sha1;
use sha2::{Digest, Sha256, Sha512};

use crate::chooser::{choice, pick};
use crate::net::SimStream;
use crate::peer::{self, Peer, AMQP_HEADER, SASL_HEADER};
use crate::refcodec::{self, V};
use crate::sim;
use crate::wire::{self, Item, Models};
use crate::world;

const USER: &str = "alice";
const PASS: &str = "correct horse";

#[derive(Clone, Copy, Debug, PartialEq)]
pub enum Mech {
    Plain,
    Sha1,
    Sha256,
    Sha512,
}

impl Mech {
    fn name(self) -> &'static str {
        match self {
            Mech::Plain => "PLAIN",
            Mech::Sha1 => "SCRAM-SHA-1",
            Mech::Sha256 => "SCRAM-SHA-256",
            Mech::Sha512 => "SCRAM-SHA-512",
        }
    }
    fn block(self) -> usize {
        if self == Mech::Sha512 {
            128
        } else {
            64
        }
    }
}

fn h(m: Mech, data: &[u8]) -> Vec<u8> {
    match m {
        Mech::Sha1 | Mech::Plain => Sha1::digest(data).to_vec(),
        Mech::Sha256 => Sha256::digest(data).to_vec(),
        Mech::Sha512 => Sha512::digest(data).to_vec(),
    }
}

fn hmac(m: Mech, key: &[u8], data: &[u8]) -> Vec<u8> {
    let b = m.block();
    let mut k = if key.len() > b { h(m, key) } else { key.to_vec() };
    k.resize(b, 0);
    let mut inner: Vec<u8> = k.iter().map(|x| x ^ 0x36).collect();
    inner.extend_from_slice(data);
    let mut outer: Vec<u8> = k.iter().map(|x| x ^ 0x5c).collect();
    outer.extend_from_slice(&h(m, &inner));
    h(m, &outer)
}

/// PBKDF2 with HMAC, one output block (dkLen = hash length), as SCRAM's Hi()
fn hi(m: Mech, password: &[u8], salt: &[u8], iterations: u32) -> Vec<u8> {
    let mut s = salt.to_vec();
    s.extend_from_slice(&1u32.to_be_bytes());
    let mut u = hmac(m, password, &s);
    let mut out = u.clone();
    for _ in 1..iterations {
        u = hmac(m, password, &u);
        for (o, x) in out.iter_mut().zip(u.iter()) {
            *o ^= x;
        }
    }
    out
}

fn b64(d: &[u8]) -> String {
    base64::engine::general_purpose::STANDARD.encode(d)
}
fn unb64(s: &str) -> Option<Vec<u8>> {
    base64::engine::general_purpose::STANDARD.decode(s).ok()
}

fn attr<'a>(msg: &'a str, key: char) -> Option<&'a str> {
    msg.split(',').find_map(|p| {
        let mut it = p.chars();
        if it.next() == Some(key) && it.next() == Some('=') {
            Some(&p[2..])
        } else {
            None
        }
    })
}

struct Proofs {
    client_proof: Vec<u8>,
    server_signature: Vec<u8>,
}

fn scram_proofs(m: Mech, password: &str, salt: &[u8], iterations: u32, auth_message: &str) -> Proofs {
    let salted = hi(m, password.as_bytes(), salt, iterations);
    let client_key = hmac(m, &salted, b"Client Key");
    let stored_key = h(m, &client_key);
    let server_key = hmac(m, &salted, b"Server Key");
    let client_sig = hmac(m, &stored_key, auth_message.as_bytes());
    let client_proof: Vec<u8> = client_key.iter().zip(client_sig.iter()).map(|(a, b)| a ^ b).collect();
    let server_signature = hmac(m, &server_key, auth_message.as_bytes());
    Proofs { client_proof, server_signature }
}

// ---- SASL frames
const SASL_MECHANISMS: u64 = 0x40;
const SASL_INIT: u64 = 0x41;
const SASL_CHALLENGE: u64 = 0x42;
const SASL_RESPONSE: u64 = 0x43;
const SASL_OUTCOME: u64 = 0x44;

fn sasl_init(mech: &str, response: Option<Vec<u8>>) -> V {
    refcodec::described(SASL_INIT, refcodec::trim_nulls(vec![V::Sym(mech.into()), response.map(V::Bin).unwrap_or(V::Null)]))
}
fn sasl_response(r: Vec<u8>) -> V {
    refcodec::described(SASL_RESPONSE, vec![V::Bin(r)])
}
fn sasl_challenge(r: Vec<u8>) -> V {
    refcodec::described(SASL_CHALLENGE, vec![V::Bin(r)])
}
fn sasl_outcome(code: u8, data: Option<Vec<u8>>) -> V {
    refcodec::described(SASL_OUTCOME, refcodec::trim_nulls(vec![V::Ubyte(code), data.map(V::Bin).unwrap_or(V::Null)]))
}
fn sasl_mechanisms(names: &[&str]) -> V {
    refcodec::described(SASL_MECHANISMS, vec![V::Array(names.iter().map(|n| V::Sym(n.to_string())).collect())])
}

fn bin_of(v: &V) -> Option<Vec<u8>> {
    match v {
        V::Bin(b) => Some(b.clone()),
        _ => None,
    }
}

/// Next SASL frame from the endpoint: (descriptor code, performative)
async fn next_sasl(peer: &mut Peer, ms: u64) -> Option<(u64, V)> {
    loop {
        match peer.recv_within(ms).await {
            Some(Item::Frame(f)) => {
                if let Some(p) = f.perf {
                    return Some((f.code, p));
                }
            }
            Some(Item::Header(_)) => {}
            None => return None,
        }
    }
}

fn listener_for(mech: Mech) -> ListenerKind {
    match mech {
        Mech::Plain => ListenerKind::Plain(ConnectionAcceptor::builder().container_id("sasl-listener").sasl_acceptor(SaslPlainMechanism::new(USER, PASS)).build()),
        m => {
            let v = match m {
                Mech::Sha1 => ScramVersion::Sha1,
                Mech::Sha256 => ScramVersion::Sha256,
                _ => ScramVersion::Sha512,
            };
            let cred = SingleScramCredential::new(USER, PASS, v).expect("credential");
            ListenerKind::Scram(ConnectionAcceptor::builder().container_id("sasl-listener").sasl_acceptor(ScramAuthenticator::new(Arc::new(cred))).build())
        }
    }
}

enum ListenerKind {
    Plain(ConnectionAcceptor<(), SaslPlainMechanism>),
    Scram(ConnectionAcceptor<(), ScramAuthenticator<Arc<SingleScramCredential>>>),
}

impl ListenerKind {
    async fn accept(&self, s: SimStream) -> Result<fe2o3_amqp::acceptor::ListenerConnectionHandle, String> {
        match self {
            ListenerKind::Plain(a) => a.accept(s).await.map_err(|e| format!("{:?}", e)),
            ListenerKind::Scram(a) => a.accept(s).await.map_err(|e| format!("{:?}", e)),
        }
    }
}

// ---------------------------------------------------------------------------------------
// (a) scripted client against the real listener

#[derive(Clone, Copy, Debug, PartialEq)]
enum ClientAct {
    Honest,
    WrongPassword,
    WrongUser,
    NoInitialResponse,
    MalformedResponse,
    ResponseBeforeInit,
    ServerFramesFromClient,
    AmqpHeaderInsteadOfSasl,
    AmqpFrameDuringSasl,
    PrematureAmqpHeader,
    OtherMechanismName,
    // SCRAM only
    TamperedProof,
    ProofOverOtherNonce,
    MissingProof,
    NonceNotEchoed,
    SecondResponseAfterFailure,
    EmptyResponse,
    /// a client-final message that is not one: only a proof, only fragments, separators
    GarbledFinalMessage,
    /// a SASL frame without a body (8 bytes, type 1) where the init or the response is due,
    /// followed by the AMQP header and an open as if the SASL layer were over
    BodylessSaslFrame,
}

fn wrong_password() -> String {
    match choice(6) {
        0 => PASS[..PASS.len() - 1].to_string(),
        1 => format!("{}x", PASS),
        2 => String::new(),
        3 => PASS.to_uppercase(),
        4 => {
            let mut b = PASS.as_bytes().to_vec();
            let i = choice(b.len() as u32) as usize;
            b[i] ^= 1;
            String::from_utf8_lossy(&b).to_string()
        }
        _ => "password".to_string(),
    }
}

pub async fn run_scripted_client() {
    let mech = pick(&[Mech::Plain, Mech::Sha1, Mech::Sha256, Mech::Sha512]);
    let scram = mech != Mech::Plain;
    let acts: &[ClientAct] = if scram {
        &[
            ClientAct::Honest,
            ClientAct::WrongPassword,
            ClientAct::WrongUser,
            ClientAct::NoInitialResponse,
            ClientAct::MalformedResponse,
            ClientAct::ResponseBeforeInit,
            ClientAct::ServerFramesFromClient,
            ClientAct::AmqpHeaderInsteadOfSasl,
            ClientAct::AmqpFrameDuringSasl,
            ClientAct::PrematureAmqpHeader,
            ClientAct::OtherMechanismName,
            ClientAct::TamperedProof,
            ClientAct::ProofOverOtherNonce,
            ClientAct::MissingProof,
            ClientAct::NonceNotEchoed,
            ClientAct::SecondResponseAfterFailure,
            ClientAct::EmptyResponse,
            ClientAct::GarbledFinalMessage,
            ClientAct::BodylessSaslFrame,
        ]
    } else {
        &[
            ClientAct::Honest,
            ClientAct::WrongPassword,
            ClientAct::WrongUser,
            ClientAct::NoInitialResponse,
            ClientAct::MalformedResponse,
            ClientAct::ResponseBeforeInit,
            ClientAct::ServerFramesFromClient,
            ClientAct::AmqpHeaderInsteadOfSasl,
            ClientAct::AmqpFrameDuringSasl,
            ClientAct::PrematureAmqpHeader,
            ClientAct::EmptyResponse,
            ClientAct::BodylessSaslFrame,
        ]
    };
    let act = pick(acts);
    let (nab, nba, nd) = world::draw_net(false);
    sim::set_config(format!("variant=scripted-client listener-mechanism={} client={:?} {}", mech.name(), act, nd));
    sim::mark_nontrivial();
    sim::set_panic_is_violation(true);
    let (ps, ls, net) = SimStream::pair("peer", "listener", nab, nba);
    let mon = wire::install(&net, ["peer", "listener"], [Models::none(), Models::none()]);
    let mut peer = Peer::new("peer", ps);
    let listener = listener_for(mech);
    let accept_fut = sim::in_group(2, async { listener.accept(ls).await });
    // the client script; returns (authenticated according to the harness, saw outcome ok)
    let script = async {
        let mut saw_ok = false;
        // every path below that does not complete a valid exchange leaves this false
        let mut valid_exchange = false;
        if act == ClientAct::AmqpHeaderInsteadOfSasl {
            peer.send_header(AMQP_HEADER).await;
            peer.send(0, &peer::open("skipper", None, None, None)).await;
            let _ = peer.drain_for(2000).await;
            peer.shutdown().await;
            return (valid_exchange, saw_ok);
        }
        peer.send_header(SASL_HEADER).await;
        if peer.expect_header().await != Some(SASL_HEADER) {
            peer.shutdown().await;
            return (valid_exchange, saw_ok);
        }
        let mechs = next_sasl(&mut peer, 60_000).await;
        if mechs.as_ref().map(|m| m.0) != Some(SASL_MECHANISMS) {
            peer.shutdown().await;
            return (valid_exchange, saw_ok);
        }
        if act == ClientAct::BodylessSaslFrame {
            if scram && choice(2) == 1 {
                // a genuine init first: the frame without a body takes the place of the response
                let cnonce: String = (0..18).map(|_| (b'a' + choice(26) as u8) as char).collect();
                peer.send_sasl(&sasl_init(mech.name(), Some(format!("n,,n={},r={}", USER, cnonce).into_bytes()))).await;
                let _ = next_sasl(&mut peer, 60_000).await;
            }
            for _ in 0..(1 + choice(2)) {
                peer.send_raw(&peer::frame_bytes(1, 0, &[])).await;
            }
            sim::fault("sasl-frame-without-body");
            peer.send_header(AMQP_HEADER).await;
            peer.send(0, &peer::open("intruder", None, None, None)).await;
            for f in peer.drain_for(2000).await {
                if f.code == SASL_OUTCOME && f.perf.as_ref().map(|p| p.field(0).as_u32() == Some(0)).unwrap_or(false) {
                    saw_ok = true;
                }
            }
            peer.shutdown().await;
            return (valid_exchange, saw_ok);
        }
        let user = if act == ClientAct::WrongUser { pick(&["alic", "alicee", "Alice", "", "bob"]) } else { USER };
        let pass = if matches!(act, ClientAct::WrongPassword | ClientAct::SecondResponseAfterFailure) { wrong_password() } else { PASS.to_string() };
        match act {
            ClientAct::ResponseBeforeInit => {
                peer.send_sasl(&sasl_response(format!("\0{}\0{}", USER, PASS).into_bytes())).await;
            }
            ClientAct::ServerFramesFromClient => {
                let v = match choice(3) {
                    0 => sasl_mechanisms(&["PLAIN"]),
                    1 => sasl_challenge(b"r=abc,s=c2FsdA==,i=1".to_vec()),
                    _ => sasl_outcome(0, None),
                };
                peer.send_sasl(&v).await;
            }
            ClientAct::AmqpFrameDuringSasl => {
                peer.send(0, &peer::open("early", None, None, None)).await;
            }
            _ => {}
        }
        if matches!(act, ClientAct::ResponseBeforeInit | ClientAct::ServerFramesFromClient | ClientAct::AmqpFrameDuringSasl) {
            // and then carry on as if nothing had happened, with the right credentials
        }
        if !scram {
            let response = match act {
                ClientAct::NoInitialResponse => None,
                ClientAct::MalformedResponse => Some(
                    match choice(4) {
                        0 => format!("{}{}", USER, PASS),
                        1 => format!("\0{}{}", USER, PASS),
                        2 => format!("{}\0{}", USER, PASS),
                        _ => format!("\0{}\0", USER),
                    }
                    .into_bytes(),
                ),
                ClientAct::EmptyResponse => Some(Vec::new()),
                _ => Some(format!("\0{}\0{}", user, pass).into_bytes()),
            };
            let honest_bytes = format!("\0{}\0{}", USER, PASS).into_bytes();
            // the listener answers the first SASL frame it gets: the exchange is valid only if
            // that frame is this init and it carries exactly the configured credentials
            let first_frame_is_this_init = !matches!(act, ClientAct::ResponseBeforeInit | ClientAct::ServerFramesFromClient | ClientAct::AmqpFrameDuringSasl);
            valid_exchange = first_frame_is_this_init && response.as_deref() == Some(&honest_bytes[..]);
            peer.send_sasl(&sasl_init("PLAIN", response)).await;
            if act == ClientAct::PrematureAmqpHeader {
                peer.send_header(AMQP_HEADER).await;
                peer.send(0, &peer::open("premature", None, None, None)).await;
            }
        } else {
            // SCRAM
            let cnonce: String = (0..18).map(|_| (b'a' + choice(26) as u8) as char).collect();
            let bare = format!("n={},r={}", user, cnonce);
            let first = format!("n,,{}", bare);
            let mech_name = if act == ClientAct::OtherMechanismName { pick(&["PLAIN", "SCRAM-SHA-224", "ANONYMOUS", ""]) } else { mech.name() };
            let init_resp = match act {
                ClientAct::NoInitialResponse => None,
                ClientAct::MalformedResponse => Some(pick(&["n,,", "r=abc", "n,,n=,r=", "y,,n=alice", "\0alice\0correct horse"]).as_bytes().to_vec()),
                ClientAct::EmptyResponse => Some(Vec::new()),
                _ => Some(first.clone().into_bytes()),
            };
            peer.send_sasl(&sasl_init(mech_name, init_resp)).await;
            if act == ClientAct::PrematureAmqpHeader {
                peer.send_header(AMQP_HEADER).await;
                peer.send(0, &peer::open("premature", None, None, None)).await;
            }
            match next_sasl(&mut peer, 60_000).await {
                Some((SASL_CHALLENGE, ch)) => {
                    let server_first = String::from_utf8_lossy(&bin_of(ch.field(0)).unwrap_or_default()).to_string();
                    let nonce = attr(&server_first, 'r').unwrap_or("").to_string();
                    let salt = attr(&server_first, 's').and_then(unb64).unwrap_or_default();
                    let iters: u32 = attr(&server_first, 'i').and_then(|s| s.parse().ok()).unwrap_or(1);
                    if !nonce.starts_with(&cnonce) || nonce.len() <= cnonce.len() {
                        sim::violation("server-nonce", format!("the listener's challenge nonce {:?} does not extend the client's {:?}", nonce, cnonce));
                    }
                    let used_nonce = match act {
                        ClientAct::NonceNotEchoed => format!("{}x", nonce),
                        _ => nonce.clone(),
                    };
                    let without_proof = format!("c=biws,r={}", used_nonce);
                    let auth_nonce = if act == ClientAct::ProofOverOtherNonce { format!("{}y", nonce) } else { used_nonce.clone() };
                    let auth_message = format!("{},{},c=biws,r={}", bare, server_first, auth_nonce);
                    let mut proofs = scram_proofs(mech, &pass, &salt, iters.min(100_000), &auth_message);
                    if act == ClientAct::TamperedProof {
                        let i = choice(proofs.client_proof.len() as u32) as usize;
                        proofs.client_proof[i] ^= 1 << choice(8);
                    }
                    let final_msg = match act {
                        ClientAct::MissingProof => without_proof.clone(),
                        ClientAct::EmptyResponse => String::new(),
                        ClientAct::GarbledFinalMessage => pick(&["p=AAAA", "p=", "p", ",p=AAAA", "c=biws", "r=", ",,,", "c=biws,p=AAAA", "=", "p=AAAA,c=biws,r=x", "c=,r=,p="]).to_string(),
                        _ => format!("{},p={}", without_proof, b64(&proofs.client_proof)),
                    };
                    let honest = matches!(act, ClientAct::Honest);
                    peer.send_sasl(&sasl_response(final_msg.into_bytes())).await;
                    match next_sasl(&mut peer, 60_000).await {
                        Some((SASL_OUTCOME, o)) => {
                            let code = o.field(0).as_u32().unwrap_or(99);
                            if code == 0 {
                                saw_ok = true;
                                // SCRAM is mutual: the listener proves it knows the password
                                let data = bin_of(o.field(1)).map(|b| String::from_utf8_lossy(&b).to_string()).unwrap_or_default();
                                let sig = attr(&data, 'v').and_then(unb64);
                                if honest && sig.as_deref() != Some(&proofs.server_signature[..]) {
                                    sim::violation("server-signature", format!("the listener's outcome carries {:?}, which is not the server signature over the exchange", data));
                                }
                                valid_exchange = honest;
                            } else if act == ClientAct::SecondResponseAfterFailure || act == ClientAct::WrongPassword {
                                // try again on the same connection with the right proof
                                let good = scram_proofs(mech, PASS, &salt, iters.min(100_000), &auth_message);
                                peer.send_sasl(&sasl_response(format!("{},p={}", without_proof, b64(&good.client_proof)).into_bytes())).await;
                                if let Some((SASL_OUTCOME, o2)) = next_sasl(&mut peer, 3000).await {
                                    if o2.field(0).as_u32() == Some(0) {
                                        saw_ok = true;
                                    }
                                }
                            }
                        }
                        _ => {}
                    }
                }
                Some((SASL_OUTCOME, o)) => {
                    if o.field(0).as_u32() == Some(0) {
                        saw_ok = true;
                    }
                }
                _ => {}
            }
            // what follows SASL, if the listener said ok
            if saw_ok {
                peer.send_header(AMQP_HEADER).await;
                peer.send(0, &peer::open("scripted", None, None, None)).await;
                let _ = peer.expect_header().await;
                let _ = peer.expect(wire::OPEN).await;
            }
            return (valid_exchange, saw_ok);
        }
        // PLAIN: outcome
        if let Some((SASL_OUTCOME, o)) = next_sasl(&mut peer, 60_000).await {
            if o.field(0).as_u32() == Some(0) {
                saw_ok = true;
            }
        }
        if saw_ok {
            peer.send_header(AMQP_HEADER).await;
            peer.send(0, &peer::open("scripted", None, None, None)).await;
            let _ = peer.expect_header().await;
            let _ = peer.expect(wire::OPEN).await;
        } else {
            let _ = peer.drain_for(1000).await;
        }
        (valid_exchange, saw_ok)
    };
    let (accepted, (valid, saw_ok)) = match sim::op("sasl negotiation", world::join2(accept_fut, script)).await {
        Some(x) => x,
        None => return,
    };
    if sim::has_violation() {
        return;
    }
    // ---- soundness: no connection without a valid exchange; failure on both sides
    mon.borrow_mut().sync();
    let wrote_amqp_open = mon.borrow().ends[1].open.is_some();
    if accepted.is_ok() && !valid {
        sim::violation("accepted-without-authentication", format!("client behaviour {:?} against {}: ConnectionAcceptor::accept returned a connection", act, mech.name()));
        return;
    }
    if saw_ok && !valid {
        sim::violation("outcome-ok-without-authentication", format!("client behaviour {:?} against {}: the listener sent outcome ok", act, mech.name()));
        return;
    }
    if wrote_amqp_open && !valid {
        sim::violation("amqp-open-without-authentication", format!("client behaviour {:?} against {}: the listener wrote an AMQP open", act, mech.name()));
        return;
    }
    if valid {
        // completeness for the honest client (positive control)
        match &accepted {
            Ok(_) => sim::probe("honest-client-accepted"),
            Err(e) => {
                sim::violation("honest-client-refused", format!("a client that completed the {} exchange with the configured credentials was refused: {}", mech.name(), e));
                return;
            }
        }
    } else {
        sim::probe("dishonest-client-refused");
    }
    if let Ok(mut h) = accepted {
        peer.send(0, &peer::close(None)).await;
        let _ = tokio::time::timeout(std::time::Duration::from_secs(30), h.on_close()).await;
    }
}

// ---------------------------------------------------------------------------------------
// (b) real client against a scripted server

#[derive(Clone, Copy, Debug, PartialEq)]
enum ServerAct {
    Honest,
    OutcomeNotOk(u8),
    NonceNotExtended,
    WrongSignature,
    SignatureWithOtherPassword,
    SignatureOverOtherSalt,
    NoAdditionalData,
    OkBeforeChallenge,
    ExtraChallenge,
    BadIterationCount,
    MechanismNotOffered,
    GarbageChallenge,
    /// the right signature cut short (down to nothing): not a proof
    TruncatedSignature,
    /// a signature with bytes appended
    OverlongSignature,
}

pub async fn run_scripted_server() {
    let mech = pick(&[Mech::Plain, Mech::Sha1, Mech::Sha256, Mech::Sha512]);
    let scram = mech != Mech::Plain;
    let act = if scram {
        match choice(16) {
            0 | 1 => ServerAct::Honest,
            2 => ServerAct::OutcomeNotOk(1 + choice(4) as u8),
            3 => ServerAct::NonceNotExtended,
            4 => ServerAct::WrongSignature,
            5 => ServerAct::SignatureWithOtherPassword,
            6 => ServerAct::SignatureOverOtherSalt,
            7 => ServerAct::NoAdditionalData,
            8 => ServerAct::OkBeforeChallenge,
            9 => ServerAct::ExtraChallenge,
            10 => ServerAct::BadIterationCount,
            11 => ServerAct::MechanismNotOffered,
            12 => ServerAct::GarbageChallenge,
            13 => ServerAct::TruncatedSignature,
            14 => ServerAct::OverlongSignature,
            _ => ServerAct::OutcomeNotOk(pick(&[5u8, 99, 255])),
        }
    } else {
        match choice(4) {
            0 => ServerAct::Honest,
            1 => ServerAct::OutcomeNotOk(1 + choice(4) as u8),
            2 => ServerAct::MechanismNotOffered,
            _ => ServerAct::ExtraChallenge,
        }
    };
    let (nab, nba, nd) = world::draw_net(false);
    sim::set_config(format!("variant=scripted-server client-mechanism={} server={:?} {}", mech.name(), act, nd));
    sim::mark_nontrivial();
    sim::set_panic_is_violation(true);
    let (cs, ps, _net) = SimStream::pair("client", "peer", nab, nba);
    let mut peer = Peer::new("peer", ps);
    let profile: SaslProfile = match mech {
        Mech::Plain => SaslProfile::Plain { username: USER.into(), password: PASS.into() },
        Mech::Sha1 => SaslScramSha1::new(USER, PASS).into(),
        Mech::Sha256 => SaslScramSha256::new(USER, PASS).into(),
        Mech::Sha512 => SaslScramSha512::new(USER, PASS).into(),
    };
    let open_fut = sim::in_group(1, Connection::builder().container_id("sasl-client").sasl_profile(profile).open_with_stream(cs));
    // returns true if the server proved itself and said ok
    let script = async {
        let mut proved = false;
        if peer.expect_header().await != Some(SASL_HEADER) {
            return proved;
        }
        peer.send_header(SASL_HEADER).await;
        let offered: Vec<&str> = if act == ServerAct::MechanismNotOffered { vec!["EXTERNAL", "GSSAPI"] } else { vec!["ANONYMOUS", mech.name()] };
        peer.send_sasl(&sasl_mechanisms(&offered)).await;
        let init = match next_sasl(&mut peer, 60_000).await {
            Some((SASL_INIT, i)) => i,
            _ => return proved,
        };
        if !scram {
            match act {
                ServerAct::Honest => {
                    let want = format!("\0{}\0{}", USER, PASS).into_bytes();
                    if bin_of(init.field(1)) != Some(want) {
                        sim::violation("plain-initial-response", format!("the PLAIN initial response is {:?}", init.field(1)));
                    }
                    peer.send_sasl(&sasl_outcome(0, None)).await;
                    proved = true;
                }
                ServerAct::OutcomeNotOk(c) => {
                    peer.send_sasl(&sasl_outcome(c, None)).await;
                }
                ServerAct::ExtraChallenge => {
                    peer.send_sasl(&sasl_challenge(b"more?".to_vec())).await;
                    let _ = next_sasl(&mut peer, 2000).await;
                    peer.send_sasl(&sasl_outcome(pick(&[1u8, 2, 3, 4]), None)).await;
                }
                _ => {}
            }
        } else {
            let client_first = String::from_utf8_lossy(&bin_of(init.field(1)).unwrap_or_default()).to_string();
            let bare = client_first.splitn(3, ',').nth(2).unwrap_or("").to_string();
            let cnonce = attr(&bare, 'r').unwrap_or("").to_string();
            if act == ServerAct::OkBeforeChallenge {
                // with a made-up verifier, an empty one, or none at all
                let data: Option<Vec<u8>> = match choice(5) {
                    0 => Some(b"v=AAAA".to_vec()),
                    1 | 2 => Some(b"v=".to_vec()),
                    3 => Some(Vec::new()),
                    _ => None,
                };
                peer.send_sasl(&sasl_outcome(0, data)).await;
            } else {
                let salt: Vec<u8> = (0..16).map(|_| choice(256) as u8).collect();
                let iters = 64u32; // the server chooses; small keeps the run cheap
                let snonce = if act == ServerAct::NonceNotExtended {
                    // not an extension of the client's nonce: same length with another tail, longer with
                    // one character of the client's part changed, longer and unrelated, shorter. (The
                    // signature below is computed honestly over the exchange as it took place, so that
                    // the nonce is the only thing wrong.)
                    match choice(4) {
                        0 => format!("{}zz", &cnonce[..cnonce.len().saturating_sub(2)]),
                        1 => {
                            let mut b = cnonce.clone().into_bytes();
                            if !b.is_empty() {
                                let i = choice(b.len() as u32) as usize;
                                b[i] = if b[i] == b'q' { b'r' } else { b'q' };
                            }
                            format!("{}srv{}", String::from_utf8_lossy(&b), choice(1000))
                        }
                        2 => format!("{}srv{}", "x".repeat(cnonce.len()), choice(1000)),
                        _ => cnonce[..cnonce.len() / 2].to_string(),
                    }
                } else {
                    format!("{}srv{}", cnonce, choice(1000))
                };
                let iter_field = if act == ServerAct::BadIterationCount { pick(&["0", "-5", "abc", "", "99999999999"]).to_string() } else { iters.to_string() };
                let server_first = if act == ServerAct::GarbageChallenge { pick(&["", "r=", "s=###,i=1", "\u{0}\u{0}", "m=ext,r=x,s=YQ==,i=1"]).to_string() } else { format!("r={},s={},i={}", snonce, b64(&salt), iter_field) };
                peer.send_sasl(&sasl_challenge(server_first.clone().into_bytes())).await;
                match next_sasl(&mut peer, 60_000).await {
                    Some((SASL_RESPONSE, r)) => {
                        let client_final = String::from_utf8_lossy(&bin_of(r.field(0)).unwrap_or_default()).to_string();
                        let without_proof = client_final.rsplitn(2, ",p=").nth(1).unwrap_or("").to_string();
                        let auth_message = format!("{},{},{}", bare, server_first, without_proof);
                        let good = scram_proofs(mech, PASS, &salt, iters, &auth_message);
                        // the client's proof must be the right one
                        if matches!(act, ServerAct::Honest | ServerAct::WrongSignature | ServerAct::NoAdditionalData | ServerAct::OutcomeNotOk(_) | ServerAct::ExtraChallenge) {
                            let p = attr(&client_final, 'p').and_then(unb64);
                            if p.as_deref() != Some(&good.client_proof[..]) {
                                sim::violation("client-proof", format!("the client's final message {:?} does not carry the proof for the configured password", client_final));
                            }
                        }
                        let sig = match act {
                            ServerAct::WrongSignature => {
                                let mut s = good.server_signature.clone();
                                let i = choice(s.len() as u32) as usize;
                                s[i] ^= 1 << choice(8);
                                s
                            }
                            ServerAct::SignatureWithOtherPassword => scram_proofs(mech, "guess", &salt, iters, &auth_message).server_signature,
                            ServerAct::SignatureOverOtherSalt => scram_proofs(mech, PASS, b"another salt", iters, &auth_message).server_signature,
                            ServerAct::TruncatedSignature => {
                                let n = pick(&[0usize, 0, 1, good.server_signature.len() / 2, good.server_signature.len() - 1]);
                                good.server_signature[..n].to_vec()
                            }
                            ServerAct::OverlongSignature => {
                                let mut s = good.server_signature.clone();
                                s.extend_from_slice(&[0u8; 3][..1 + choice(3) as usize]);
                                s
                            }
                            _ => good.server_signature.clone(),
                        };
                        let data = format!("v={}", b64(&sig)).into_bytes();
                        match act {
                            ServerAct::Honest => {
                                peer.send_sasl(&sasl_outcome(0, Some(data))).await;
                                proved = true;
                            }
                            ServerAct::OutcomeNotOk(c) => {
                                peer.send_sasl(&sasl_outcome(c, Some(data))).await;
                            }
                            ServerAct::NoAdditionalData => {
                                peer.send_sasl(&sasl_outcome(0, None)).await;
                            }
                            ServerAct::ExtraChallenge => {
                                peer.send_sasl(&sasl_challenge(data.clone())).await;
                                let _ = next_sasl(&mut peer, 2000).await;
                                peer.send_sasl(&sasl_outcome(0, None)).await;
                            }
                            _ => {
                                // dishonest signatures, a nonce that was not extended, a bad iteration count:
                                // say ok with whatever signature came out
                                peer.send_sasl(&sasl_outcome(0, Some(data))).await;
                            }
                        }
                    }
                    _ => return proved,
                }
            }
        }
        // the AMQP layer, as a server that believes the exchange succeeded
        if peer.expect_header().await == Some(AMQP_HEADER) {
            peer.send_header(AMQP_HEADER).await;
            if peer.expect(wire::OPEN).await.is_some() {
                peer.send(0, &peer::open("scripted-server", None, None, None)).await;
            }
        }
        proved
    };
    let (opened, proved) = match sim::op("sasl negotiation", world::join2(open_fut, script)).await {
        Some(x) => x,
        None => return,
    };
    if sim::has_violation() {
        return;
    }
    match (&opened, proved) {
        (Ok(_), false) => {
            sim::violation(
                "client-proceeded-without-server-proof",
                format!("server behaviour {:?} with {}: the client opened the connection", act, mech.name()),
            );
            return;
        }
        (Err(e), true) => {
            sim::violation("honest-server-refused", format!("an honest {} server was refused by the client: {:?}", mech.name(), e));
            return;
        }
        (Ok(_), true) => sim::probe("honest-server-accepted"),
        (Err(_), false) => sim::probe("dishonest-server-refused"),
    }
    if let Ok(mut c) = opened {
        let td = async {
            let _ = peer.expect(wire::CLOSE).await;
            peer.send(0, &peer::close(None)).await;
        };
        let _ = world::join2(tokio::time::timeout(std::time::Duration::from_secs(30), c.close()), td).await;
    }
}

// ---------------------------------------------------------------------------------------
// (c) real client against the real listener

pub async fn run_pair() {
    let lmech = pick(&[Mech::Plain, Mech::Sha1, Mech::Sha256, Mech::Sha512]);
    let cmech = if choice(4) == 0 { pick(&[Mech::Plain, Mech::Sha1, Mech::Sha256, Mech::Sha512]) } else { lmech };
    let user_ok = choice(4) != 0;
    let pass_ok = choice(3) != 0;
    let no_sasl = choice(10) == 0;
    let user = if user_ok { USER.to_string() } else { pick(&["alic", "alicee", "Alice", "bob"]).to_string() };
    let pass = if pass_ok { PASS.to_string() } else { wrong_password() };
    let (nab, nba, nd) = world::draw_net(false);
    sim::set_config(format!("variant=pair listener={} client={} user-ok={} pass-ok={} client-skips-sasl={} {}", lmech.name(), cmech.name(), user_ok, pass_ok, no_sasl, nd));
    sim::mark_nontrivial();
    sim::set_panic_is_violation(true);
    let (cs, ls, _net) = SimStream::pair("client", "listener", nab, nba);
    let listener = listener_for(lmech);
    let profile: SaslProfile = match cmech {
        Mech::Plain => SaslProfile::Plain { username: user.clone(), password: pass.clone() },
        Mech::Sha1 => SaslScramSha1::new(user.clone(), pass.clone()).into(),
        Mech::Sha256 => SaslScramSha256::new(user.clone(), pass.clone()).into(),
        Mech::Sha512 => SaslScramSha512::new(user.clone(), pass.clone()).into(),
    };
    let accept_fut = sim::in_group(2, async { listener.accept(ls).await });
    let open_fut = sim::in_group(1, async {
        if no_sasl {
            Connection::builder().container_id("c").open_with_stream(cs).await
        } else {
            Connection::builder().container_id("c").sasl_profile(profile).open_with_stream(cs).await
        }
    });
    let (accepted, opened) = match sim::op("sasl pair", world::join2(accept_fut, open_fut)).await {
        Some(x) => x,
        None => return,
    };
    let should = user_ok && pass_ok && cmech == lmech && !no_sasl;
    match (should, accepted.is_ok(), opened.is_ok()) {
        (true, true, true) => sim::probe("valid-credentials-connected"),
        (false, false, false) => sim::probe("invalid-credentials-refused-on-both-sides"),
        (true, a, o) => {
            sim::violation("valid-credentials-refused", format!("equal credentials and mechanism {}: listener accepted={} client opened={} ({:?} / {:?})", lmech.name(), a, o, accepted.as_ref().err(), opened.as_ref().err()));
            return;
        }
        (false, a, o) => {
            sim::violation(
                "connected-without-authentication",
                format!("listener {} vs client {} (user ok {}, password ok {}, sasl skipped {}): listener accepted={} client opened={}", lmech.name(), cmech.name(), user_ok, pass_ok, no_sasl, a, o),
            );
            return;
        }
    }
    if let (Ok(mut l), Ok(mut c)) = (accepted, opened) {
        let _ = world::join2(tokio::time::timeout(std::time::Duration::from_secs(30), c.close()), tokio::time::timeout(std::time::Duration::from_secs(30), l.on_close())).await;
    }
}

// ---------------------------------------------------------------------------------------
// (d) a client that does not wait: SASL header, sasl-init (PLAIN), AMQP header and open leave
// in one write, and the simulated network cuts that byte stream wherever it likes. The listener
// reads SASL frames and AMQP frames from the same stream and must not lose a byte at the
// switch from one layer to the other. (Also registered under C06: incoming frames are decoded
// identically no matter how the byte stream is split across reads.)

pub async fn run_pipelined_client() {
    let honest = choice(4) != 0;
    let with_begin = choice(2) == 1;
    let (nab, nba, nd) = world::draw_net(true);
    sim::set_config(format!("variant=pipelined-client listener-mechanism=PLAIN honest={} begin-pipelined-too={} {}", honest, with_begin, nd));
    sim::mark_nontrivial();
    sim::set_panic_is_violation(true);
    let (ps, ls, net) = SimStream::pair("peer", "listener", nab, nba);
    let _mon = wire::install(&net, ["peer", "listener"], [Models::none(), Models::none()]);
    let mut peer = Peer::new("peer", ps);
    let listener = listener_for(Mech::Plain);
    let accept_fut = sim::in_group(2, async { listener.accept(ls).await });
    let pass = if honest { PASS.to_string() } else { wrong_password() };
    let script = async {
        let mut bytes = SASL_HEADER.to_vec();
        let init = sasl_init("PLAIN", Some(format!("\0{}\0{}", USER, pass).into_bytes()));
        bytes.extend_from_slice(&peer::frame_bytes(1, 0, &crate::refcodec::encode(&init)));
        bytes.extend_from_slice(&AMQP_HEADER);
        bytes.extend_from_slice(&peer::perf_frame(0, &peer::open("eager", Some(65536), Some(255), None), &[]));
        if with_begin {
            bytes.extend_from_slice(&peer::perf_frame(0, &peer::begin(None, 0, 100, 100), &[]));
        }
        sim::fault("sasl-and-amqp-in-one-write");
        peer.send_raw(&bytes).await;
        // what the listener writes, in order
        let mut seen: Vec<String> = Vec::new();
        let mut outcome_code = None;
        let mut amqp_open = false;
        loop {
            match peer.recv_within(300_000).await {
                Some(Item::Header(h)) => seen.push(format!("header{:?}", &h[4..])),
                Some(Item::Frame(f)) => {
                    seen.push(format!("frame{:#x}", f.code));
                    if f.code == SASL_OUTCOME {
                        outcome_code = f.perf.as_ref().and_then(|p| p.field(0).as_u32());
                    }
                    if f.code == wire::OPEN {
                        amqp_open = true;
                        break;
                    }
                    if f.code == wire::CLOSE {
                        break;
                    }
                }
                None => break,
            }
        }
        if amqp_open {
            peer.send(0, &peer::close(None)).await;
            let _ = peer.drain_for(2000).await;
        }
        peer.shutdown().await;
        (seen, outcome_code, amqp_open)
    };
    let (accepted, (seen, outcome_code, amqp_open)) = match sim::op("pipelined sasl and open", world::join2(accept_fut, script)).await {
        Some(x) => x,
        None => return,
    };
    if honest {
        if outcome_code != Some(0) {
            sim::violation("valid-credentials-refused", format!("valid PLAIN credentials sent in one write with the AMQP header and open: outcome {:?}; the listener wrote {:?}; accept: {:?}", outcome_code, seen, accepted.as_ref().map(|_| ())));
            return;
        }
        if !amqp_open || accepted.is_err() {
            sim::violation(
                "bytes-lost-at-layer-switch",
                format!(
                    "the client sent SASL header, sasl-init, AMQP header and open in one write; after outcome ok the listener wrote {:?} and accept returned {:?}",
                    seen,
                    accepted.as_ref().map(|_| ())
                ),
            );
            return;
        }
        sim::probe("pipelined-open-accepted");
        if let Ok(mut h) = accepted {
            let _ = tokio::time::timeout(std::time::Duration::from_secs(30), h.on_close()).await;
        }
    } else {
        if outcome_code == Some(0) {
            sim::violation("outcome-ok-without-authentication", "a wrong password sent in one write with the AMQP header and open: the listener sent outcome ok".into());
            return;
        }
        if amqp_open || accepted.is_ok() {
            sim::violation("connection-without-authentication", format!("a wrong password, pipelined: the listener wrote {:?} and accept returned {:?}", seen, accepted.as_ref().map(|_| ())));
            return;
        }
        sim::probe("pipelined-wrong-password-refused");
    }
}

// ---------------------------------------------------------------------------------------
// (e) replay: a peer that has seen one successful SCRAM exchange on the wire (it knows neither
// the password nor the salted keys) sends the very same sasl-init and sasl-response to the same
// acceptor on a second connection. It has not completed an exchange with valid credentials: the
// listener's own contribution to the exchange (its nonce) is new, so the recorded proof is not
// a proof over this exchange.

pub async fn run_replay_client() {
    let mech = pick(&[Mech::Sha1, Mech::Sha256, Mech::Sha512]);
    let (nab, nba, nd) = world::draw_net(false);
    sim::set_config(format!("variant=replayed-exchange listener-mechanism={} {}", mech.name(), nd));
    sim::mark_nontrivial();
    sim::set_panic_is_violation(true);
    let listener = listener_for(mech);
    let cnonce: String = (0..18).map(|_| (b'a' + choice(26) as u8) as char).collect();
    let bare = format!("n={},r={}", USER, cnonce);
    let first = format!("n,,{}", bare);
    // ---- first connection: an honest exchange, recorded
    let (ps, ls, net) = SimStream::pair("peer", "listener", nab.clone(), nba.clone());
    let _mon = wire::install(&net, ["peer", "listener"], [Models::none(), Models::none()]);
    let mut peer = Peer::new("peer", ps);
    let accept1 = sim::in_group(2, async { listener.accept(ls).await });
    let script1 = async {
        peer.send_header(SASL_HEADER).await;
        peer.expect_header().await?;
        next_sasl(&mut peer, 60_000).await?;
        peer.send_sasl(&sasl_init(mech.name(), Some(first.clone().into_bytes()))).await;
        let (code, ch) = next_sasl(&mut peer, 60_000).await?;
        if code != SASL_CHALLENGE {
            return None;
        }
        let server_first = String::from_utf8_lossy(&bin_of(ch.field(0)).unwrap_or_default()).to_string();
        let nonce = attr(&server_first, 'r').unwrap_or("").to_string();
        let salt = attr(&server_first, 's').and_then(unb64).unwrap_or_default();
        let iters: u32 = attr(&server_first, 'i').and_then(|s| s.parse().ok()).unwrap_or(1);
        let without_proof = format!("c=biws,r={}", nonce);
        let auth_message = format!("{},{},{}", bare, server_first, without_proof);
        let proofs = scram_proofs(mech, PASS, &salt, iters.min(100_000), &auth_message);
        let final_msg = format!("{},p={}", without_proof, b64(&proofs.client_proof));
        peer.send_sasl(&sasl_response(final_msg.clone().into_bytes())).await;
        let (code, o) = next_sasl(&mut peer, 60_000).await?;
        if code != SASL_OUTCOME || o.field(0).as_u32() != Some(0) {
            return None;
        }
        peer.send_header(AMQP_HEADER).await;
        peer.send(0, &peer::open("honest", None, None, None)).await;
        peer.expect_header().await?;
        peer.expect(wire::OPEN).await?;
        peer.send(0, &peer::close(None)).await;
        let _ = peer.drain_for(1000).await;
        peer.shutdown().await;
        Some((nonce, final_msg))
    };
    let (a1, rec) = match sim::op("honest exchange", world::join2(accept1, script1)).await {
        Some(x) => x,
        None => return,
    };
    let (nonce1, final_msg) = match (a1, rec) {
        (Ok(mut h), Some(r)) => {
            let _ = tokio::time::timeout(std::time::Duration::from_secs(30), h.on_close()).await;
            r
        }
        (a, r) => {
            sim::violation("honest-client-refused", format!("the recorded honest exchange failed: accept {:?}, script completed {}", a.map(|_| ()), r.is_some()));
            return;
        }
    };
    // ---- second connection to the same acceptor: the recording, byte for byte
    sim::fault("recorded-exchange-replayed");
    let (ps2, ls2, net2) = SimStream::pair("peer", "listener", nab, nba);
    let _mon2 = wire::install(&net2, ["peer", "listener"], [Models::none(), Models::none()]);
    let mut peer2 = Peer::new("peer", ps2);
    let accept2 = sim::in_group(2, async { listener.accept(ls2).await });
    let script2 = async {
        let mut saw_ok = false;
        let mut nonce2 = String::new();
        peer2.send_header(SASL_HEADER).await;
        let _ = peer2.expect_header().await;
        let _ = next_sasl(&mut peer2, 60_000).await;
        peer2.send_sasl(&sasl_init(mech.name(), Some(first.clone().into_bytes()))).await;
        if let Some((SASL_CHALLENGE, ch)) = next_sasl(&mut peer2, 60_000).await {
            let server_first = String::from_utf8_lossy(&bin_of(ch.field(0)).unwrap_or_default()).to_string();
            nonce2 = attr(&server_first, 'r').unwrap_or("").to_string();
            peer2.send_sasl(&sasl_response(final_msg.clone().into_bytes())).await;
            if let Some((SASL_OUTCOME, o)) = next_sasl(&mut peer2, 60_000).await {
                saw_ok = o.field(0).as_u32() == Some(0);
            }
        }
        if saw_ok {
            peer2.send_header(AMQP_HEADER).await;
            peer2.send(0, &peer::open("replayer", None, None, None)).await;
            let _ = peer2.drain_for(2000).await;
        } else {
            let _ = peer2.drain_for(1000).await;
        }
        peer2.shutdown().await;
        (saw_ok, nonce2)
    };
    let (a2, (saw_ok, nonce2)) = match sim::op("replayed exchange", world::join2(accept2, script2)).await {
        Some(x) => x,
        None => return,
    };
    if saw_ok || a2.is_ok() {
        sim::violation(
            "replayed-exchange-accepted",
            format!(
                "a recorded sasl-init and sasl-response were replayed on a second connection by a peer that does not know the password: outcome ok={} accept={:?} (challenge nonce of the recorded exchange {:?}, of this one {:?})",
                saw_ok,
                a2.as_ref().map(|_| ()),
                nonce1,
                nonce2
            ),
        );
        return;
    }
    sim::probe("replayed-exchange-refused");
}

// ---------------------------------------------------------------------------------------
// (f) a credential store that changes under the exchange: the listener looks the user up when
// the sasl-init arrives and again when the response arrives; in between the account is removed.
// Whatever the client then sends - the right proof, a wrong one, junk - it has not completed an
// exchange with valid credentials.

struct VanishingUser {
    inner: SingleScramCredential,
    lookups: std::sync::atomic::AtomicU32,
    present_for: u32,
}

impl fe2o3_amqp::auth::scram::ScramCredentialProvider for VanishingUser {
    fn scram_version(&self) -> &ScramVersion {
        self.inner.scram_version()
    }
    fn get_stored_password<'a>(&'a self, username: &str) -> Option<fe2o3_amqp::auth::scram::StoredPassword<'a>> {
        let n = self.lookups.fetch_add(1, std::sync::atomic::Ordering::Relaxed);
        if n >= self.present_for {
            return None;
        }
        self.inner.get_stored_password(username)
    }
}

pub async fn run_vanishing_user() {
    use fe2o3_amqp::auth::scram::ScramCredentialProvider;
    let mech = pick(&[Mech::Sha1, Mech::Sha256, Mech::Sha512]);
    let v = match mech {
        Mech::Sha1 => ScramVersion::Sha1,
        Mech::Sha256 => ScramVersion::Sha256,
        _ => ScramVersion::Sha512,
    };
    // 0: never there; 1: there for the init only
    let present_for = pick(&[1u32, 1, 0]);
    let proof_kind = choice(3); // 0 right proof, 1 wrong proof, 2 no proof
    let (nab, nba, nd) = world::draw_net(false);
    sim::set_config(format!("variant=vanishing-user listener-mechanism={} user-present-for-lookups={} proof={} {}", mech.name(), present_for, proof_kind, nd));
    sim::mark_nontrivial();
    sim::set_panic_is_violation(true);
    let cred = SingleScramCredential::new(USER, PASS, v).expect("credential");
    let _ = cred.scram_version();
    let store = Arc::new(VanishingUser { inner: cred, lookups: std::sync::atomic::AtomicU32::new(0), present_for });
    let acceptor = ConnectionAcceptor::builder().container_id("sasl-listener").sasl_acceptor(ScramAuthenticator::new(store)).build();
    let (ps, ls, net) = SimStream::pair("peer", "listener", nab, nba);
    let _mon = wire::install(&net, ["peer", "listener"], [Models::none(), Models::none()]);
    let mut peer = Peer::new("peer", ps);
    let accept = sim::in_group(2, async { acceptor.accept(ls).await.map_err(|e| format!("{:?}", e)) });
    sim::fault("account-removed-during-the-exchange");
    let script = async {
        let mut saw_ok = false;
        let mut amqp_open = false;
        let cnonce: String = (0..18).map(|_| (b'a' + choice(26) as u8) as char).collect();
        let bare = format!("n={},r={}", USER, cnonce);
        peer.send_header(SASL_HEADER).await;
        let _ = peer.expect_header().await;
        let _ = next_sasl(&mut peer, 60_000).await;
        peer.send_sasl(&sasl_init(mech.name(), Some(format!("n,,{}", bare).into_bytes()))).await;
        match next_sasl(&mut peer, 60_000).await {
            Some((SASL_CHALLENGE, ch)) => {
                let server_first = String::from_utf8_lossy(&bin_of(ch.field(0)).unwrap_or_default()).to_string();
                let nonce = attr(&server_first, 'r').unwrap_or("").to_string();
                let salt = attr(&server_first, 's').and_then(unb64).unwrap_or_default();
                let iters: u32 = attr(&server_first, 'i').and_then(|s| s.parse().ok()).unwrap_or(1);
                let without_proof = format!("c=biws,r={}", nonce);
                let auth_message = format!("{},{},{}", bare, server_first, without_proof);
                let final_msg = match proof_kind {
                    0 => format!("{},p={}", without_proof, b64(&scram_proofs(mech, PASS, &salt, iters.min(100_000), &auth_message).client_proof)),
                    1 => format!("{},p={}", without_proof, b64(&[7u8; 20])),
                    _ => without_proof.clone(),
                };
                peer.send_sasl(&sasl_response(final_msg.into_bytes())).await;
                if let Some((SASL_OUTCOME, o)) = next_sasl(&mut peer, 60_000).await {
                    saw_ok = o.field(0).as_u32() == Some(0);
                }
            }
            Some((SASL_OUTCOME, o)) => saw_ok = o.field(0).as_u32() == Some(0),
            _ => {}
        }
        if saw_ok {
            peer.send_header(AMQP_HEADER).await;
            peer.send(0, &peer::open("ghost", None, None, None)).await;
            for f in peer.drain_for(3000).await {
                if f.code == wire::OPEN {
                    amqp_open = true;
                }
            }
        } else {
            let _ = peer.drain_for(500).await;
        }
        peer.shutdown().await;
        (saw_ok, amqp_open)
    };
    let (accepted, (saw_ok, amqp_open)) = match sim::op("exchange with a vanishing account", world::join2(accept, script)).await {
        Some(x) => x,
        None => return,
    };
    if saw_ok || amqp_open || accepted.is_ok() {
        sim::violation(
            "connection-without-valid-credentials",
            format!(
                "the account was in the credential store for {} look-up(s) and gone afterwards: outcome ok={} AMQP open from the listener={} accept={:?}",
                present_for,
                saw_ok,
                amqp_open,
                accepted.as_ref().map(|_| ())
            ),
        );
        return;
    }
    sim::probe("vanished-account-refused");
}

// ---------------------------------------------------------------------------------------
// "Every sequence of SASL frame kinds up to a bound": the scripted client sends 0-4 SASL frames
// drawn from every kind a client or a server may send (init with the right or wrong credentials or
// mechanism, response with a valid, tampered or garbled final message, mechanisms, challenge,
// outcome ok, a frame without a body), reading what the listener answers in between, and then the
// AMQP header and an open. The listener may open an AMQP connection for exactly one sequence: the
// valid exchange and nothing else (PLAIN: [init]; SCRAM: [init, response]).

#[derive(Clone, Copy, Debug, PartialEq)]
enum K {
    InitGood,
    InitBadCreds,
    InitOtherMech,
    InitNoResponse,
    ResponseGood,
    ResponseTampered,
    ResponseGarbage,
    Mechanisms,
    Challenge,
    OutcomeOk,
    Bodyless,
}

/// Every sequence of 0-3 SASL frames over the eleven frame kinds, one per enumeration case
/// (1 + 11 + 121 + 1331 = 1464 cases per seed; the seed picks the mechanism, the network and the schedule)
pub const FRAME_SEQUENCE_CASES: u64 = 1464;

pub async fn run_frame_sequences_enumerated() {
    const KINDS: [K; 11] = [K::InitGood, K::InitBadCreds, K::InitOtherMech, K::InitNoResponse, K::ResponseGood, K::ResponseTampered, K::ResponseGarbage, K::Mechanisms, K::Challenge, K::OutcomeOk, K::Bodyless];
    let mech = pick(&[Mech::Plain, Mech::Sha1, Mech::Sha256, Mech::Sha512]);
    let mut c = sim::case() % FRAME_SEQUENCE_CASES;
    let mut len = 0usize;
    let mut size = 1u64;
    while c >= size {
        c -= size;
        len += 1;
        size *= 11;
    }
    let mut seq = Vec::new();
    for _ in 0..len {
        seq.push(KINDS[(c % 11) as usize]);
        c /= 11;
    }
    sim::probe("sasl-frame-sequence-enumerated");
    frame_sequence(mech, seq).await
}

pub async fn run_frame_sequences() {
    let mech = pick(&[Mech::Plain, Mech::Sha1, Mech::Sha256, Mech::Sha512]);
    let scram = mech != Mech::Plain;
    let kinds = [K::InitGood, K::InitGood, K::InitBadCreds, K::InitOtherMech, K::InitNoResponse, K::ResponseGood, K::ResponseGood, K::ResponseTampered, K::ResponseGarbage, K::Mechanisms, K::Challenge, K::OutcomeOk, K::Bodyless];
    let n = choice(5) as usize;
    let mut seq: Vec<K> = (0..n).map(|_| pick(&kinds)).collect();
    // one run in four is the valid exchange with something in front of, inside or behind it
    if choice(4) == 0 {
        seq = if scram { vec![K::InitGood, K::ResponseGood] } else { vec![K::InitGood] };
        if choice(3) != 0 {
            let at = choice(seq.len() as u32 + 1) as usize;
            seq.insert(at, pick(&kinds));
        }
    }
    frame_sequence(mech, seq).await
}

async fn frame_sequence(mech: Mech, seq: Vec<K>) {
    let scram = mech != Mech::Plain;
    let valid_seq: Vec<K> = if scram { vec![K::InitGood, K::ResponseGood] } else { vec![K::InitGood] };
    let (nab, nba, nd) = world::draw_net(false);
    sim::set_config(format!("variant=frame-sequences listener-mechanism={} sequence={:?} {}", mech.name(), seq, nd));
    sim::mark_nontrivial();
    sim::set_panic_is_violation(true);
    let (ps, ls, net) = SimStream::pair("peer", "listener", nab, nba);
    let mon = wire::install(&net, ["peer", "listener"], [Models::none(), Models::none()]);
    let mut peer = Peer::new("peer", ps);
    let listener = listener_for(mech);
    let accept_fut = sim::in_group(2, async { listener.accept(ls).await });
    let seq2 = seq.clone();
    let last_response_answered_a_challenge = std::cell::Cell::new(false);
    let script = async {
        let mut saw_ok = false;
        // the exchange is valid only if every frame sent was the one a valid exchange has at that
        // position and (SCRAM) the final message answered the listener's own challenge
        let mut valid = seq2 == valid_seq;
        peer.send_header(SASL_HEADER).await;
        if peer.expect_header().await != Some(SASL_HEADER) {
            peer.shutdown().await;
            return (false, saw_ok);
        }
        if next_sasl(&mut peer, 60_000).await.map(|m| m.0) != Some(SASL_MECHANISMS) {
            peer.shutdown().await;
            return (false, saw_ok);
        }
        let cnonce: String = (0..18).map(|_| (b'a' + choice(26) as u8) as char).collect();
        let bare = format!("n={},r={}", USER, cnonce);
        let mut server_first: Option<String> = None;
        for k in &seq2 {
            if peer.eof {
                break;
            }
            let frame = match k {
                K::InitGood => {
                    if scram {
                        sasl_init(mech.name(), Some(format!("n,,{}", bare).into_bytes()))
                    } else {
                        sasl_init("PLAIN", Some(format!("\0{}\0{}", USER, PASS).into_bytes()))
                    }
                }
                K::InitBadCreds => {
                    if scram {
                        sasl_init(mech.name(), Some(format!("n,,n={},r={}", pick(&["alic", "bob", ""]), cnonce).into_bytes()))
                    } else {
                        sasl_init("PLAIN", Some(format!("\0{}\0{}", USER, wrong_password()).into_bytes()))
                    }
                }
                K::InitOtherMech => sasl_init(pick(&["ANONYMOUS", "EXTERNAL", "SCRAM-SHA-224", ""]), Some(format!("\0{}\0{}", USER, PASS).into_bytes())),
                K::InitNoResponse => sasl_init(mech.name(), None),
                K::ResponseGood | K::ResponseTampered => {
                    let final_msg = match (&server_first, scram) {
                        (Some(sf), true) => {
                            let nonce = attr(sf, 'r').unwrap_or("").to_string();
                            let salt = attr(sf, 's').and_then(unb64).unwrap_or_default();
                            let iters: u32 = attr(sf, 'i').and_then(|s| s.parse().ok()).unwrap_or(1);
                            let without_proof = format!("c=biws,r={}", nonce);
                            let auth_message = format!("{},{},{}", bare, sf, without_proof);
                            let mut proofs = scram_proofs(mech, PASS, &salt, iters.min(100_000), &auth_message);
                            if *k == K::ResponseTampered {
                                let i = choice(proofs.client_proof.len() as u32) as usize;
                                proofs.client_proof[i] ^= 1 << choice(8);
                            }
                            last_response_answered_a_challenge.set(*k == K::ResponseGood);
                            format!("{},p={}", without_proof, b64(&proofs.client_proof))
                        }
                        _ => {
                            // no challenge to answer: whatever is sent is not a valid final message
                            valid = false;
                            last_response_answered_a_challenge.set(false);
                            format!("c=biws,r={}x,p=AAAA", cnonce)
                        }
                    };
                    sasl_response(final_msg.into_bytes())
                }
                K::ResponseGarbage => sasl_response(pick(&["", "p=", "c=biws", ",,,", "\u{0}"]).as_bytes().to_vec()),
                K::Mechanisms => sasl_mechanisms(&["PLAIN", mech.name()]),
                K::Challenge => sasl_challenge(b"r=abc,s=c2FsdA==,i=1".to_vec()),
                K::OutcomeOk => sasl_outcome(0, None),
                K::Bodyless => {
                    peer.send_raw(&peer::frame_bytes(1, 0, &[])).await;
                    continue;
                }
            };
            if matches!(k, K::InitGood | K::InitBadCreds | K::InitOtherMech | K::InitNoResponse) {
                // a challenge, if any, answers this init
                server_first = None;
            }
            peer.send_sasl(&frame).await;
            // what the listener says to that
            while let Some((code, p)) = next_sasl(&mut peer, 300).await {
                match code {
                    SASL_CHALLENGE => {
                        server_first = Some(String::from_utf8_lossy(&bin_of(p.field(0)).unwrap_or_default()).to_string());
                        break;
                    }
                    SASL_OUTCOME => {
                        if p.field(0).as_u32() == Some(0) {
                            saw_ok = true;
                        }
                        break;
                    }
                    _ => {}
                }
            }
        }
        sim::fault("sasl-frame-sequence");
        peer.send_header(AMQP_HEADER).await;
        peer.send(0, &peer::open("sequencer", None, None, None)).await;
        let _ = peer.expect_header().await;
        let _ = peer.expect(wire::OPEN).await;
        (valid, saw_ok)
    };
    let (accepted, (valid, saw_ok)) = match sim::op("sasl frame sequence", world::join2(accept_fut, script)).await {
        Some(x) => x,
        None => return,
    };
    if sim::has_violation() {
        return;
    }
    mon.borrow_mut().sync();
    let wrote_amqp_open = mon.borrow().ends[1].open.is_some();
    // Soundness is what is judged for arbitrary sequences: a connection may be opened only if the
    // sequence *ends* with a valid exchange (the peer proved the credentials last; whether an
    // exchange restarted by a second init is tolerated is the implementation's choice, and is
    // not judged), and outcome ok may be said only once some prefix ends with one (frames that follow
    // it, where the AMQP header is due, make the connection fail, not the outcome wrong).
    // Completeness is judged for the valid exchange alone.
    let proved_last = seq.ends_with(&valid_seq) && (valid || last_response_answered_a_challenge.get() || !scram);
    let ok_deserved = (1..=seq.len()).any(|i| seq[..i].ends_with(&valid_seq));
    if (!proved_last && (accepted.is_ok() || wrote_amqp_open)) || (saw_ok && !ok_deserved) {
        sim::violation(
            "accepted-without-authentication",
            format!("SASL frame sequence {:?} against {}: accept ok = {}, outcome ok seen = {}, AMQP open written = {}", seq, mech.name(), accepted.is_ok(), saw_ok, wrote_amqp_open),
        );
        return;
    }
    if valid {
        match &accepted {
            Ok(_) => sim::probe("valid-sequence-accepted"),
            Err(e) => {
                sim::violation("honest-client-refused", format!("the valid {} exchange {:?} was refused: {}", mech.name(), seq, e));
                return;
            }
        }
    } else {
        sim::probe("invalid-sequence-refused");
    }
    if let Ok(mut h) = accepted {
        peer.send(0, &peer::close(None)).await;
        let _ = tokio::time::timeout(std::time::Duration::from_secs(30), h.on_close()).await;
    }
}
