//! C06 — frames on the wire: two real `Transport`s joined by the simulated stream.
//!
//! The sending transport is given every kind of performative with seeded field
//! subsets and transfers whose payloads sit around each multiple of the frame body
//! size; the stream is fragmented by seeded write capacities and read chunk sizes.
//! An independent splitter and codec judge the bytes on the wire; the receiving
//! transport must yield the frames that were sent whatever the fragmentation.

use std::cell::RefCell;
use std::rc::Rc;

use bytes::Bytes;
use fe2o3_amqp::frames::amqp::{Frame, FrameBody};
use fe2o3_amqp::transport::Transport;
use fe2o3_amqp::types::definitions::{self, AmqpError, Handle, ReceiverSettleMode, Role, SenderSettleMode};
use fe2o3_amqp::types::messaging::{Accepted, DeliveryState, Source, Target};
use fe2o3_amqp::types::performatives::{Attach, Begin, Close, Detach, Disposition, End, Flow, Open, Transfer};
use fe2o3_amqp::types::primitives::{Array, Binary, Symbol};
use futures_util::{SinkExt, StreamExt};

use crate::chooser::{choice, pick};
use crate::net::{NetCfg, SimStream};
use crate::refcodec::{self, V};
use crate::sim;
use crate::wire::{self, Item, Models};

fn err(desc: &str) -> definitions::Error {
    definitions::Error::new(AmqpError::InternalError, Some(desc.to_string()), None)
}

fn long_string(n: usize) -> String {
    "x".repeat(n)
}

#[derive(Clone)]
struct Sent {
    channel: u16,
    /// debug rendering of the performative with the `more` flag as given
    perf_debug: String,
    /// what the independent codec must see for the first frame
    expect: V,
    payload: Vec<u8>,
    is_transfer: bool,
    more: bool,
    empty: bool,
}

fn to_v<T: serde::Serialize>(t: &T) -> V {
    let bytes = serde_amqp::to_vec(t).expect("performative serialises");
    refcodec::decode(&bytes).expect("independent codec reads the crate's encoding").0
}

fn gen_frame(mfs: usize, k: usize) -> (Frame, Sent) {
    let channel = pick(&[0u16, 0, 1, 7, 255, 65535]);
    // strings are kept small enough for every non-transfer performative to fit a 512-byte frame
    let small = |n: u32| long_string(choice(n) as usize);
    let kind = if k == 0 { 0 } else { 1 + choice(10) };
    let (body, perf_v, perf_debug, payload, is_transfer, more): (FrameBody, V, String, Vec<u8>, bool, bool) = match kind {
        0 => {
            let o = Open {
                container_id: format!("c-{}", small(60)),
                hostname: if choice(2) == 1 { Some(small(40)) } else { None },
                max_frame_size: pick(&[512u32, 4096, u32::MAX]).into(),
                channel_max: pick(&[0u16, 255, 65535]).into(),
                idle_time_out: if choice(2) == 1 { Some(choice(100_000)) } else { None },
                outgoing_locales: None,
                incoming_locales: None,
                offered_capabilities: if choice(3) == 1 { Some(Array::from(vec![Symbol::from("cap-a"), Symbol::from("cap-b")])) } else { None },
                desired_capabilities: None,
                properties: None,
            };
            (FrameBody::Open(o.clone()), to_v(&o), format!("{:?}", o), vec![], false, false)
        }
        1 => {
            let b = Begin {
                remote_channel: if choice(2) == 1 { Some(choice(65536) as u16) } else { None },
                next_outgoing_id: pick(&[0u32, 1, u32::MAX, 1 << 31]),
                incoming_window: choice(100_000),
                outgoing_window: choice(100_000),
                handle_max: Handle::from(pick(&[u32::MAX, 0, 255])),
                offered_capabilities: None,
                desired_capabilities: None,
                properties: None,
            };
            (FrameBody::Begin(b.clone()), to_v(&b), format!("{:?}", b), vec![], false, false)
        }
        2 => {
            let a = Attach {
                name: format!("link-{}", small(100)),
                handle: Handle::from(pick(&[0u32, 1, 255, 256, u32::MAX])),
                role: if choice(2) == 1 { Role::Sender } else { Role::Receiver },
                snd_settle_mode: match choice(3) {
                    0 => SenderSettleMode::Mixed,
                    1 => SenderSettleMode::Settled,
                    _ => SenderSettleMode::Unsettled,
                },
                rcv_settle_mode: if choice(2) == 1 { ReceiverSettleMode::Second } else { ReceiverSettleMode::First },
                source: if choice(4) != 0 { Some(Box::new(Source::builder().address(small(60)).build())) } else { None },
                target: if choice(4) != 0 { Some(Box::new(Target::builder().address(small(60)).build().into())) } else { None },
                unsettled: None,
                incomplete_unsettled: false,
                initial_delivery_count: if choice(2) == 1 { Some(choice(1000)) } else { None },
                max_message_size: if choice(3) == 1 { Some(pick(&[0u64, 255, 256, u64::MAX])) } else { None },
                offered_capabilities: None,
                desired_capabilities: None,
                properties: None,
            };
            (FrameBody::Attach(a.clone()), to_v(&a), format!("{:?}", a), vec![], false, false)
        }
        3 => {
            let f = Flow {
                next_incoming_id: if choice(3) != 0 { Some(choice(1 << 31)) } else { None },
                incoming_window: choice(1 << 20),
                next_outgoing_id: pick(&[0u32, 255, 256, u32::MAX]),
                outgoing_window: choice(1 << 20),
                handle: if choice(2) == 1 { Some(Handle::from(choice(300))) } else { None },
                delivery_count: if choice(2) == 1 { Some(choice(300)) } else { None },
                link_credit: if choice(2) == 1 { Some(choice(1000)) } else { None },
                available: if choice(3) == 1 { Some(choice(10)) } else { None },
                drain: choice(4) == 1,
                echo: choice(4) == 1,
                properties: None,
            };
            (FrameBody::Flow(f.clone()), to_v(&f), format!("{:?}", f), vec![], false, false)
        }
        4 => {
            let d = Disposition {
                role: if choice(2) == 1 { Role::Sender } else { Role::Receiver },
                first: pick(&[0u32, 255, 256, u32::MAX]),
                last: if choice(2) == 1 { Some(choice(1 << 20)) } else { None },
                settled: choice(2) == 1,
                state: if choice(2) == 1 { Some(DeliveryState::Accepted(Accepted {})) } else { None },
                batchable: choice(3) == 1,
            };
            (FrameBody::Disposition(d.clone()), to_v(&d), format!("{:?}", d), vec![], false, false)
        }
        5 => {
            let d = Detach {
                handle: Handle::from(choice(1000)),
                closed: choice(2) == 1,
                error: if choice(3) == 1 { Some(err(&small(150))) } else { None },
            };
            (FrameBody::Detach(d.clone()), to_v(&d), format!("{:?}", d), vec![], false, false)
        }
        6 => {
            let e = End { error: if choice(2) == 1 { Some(err(&small(150))) } else { None } };
            (FrameBody::End(e.clone()), to_v(&e), format!("{:?}", e), vec![], false, false)
        }
        7 => {
            let c = Close { error: if choice(2) == 1 { Some(err(&small(150))) } else { None } };
            (FrameBody::Close(c.clone()), to_v(&c), format!("{:?}", c), vec![], false, false)
        }
        8 => (FrameBody::Empty, V::Null, "Empty".to_string(), vec![], false, false),
        _ => {
            let tag_len = pick(&[0u32, 1, 4, 31, 32]) as usize;
            let more = choice(5) == 1;
            let t = Transfer {
                handle: Handle::from(pick(&[0u32, 1, 255, 256, u32::MAX])),
                delivery_id: if choice(5) != 0 { Some(pick(&[0u32, 255, 256, u32::MAX])) } else { None },
                delivery_tag: if choice(5) != 0 { Some(Binary::from(vec![0xabu8; tag_len])) } else { None },
                message_format: if choice(3) != 0 { Some(0) } else { None },
                settled: match choice(3) {
                    0 => None,
                    1 => Some(true),
                    _ => Some(false),
                },
                more,
                rcv_settle_mode: if choice(5) == 1 { Some(ReceiverSettleMode::Second) } else { None },
                state: if choice(6) == 1 { Some(DeliveryState::Accepted(Accepted {})) } else { None },
                resume: choice(8) == 1,
                aborted: false,
                batchable: choice(4) == 1,
            };
            // payload lengths around every multiple of the frame body size
            let body = mfs - 8;
            let len = match choice(5) {
                0 => 0,
                1 => choice(body as u32) as usize,
                _ => {
                    let kf = 1 + choice(4) as usize;
                    ((kf * body) as isize + choice(161) as isize - 80).max(0) as usize
                }
            };
            let mut payload = Vec::with_capacity(len);
            let mut x = (k as u32).wrapping_mul(2654435761) | 1;
            for _ in 0..len {
                x ^= x << 13;
                x ^= x >> 17;
                x ^= x << 5;
                payload.push((x >> 8) as u8);
            }
            (
                FrameBody::Transfer { performative: t.clone(), payload: Bytes::from(payload.clone()) },
                to_v(&t),
                format!("{:?}", t),
                payload,
                true,
                more,
            )
        }
    };
    let empty = matches!(body, FrameBody::Empty);
    (
        Frame::new(channel, body),
        Sent { channel, perf_debug, expect: perf_v, payload, is_transfer, more, empty },
    )
}

/// Reassembled view of what arrived: one entry per frame that was sent
struct Arrived {
    channel: u16,
    perf_debug: String,
    payload: Vec<u8>,
    frames: usize,
    last_more: bool,
}

pub async fn run() {
    let mfs = pick(&[512usize, 513, 520, 600, 1024, 4096, 65536]);
    let mut ab = NetCfg::draw();
    ab.stall_den = 0;
    if mfs >= 4096 {
        // byte-at-a-time delivery of multi-frame 64 KiB transfers would only multiply steps
        ab.latency_us = 0;
    }
    let n = 2 + choice(10) as usize;
    sim::set_config(format!("max-frame-size={} frames={} {}", mfs, n, ab.describe()));
    sim::mark_nontrivial();
    let (sa, sb, net) = SimStream::pair("sender-transport", "receiver-transport", ab, NetCfg::plain());
    let mut models = Models::none();
    models.size = true;
    models.decodable = true;
    let mon = wire::install(&net, ["sender-transport", "receiver-transport"], [models, Models::none()]);
    // the receiving side advertises `mfs`; the monitor takes the limit from the peer's open, so
    // tell it directly
    mon.borrow_mut().ends[1].max_frame_size = Some(mfs as u32);
    mon.borrow_mut().ends[1].open = Some(V::Null);
    mon.borrow_mut().ends[0].headers.push(crate::peer::AMQP_HEADER);

    let mut ta: Transport<SimStream, Frame> = Transport::bind(sa, mfs, None);
    let mut tb: Transport<SimStream, Frame> = Transport::bind(sb, 65536 * 2, None);
    ta.set_encoder_max_frame_size(mfs);
    tb.set_decoder_max_frame_size(mfs);

    let mut sent: Vec<Sent> = Vec::new();
    let mut frames: Vec<Frame> = Vec::new();
    for k in 0..n {
        let (f, s) = gen_frame(mfs, k);
        frames.push(f);
        sent.push(s);
    }
    // a performative that cannot fit one frame (only transfers can be continued): as the last
    // frame of the run. Whatever the transport does with it - refuse it, which is the only sound
    // answer - what reaches the wire must still be complete frames within the limit
    let oversize = mfs < 65536 && choice(8) == 0;
    let mut oversize_at = usize::MAX;
    if oversize {
        let a = Attach {
            name: long_string(mfs - 100 + choice(120) as usize),
            handle: Handle::from(3u32),
            role: Role::Sender,
            snd_settle_mode: SenderSettleMode::Mixed,
            rcv_settle_mode: ReceiverSettleMode::First,
            source: Some(Box::new(Source::builder().address("q").build())),
            target: Some(Box::new(Target::builder().address("q").build().into())),
            unsettled: None,
            incomplete_unsettled: false,
            initial_delivery_count: Some(0),
            max_message_size: None,
            offered_capabilities: None,
            desired_capabilities: None,
            properties: None,
        };
        let v = to_v(&a);
        let fits = 8 + refcodec::encode(&v).len() <= mfs;
        sim::fault(if fits { "performative-just-within-the-limit" } else { "performative-beyond-max-frame-size" });
        // as the last frame of the run, or somewhere in the middle: the transport is used again after
        // the refusal, and whatever it accepts then must reach the wire as complete frames
        oversize_at = if choice(2) == 0 { sent.len() } else { choice(sent.len() as u32 + 1) as usize };
        sent.insert(oversize_at, Sent { channel: 0, perf_debug: format!("{:?}", a), expect: v, payload: vec![], is_transfer: false, more: false, empty: false });
        frames.insert(oversize_at, Frame::new(0u16, FrameBody::Attach(a)));
    }
    let oversize_fits = oversize && 8 + refcodec::encode(&sent[oversize_at].expect).len() <= mfs;
    if sent.iter().any(|s| s.is_transfer && s.payload.len() + 60 > mfs) {
        sim::probe("multi-frame-transfer");
    }
    let arrived: Rc<RefCell<Vec<Arrived>>> = Rc::new(RefCell::new(Vec::new()));
    let arr2 = arrived.clone();
    let recv_err: Rc<RefCell<Option<String>>> = Rc::new(RefCell::new(None));
    let re2 = recv_err.clone();
    let done: crate::world::Slot<()> = crate::world::Slot::new();
    let done2 = done.clone();
    // shared with the sending side, which takes a refused frame out before it sends the next one
    let expect_len: Rc<RefCell<Vec<usize>>> = Rc::new(RefCell::new(sent.iter().map(|s| s.payload.len()).collect()));
    let expect_len2 = expect_len.clone();
    sim::spawn("receiving-transport", async move {
        let expect_len = expect_len2;
        let mut idx = 0usize;
        let mut open: Option<Arrived> = None;
        while idx < expect_len.borrow().len() {
            match tb.next().await {
                Some(Ok(frame)) => {
                    let Frame { channel, body } = frame;
                    match body {
                        FrameBody::Transfer { performative, payload } => {
                            let more = performative.more;
                            match open.as_mut() {
                                None => {
                                    let mut p = performative.clone();
                                    p.more = false;
                                    open = Some(Arrived {
                                        channel,
                                        perf_debug: format!("{:?}", p),
                                        payload: payload.to_vec(),
                                        frames: 1,
                                        last_more: more,
                                    });
                                }
                                Some(a) => {
                                    a.payload.extend_from_slice(&payload);
                                    a.frames += 1;
                                    a.last_more = more;
                                }
                            }
                            // the transport does not reassemble: a sent transfer is complete once its
                            // payload has arrived in full (the last frame keeps the `more` flag it was given)
                            let a = open.as_ref().unwrap();
                            if a.payload.len() >= expect_len.borrow()[idx] {
                                arr2.borrow_mut().push(open.take().unwrap());
                                idx += 1;
                            }
                        }
                        other => {
                            arr2.borrow_mut().push(Arrived {
                                channel,
                                perf_debug: match &other {
                                    FrameBody::Open(x) => format!("{:?}", x),
                                    FrameBody::Begin(x) => format!("{:?}", x),
                                    FrameBody::Attach(x) => format!("{:?}", x),
                                    FrameBody::Flow(x) => format!("{:?}", x),
                                    FrameBody::Disposition(x) => format!("{:?}", x),
                                    FrameBody::Detach(x) => format!("{:?}", x),
                                    FrameBody::End(x) => format!("{:?}", x),
                                    FrameBody::Close(x) => format!("{:?}", x),
                                    FrameBody::Empty => "Empty".to_string(),
                                    FrameBody::Transfer { .. } => unreachable!(),
                                },
                                payload: vec![],
                                frames: 1,
                                last_more: false,
                            });
                            idx += 1;
                        }
                    }
                }
                Some(Err(e)) => {
                    *re2.borrow_mut() = Some(format!("{:?}", e));
                    break;
                }
                None => {
                    *re2.borrow_mut() = Some("stream ended".into());
                    break;
                }
            }
        }
        done2.put(());
    });
    let mut removed = 0usize;
    let mut refused_before = false;
    for (k, f) in frames.into_iter().enumerate() {
        match sim::op(&format!("transport.send frame #{}", k), ta.send(f)).await {
            Some(Ok(())) => {
                if refused_before {
                    sim::probe("frame-accepted-after-a-refusal");
                }
            }
            Some(Err(_)) if oversize && !oversize_fits && (k == oversize_at || refused_before) => {
                // refused (a transport that has refused a frame may refuse the following ones as
                // well): nothing of it may be on the wire
                if k == oversize_at {
                    sim::probe("oversize-performative-refused");
                }
                refused_before = true;
                sent.remove(k - removed);
                expect_len.borrow_mut().remove(k - removed);
                removed += 1;
            }
            Some(Err(e)) => {
                sim::violation("send-failed", format!("sending frame #{} ({}) failed: {:?}", k, sent[k - removed].perf_debug, e));
                return;
            }
            None => return,
        }
    }
    // transfers handed over with more=true never end on their own: close the stream so the
    // receiving side stops waiting
    let _ = ta.close().await;
    let _ = tokio::time::timeout(sim::OP_DEADLINE, done.take()).await;
    mon.borrow_mut().sync();
    if sim::has_violation() {
        return;
    }
    // ---- wire: the tap bytes split into complete frames that decode to what was sent
    {
        let m = mon.borrow();
        let wire_frames: Vec<&wire::WFrame> = m
            .log
            .iter()
            .filter(|st| st.dir == 0)
            .filter_map(|st| match &st.item {
                Item::Frame(f) => Some(f),
                _ => None,
            })
            .collect();
        let mut wi = 0usize;
        for (k, s) in sent.iter().enumerate() {
            let f = match wire_frames.get(wi) {
                Some(f) => *f,
                None => {
                    sim::violation("frame-missing-on-wire", format!("frame #{} ({}) never appeared on the wire", k, s.perf_debug));
                    return;
                }
            };
            if f.channel != s.channel {
                sim::violation("wrong-channel-on-wire", format!("frame #{} was sent on channel {}, the wire shows channel {}", k, s.channel, f.channel));
                return;
            }
            if s.empty {
                if f.perf.is_some() {
                    sim::violation("wire-frame-mismatch", format!("frame #{} should be an empty frame, the wire shows {}", k, wire::describe_frame(f)));
                    return;
                }
                wi += 1;
                continue;
            }
            if !s.is_transfer {
                if f.perf.as_ref() != Some(&s.expect) {
                    sim::violation(
                        "wire-frame-mismatch",
                        format!("frame #{}: sent {:?}, the wire shows {:?}", k, s.expect, f.perf),
                    );
                    return;
                }
                if !f.payload.is_empty() {
                    sim::violation("wire-frame-mismatch", format!("frame #{}: {} trailing bytes after the performative", k, f.payload.len()));
                    return;
                }
                wi += 1;
                continue;
            }
            // transfer: first frame carries the fields, continuation frames follow
            let mut payload: Vec<u8> = Vec::new();
            let mut nfr = 0usize;
            loop {
                let f = match wire_frames.get(wi) {
                    Some(f) => *f,
                    None => {
                        sim::violation("transfer-truncated-on-wire", format!("transfer #{}: {} of {} payload bytes on the wire", k, payload.len(), s.payload.len()));
                        return;
                    }
                };
                let p = match &f.perf {
                    Some(p) if f.code == wire::TRANSFER => p,
                    _ => {
                        sim::violation("wire-frame-mismatch", format!("transfer #{}: expected a continuation frame, the wire shows {}", k, wire::describe_frame(f)));
                        return;
                    }
                };
                let more = p.field(5).as_bool().unwrap_or(false);
                if nfr == 0 {
                    // equal to what was sent except for the more flag
                    let mut want = s.expect.fields().to_vec();
                    let mut got = p.fields().to_vec();
                    while want.len() < 11 {
                        want.push(V::Null);
                    }
                    while got.len() < 11 {
                        got.push(V::Null);
                    }
                    want[5] = V::Null;
                    got[5] = V::Null;
                    // a field that is false by default may be encoded or elided
                    for i in [8usize, 9, 10] {
                        if want[i] == V::Bool(false) {
                            want[i] = V::Null;
                        }
                        if got[i] == V::Bool(false) {
                            got[i] = V::Null;
                        }
                    }
                    if want != got {
                        sim::violation("wire-frame-mismatch", format!("transfer #{}: sent {:?}, first frame on the wire {:?}", k, s.expect, p));
                        return;
                    }
                } else if p.field(0) != s.expect.field(0) {
                    sim::violation("continuation-handle", format!("transfer #{}: continuation frame {} carries handle {:?}", k, nfr, p.field(0)));
                    return;
                }
                payload.extend_from_slice(&f.payload);
                nfr += 1;
                wi += 1;
                if payload.len() >= s.payload.len() {
                    // last frame of this transfer: the original more flag
                    if more != s.more {
                        sim::violation(
                            "more-flag-on-last-frame",
                            format!("transfer #{} ({} bytes in {} frames): the last frame has more={}, the transfer was sent with more={}", k, s.payload.len(), nfr, more, s.more),
                        );
                        return;
                    }
                    break;
                }
                if !more {
                    sim::violation(
                        "more-flag-missing",
                        format!("transfer #{}: frame {} of a {}-byte payload has more=false after {} bytes", k, nfr, s.payload.len(), payload.len()),
                    );
                    return;
                }
            }
            if payload != s.payload {
                sim::violation("payload-altered-on-wire", format!("transfer #{}: the continuation payloads do not concatenate to the original {} bytes", k, s.payload.len()));
                return;
            }
        }
        if wi != wire_frames.len() {
            sim::violation("extra-frame-on-wire", format!("{} frames on the wire beyond the {} that were sent", wire_frames.len() - wi, sent.len()));
            return;
        }
    }
    // ---- the receiving transport yields what was sent
    if let Some(e) = recv_err.borrow().clone() {
        let arrived_n = arrived.borrow().len();
        if arrived_n < sent.len() && !(sent.last().map(|s| s.more).unwrap_or(false) && arrived_n + 1 == sent.len()) {
            sim::violation("receive-failed", format!("the receiving transport failed after {} of {} frames: {}", arrived_n, sent.len(), e));
            return;
        }
    }
    let arr = arrived.borrow();
    for (k, (a, s)) in arr.iter().zip(sent.iter()).enumerate() {
        if a.channel != s.channel {
            sim::violation("received-wrong-channel", format!("frame #{}: sent on {}, received on {}", k, s.channel, a.channel));
            return;
        }
        if s.is_transfer {
            if a.payload != s.payload {
                sim::violation("received-payload-differs", format!("transfer #{}: {} bytes sent, {} received in {} frames", k, s.payload.len(), a.payload.len(), a.frames));
                return;
            }
        } else if a.perf_debug != s.perf_debug {
            sim::violation("received-frame-differs", format!("frame #{}: sent {}, received {}", k, s.perf_debug, a.perf_debug));
            return;
        }
    }
}
