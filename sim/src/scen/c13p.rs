//! C13 — lifecycle handshakes against a scripted peer: the behaviours a real listener never
//! shows. The client is real; the wire models for the session and the links run on its side.
//!
//!  * attach refused by an immediate detach (with / without error, attach answered with a null
//!    target/source first, as the specification has it);
//!  * the peer never answers an attach, then ends the session;
//!  * the peer detaches / closes an idle link (the application is not using it) and the
//!    application's next operation must answer in kind and report the peer's error;
//!  * the peer ends the session with an error while links are attached.
//!
//! In all cases the sibling link / session and the connection must survive where the
//! protocol leaves them alone.

use fe2o3_amqp::types::definitions::SenderSettleMode;
use fe2o3_amqp::{Receiver, Sender, Session};

use crate::chooser::{choice, pick};
use crate::msgs;
use crate::peer::{self, AttachArgs, FlowArgs};
use crate::refcodec::V;
use crate::sim;
use crate::wire::{self, Item, Models};
use crate::world::{self, EndpointCfg, Slot};

#[derive(Clone, Copy, Debug, PartialEq)]
enum Script {
    AttachRefused,
    AttachNeverAnswered,
    IdleLinkClosedByPeer,
    IdleLinkDetachedByPeer,
    SessionEndedByPeer,
    /// the application detaches the link (not closing); the peer answers with a closing detach
    DetachAnsweredByClose,
}

pub async fn run() {
    let script = pick(&[Script::AttachRefused, Script::AttachRefused, Script::AttachNeverAnswered, Script::IdleLinkClosedByPeer, Script::IdleLinkDetachedByPeer, Script::SessionEndedByPeer, Script::DetachAnsweredByClose]);
    let with_error = choice(2) == 1;
    let receiver_role = choice(2) == 1; // role of the endpoint's link under test
    let ccfg = EndpointCfg::default_cfg();
    let (nab, nba, nd) = world::draw_net(false);
    sim::set_config(format!("variant=scripted-peer script={:?} with-error={} endpoint-link={} {}", script, with_error, if receiver_role { "receiver" } else { "sender" }, nd));
    sim::mark_nontrivial();
    sim::set_panic_is_violation(true);
    let models = Models { sess: true, link: true, ..Models::none() };
    let cvp = match peer::client_vs_peer(&ccfg, peer::open("peer", Some(65536), Some(255), None), nab, nba, models).await {
        Some(x) => x,
        None => return,
    };
    let peer::ClientVsPeer { mut client, mut peer, net, mon, .. } = cvp;
    let bf = sim::in_group(1, Session::begin(&mut client));
    let pb = async {
        let b = peer.expect(wire::BEGIN).await?;
        peer.send(0, &peer::begin(Some(b.channel), 0, 5000, 5000)).await;
        Some(())
    };
    let mut session = match sim::op("begin", world::join2(bf, pb)).await {
        Some((Ok(s), Some(()))) => s,
        _ => return,
    };
    // a sibling link that must stay usable: endpoint handle 0 <-> peer handle 7
    let af = sim::in_group(1, Sender::builder().name("sibling").target("q").sender_settle_mode(SenderSettleMode::Unsettled).attach(&mut session));
    let pa = async {
        peer.expect(wire::ATTACH).await?;
        peer.send(0, &peer::attach(&AttachArgs::receiver("sibling", 7))).await;
        let f = FlowArgs { next_incoming_id: Some(0), incoming_window: 5000, next_outgoing_id: 0, outgoing_window: 5000, handle: Some(7), delivery_count: Some(0), link_credit: Some(100), ..Default::default() };
        peer.send(0, &peer::flow(&f)).await;
        Some(())
    };
    let mut sibling = match sim::op("attach sibling", world::join2(af, pa)).await {
        Some((Ok(s), Some(()))) => s,
        _ => return,
    };
    let err = move || if with_error { Some(peer::error("amqp:link:detach-forced", Some("refused-by-peer"))) } else { None };
    let end_err = move || if with_error { Some(peer::error("amqp:session:errant-link", Some("ended-by-peer"))) } else { None };
    // ---- the peer script runs as a task; the application runs here
    let script_done: Slot<()> = Slot::new();
    let go_on: Slot<()> = Slot::new(); // the application tells the peer that its handles are attached and idle
    let peer_acted: Slot<()> = Slot::new(); // ... and the peer tells the application that it has done its deed
    {
        let (sd, go, pa2) = (script_done.clone(), go_on.clone(), peer_acted.clone());
        sim::spawn("peer-script", async move {
            let mut test_link_attached = false;
            // the peer's own view of the link under test: attached (and so owing an answer to a
            // detach) or detached by the peer itself (the next detach is the answer to its own)
            let mut peer_link_attached = false;
            let mut acted = false;
            let mut closing_answer_given = false;
            let mut session_ended_by_peer = false;
            let deadline = tokio::time::Instant::now() + sim::OP_DEADLINE;
            loop {
                if sim::has_violation() || tokio::time::Instant::now() >= deadline {
                    break;
                }
                if !acted && test_link_attached && go.try_take().is_some() {
                    // the link is attached and the application is idle
                    match script {
                        Script::IdleLinkClosedByPeer => {
                            peer.send(0, &peer::detach(8, true, err())).await;
                            peer_link_attached = false;
                            sim::fault("peer-closes-idle-link");
                        }
                        Script::IdleLinkDetachedByPeer => {
                            peer.send(0, &peer::detach(8, false, err())).await;
                            peer_link_attached = false;
                            sim::fault("peer-detaches-idle-link");
                        }
                        Script::SessionEndedByPeer => {
                            peer.send(0, &peer::end(end_err())).await;
                            session_ended_by_peer = true;
                            sim::fault("peer-ends-session");
                        }
                        _ => {}
                    }
                    acted = true;
                    pa2.put(());
                }
                match peer.recv_within(100).await {
                    Some(Item::Frame(f)) => match f.code {
                        wire::ATTACH => {
                            let p = f.perf.as_ref().unwrap();
                            let name = p.field(0).as_str().unwrap_or("").to_string();
                            let ep_is_receiver = p.field(2).as_bool().unwrap_or(false);
                            match script {
                                Script::AttachRefused if name == "under-test" => {
                                    // refusal: an attach without the terminus, then a closing detach
                                    let mut a = if ep_is_receiver { AttachArgs::sender(&name, 8) } else { AttachArgs::receiver(&name, 8) };
                                    if ep_is_receiver {
                                        a.source = V::Null;
                                    } else {
                                        a.target = V::Null;
                                    }
                                    peer.send(0, &peer::attach(&a)).await;
                                    peer.send(0, &peer::detach(8, true, err())).await;
                                    peer_link_attached = false;
                                    sim::fault("attach-refused");
                                }
                                Script::AttachNeverAnswered if name == "under-test" => {
                                    sim::fault("attach-not-answered");
                                    // ... and after a while the peer ends the session instead
                                    sim::sleep_ms(pick(&[5u64, 200, 3000])).await;
                                    peer.send(0, &peer::end(end_err())).await;
                                    session_ended_by_peer = true;
                                }
                                _ => {
                                    let a = if ep_is_receiver { AttachArgs::sender(&name, 8) } else { AttachArgs::receiver(&name, 8) };
                                    peer.send(0, &peer::attach(&a)).await;
                                    if !ep_is_receiver {
                                        let fl = FlowArgs { next_incoming_id: Some(0), incoming_window: 5000, next_outgoing_id: 0, outgoing_window: 5000, handle: Some(8), delivery_count: Some(0), link_credit: Some(100), ..Default::default() };
                                        peer.send(0, &peer::flow(&fl)).await;
                                    }
                                    test_link_attached = true;
                                    peer_link_attached = true;
                                }
                            }
                        }
                        wire::BEGIN => {
                            // a fresh session from the application
                            peer.send(f.channel, &peer::begin(Some(f.channel), 0, 5000, 5000)).await;
                            session_ended_by_peer = false;
                        }
                        wire::TRANSFER => {
                            if let Some(id) = f.perf.as_ref().and_then(|p| p.field(1).as_u32()) {
                                peer.send(0, &peer::disposition(true, id, None, true, Some(peer::accepted()))).await;
                            }
                        }
                        wire::DETACH => {
                            let p = f.perf.as_ref().unwrap();
                            let h = p.field(0).as_u32().unwrap_or(99);
                            let closed = p.field(1).as_bool().unwrap_or(false);
                            // the endpoint's handle 0 is the sibling; everything else is the link under test
                            if h == 0 {
                                peer.send(0, &peer::detach(7, closed, None)).await;
                            } else if peer_link_attached && script == Script::DetachAnsweredByClose && !closed && !closing_answer_given {
                                // the peer does not keep detached links: it answers with a closing detach
                                peer.send(0, &peer::detach(8, true, err())).await;
                                peer_link_attached = false;
                                closing_answer_given = true;
                                sim::fault("detach-answered-by-closing-detach");
                            } else if peer_link_attached {
                                // (also after a re-attach: closing a link the peer had detached takes one)
                                peer.send(0, &peer::detach(8, closed, None)).await;
                                peer_link_attached = false;
                            }
                        }
                        wire::END => {
                            if !session_ended_by_peer {
                                peer.send(f.channel, &peer::end(None)).await;
                            }
                        }
                        wire::CLOSE => {
                            peer.send(0, &peer::close(None)).await;
                            peer.shutdown().await;
                            break;
                        }
                        _ => {}
                    },
                    Some(_) => {}
                    None => {
                        if peer.eof || peer.read_error.is_some() {
                            break;
                        }
                    }
                }
            }
            sd.put(());
        });
    }
    // ---- the application
    enum L {
        S(Sender),
        R(Receiver),
    }
    let attach = async {
        if receiver_role {
            Receiver::attach(&mut session, "under-test", "q").await.map(L::R).map_err(|e| format!("{:?}", e))
        } else {
            Sender::attach(&mut session, "under-test", "q").await.map(L::S).map_err(|e| format!("{:?}", e))
        }
    };
    let attached = match sim::op("attach the link under test", sim::in_group(1, attach)).await {
        Some(r) => r,
        None => return,
    };
    let mut session_dead = false;
    // handles the application keeps after a detach (dropping one writes a closing detach of its own,
    // which would hide an endpoint that did not answer the peer)
    let mut kept: Vec<Box<dyn std::any::Any>> = Vec::new();
    // after the peer's closing detach the application may answer with close() or with detach()
    let answer_with_detach = choice(2) == 1;
    // ... and may learn of it from on_detach() instead of from a failing send
    let learn_by_on_detach = choice(2) == 1;
    // after the peer's non-closing detach the application may want the link closed rather than
    // detached: close() is then its next operation on the link (the answer may be a closing detach)
    let close_after_peer_detach = choice(3) == 1;
    sim::append_config(&format!(" answer-with-detach={} learn-by-on_detach={} close-after-peer-detach={}", answer_with_detach, learn_by_on_detach, close_after_peer_detach));
    match (script, attached) {
        (Script::AttachRefused, Ok(_)) => {
            sim::violation("refused-attach-succeeded", "the peer refused the attach with an immediate closing detach; attach() returned a link".into());
            return;
        }
        (Script::AttachRefused, Err(e)) => {
            if with_error && !e.contains("refused-by-peer") {
                sim::violation("peer-error-not-carried", format!("the peer refused the attach with amqp:link:detach-forced 'refused-by-peer'; attach() returned {}", e));
                return;
            }
            sim::probe("attach-refusal-reported");
        }
        (Script::AttachNeverAnswered, Ok(_)) => {
            sim::violation("unanswered-attach-succeeded", "the peer never answered the attach; attach() returned a link".into());
            return;
        }
        (Script::AttachNeverAnswered, Err(e)) => {
            // the session ended under the pending attach
            session_dead = true;
            if with_error && !e.contains("ended-by-peer") && !e.contains("Session") {
                sim::violation("peer-error-not-carried", format!("the session was ended by the peer under a pending attach; attach() returned {}", e));
                return;
            }
            sim::probe("pending-attach-failed-with-session");
        }
        (_, Err(e)) => {
            sim::violation("attach-failed", format!("attach against a willing peer failed: {}", e));
            return;
        }
        (_, Ok(link)) => {
            // idle for a moment: the peer acts now
            go_on.put(());
            if sim::op("the peer's deed", peer_acted.take()).await.is_none() {
                return;
            }
            sim::sleep_ms(pick(&[1u64, 50, 2000])).await;
            world::quiesce_pair(&net).await;
            // the application's next operation on the link
            let r = match link {
                L::S(s) if script == Script::DetachAnsweredByClose => {
                    let r1 = match sim::op("detach answered by a closing detach", s.detach()).await {
                        Some(Ok(d)) => {
                            if choice(2) == 0 { kept.push(Box::new(d)); }
                            "Ok(())".to_string()
                        }
                        Some(Err((d, e))) => {
                            if choice(2) == 0 { kept.push(Box::new(d)); }
                            format!("Err({:?})", e)
                        }
                        None => return,
                    };
                    (r1.clone(), r1)
                }
                L::R(rc) if script == Script::DetachAnsweredByClose => {
                    let r1 = match sim::op("detach answered by a closing detach", rc.detach()).await {
                        Some(Ok(d)) => {
                            if choice(2) == 0 { kept.push(Box::new(d)); }
                            "Ok(())".to_string()
                        }
                        Some(Err((d, e))) => {
                            if choice(2) == 0 { kept.push(Box::new(d)); }
                            format!("Err({:?})", e)
                        }
                        None => return,
                    };
                    (r1.clone(), r1)
                }
                L::S(mut s) => {
                    let r1 = if learn_by_on_detach && script != Script::SessionEndedByPeer {
                        match sim::op("on_detach on the link under test", s.on_detach()).await {
                            Some(e) => format!("Err({:?})", e),
                            None => return,
                        }
                    } else {
                        match sim::op("send on the link under test", s.send(msgs::gen_message(1, 50, 1))).await {
                            Some(r) => format!("{:?}", r),
                            None => return,
                        }
                    };
                    // a send is an operation on the link: it learns of the peer's detach, reports it, and
                    // the answer to the peer is on the wire by the time it has returned (on_detach() only
                    // tells; the answer then comes with the operation after it)
                    if !(learn_by_on_detach && script != Script::SessionEndedByPeer) && matches!(script, Script::IdleLinkClosedByPeer | Script::IdleLinkDetachedByPeer) {
                        world::quiesce_pair(&net).await;
                        mon.borrow_mut().sync();
                        let answered = mon.borrow().ends[0].sessions.iter().flat_map(|s| s.links.iter()).any(|l| l.name == "under-test" && l.detached);
                        if !answered {
                            sim::violation(
                                "peer-detach-not-answered",
                                format!("the peer detached the link (with error: {}); the application's next operation on it, a send, returned {} and no detach has been written in answer", with_error, r1),
                            );
                            return;
                        }
                        sim::probe("peer-detach-answered-by-the-failing-send");
                    }
                    let use_detach = (script == Script::IdleLinkDetachedByPeer && !close_after_peer_detach) || (script == Script::IdleLinkClosedByPeer && answer_with_detach);
                    let r2 = if use_detach {
                        match sim::op("detach", s.detach()).await {
                            Some(Ok(d)) => {
                                kept.push(Box::new(d));
                                "Ok(())".to_string()
                            }
                            Some(Err((d, e))) => {
                                kept.push(Box::new(d));
                                format!("Err({:?})", e)
                            }
                            None => return,
                        }
                    } else {
                        match sim::op("close", s.close()).await {
                            Some(r) => format!("{:?}", r),
                            None => return,
                        }
                    };
                    (r1, r2)
                }
                L::R(mut rc) => {
                    let r1 = match sim::op("recv on the link under test", tokio::time::timeout(std::time::Duration::from_secs(30), rc.recv::<fe2o3_amqp::types::messaging::Body<fe2o3_amqp::types::primitives::Value>>())).await {
                        Some(Ok(r)) => format!("{:?}", r.map(|_| ())),
                        Some(Err(_)) => "Pending".to_string(),
                        None => return,
                    };
                    let r2 = match script {
                        Script::IdleLinkDetachedByPeer if !close_after_peer_detach => match sim::op("detach", rc.detach()).await {
                            Some(r) => format!("{:?}", r.map(|_| ()).map_err(|(_, e)| e)),
                            None => return,
                        },
                        _ => match sim::op("close", rc.close()).await {
                            Some(r) => format!("{:?}", r),
                            None => return,
                        },
                    };
                    (r1, r2)
                }
            };
            match script {
                Script::IdleLinkClosedByPeer | Script::IdleLinkDetachedByPeer => {
                    if r.0.starts_with("Ok") {
                        sim::violation("operation-succeeded-after-peer-detach", format!("the peer had detached the link; the next operation returned {}", r.0));
                        return;
                    }
                    if with_error && !(r.0.contains("refused-by-peer") || r.1.contains("refused-by-peer")) {
                        sim::violation("peer-error-not-carried", format!("the peer's detach carried 'refused-by-peer'; the application got {} and {}", r.0, r.1));
                        return;
                    }
                    sim::probe("peer-detach-reported");
                }
                Script::DetachAnsweredByClose => {
                    // the link is closed, not detached: the caller is told so, with the peer's error
                    if r.0.starts_with("Ok") {
                        sim::violation("closing-answer-reported-as-detached", format!("the peer answered the application's detach with a closing detach; detach() returned {}", r.0));
                        return;
                    }
                    if with_error && !r.0.contains("refused-by-peer") {
                        sim::violation("peer-error-not-carried", format!("the peer's closing detach carried 'refused-by-peer'; detach() returned {}", r.0));
                        return;
                    }
                    sim::probe("closing-answer-to-detach-reported");
                }
                Script::SessionEndedByPeer => {
                    session_dead = true;
                    if r.0.starts_with("Ok") {
                        sim::violation("operation-succeeded-after-peer-end", format!("the peer had ended the session; the next link operation returned {}", r.0));
                        return;
                    }
                    sim::probe("peer-end-reported-on-link");
                }
                _ => {}
            }
        }
    }
    // a peer's detach is answered in kind no later than the application's next operation on the link
    if matches!(script, Script::AttachRefused | Script::IdleLinkClosedByPeer | Script::IdleLinkDetachedByPeer | Script::DetachAnsweredByClose) {
        world::quiesce_pair(&net).await;
        mon.borrow_mut().sync();
        let m = mon.borrow();
        // (the latest attach of that name: answering a closing detach to one's own detach takes a re-attach)
        let answered = m.ends[0].sessions.iter().flat_map(|s| s.links.iter()).filter(|l| l.name == "under-test").last().map(|l| (l.detached, l.detach_closed));
        let want_closed = script != Script::IdleLinkDetachedByPeer;
        match answered {
            Some((true, closed)) if closed == want_closed || (closed && !want_closed) => sim::probe("peer-detach-answered-in-kind"),
            other => {
                sim::violation(
                    "peer-detach-not-answered",
                    format!("the peer detached the link (closed={}); after the application's next operation the endpoint's answer on the wire is {:?} (detached, closed)", want_closed, other),
                );
                return;
            }
        }
    }
    // ---- what the protocol leaves alone keeps working
    if !session_dead {
        match sim::op("send on the sibling link", sibling.send(msgs::gen_message(2, 50, 1))).await {
            Some(Ok(_)) => sim::probe("sibling-link-survived"),
            Some(Err(e)) => {
                sim::violation("sibling-link-affected", format!("after {:?} on another link, a send on the sibling link failed: {:?}", script, e));
                return;
            }
            None => return,
        }
        if sim::op("sibling close", sibling.close()).await.is_none() {
            return;
        }
    } else {
        let _ = sim::op("sibling close", sibling.close()).await;
    }
    let end_r = match sim::op("session end", session.end()).await {
        Some(r) => format!("{:?}", r),
        None => return,
    };
    if session_dead {
        if with_error && !end_r.contains("ended-by-peer") {
            sim::violation("peer-error-not-carried", format!("the peer ended the session with 'ended-by-peer'; session.end() returned {}", end_r));
            return;
        }
    } else if !end_r.starts_with("Ok") {
        sim::violation("session-end-result", format!("a session left alone by the peer ended with {}", end_r));
        return;
    }
    // the connection survives whatever happened to the session
    match sim::op("fresh session after the script", sim::in_group(1, Session::begin(&mut client))).await {
        Some(Ok(mut s2)) => {
            if let Some(Err(e)) = sim::op("fresh session end", s2.end()).await {
                sim::violation("connection-affected", format!("a fresh session could not be ended: {:?}", e));
                return;
            }
            sim::probe("connection-survived");
        }
        Some(Err(e)) => {
            sim::violation("connection-affected", format!("after {:?} a fresh session could not be begun: {:?}", script, e));
            return;
        }
        None => return,
    }
    match sim::op("connection close", client.close()).await {
        Some(Ok(())) => {}
        Some(Err(e)) => {
            sim::violation("close-result", format!("the final close returned {:?}", e));
            return;
        }
        None => return,
    }
    let _ = sim::op("peer script", script_done.take()).await;
    drop(kept);
}

// ---------------------------------------------------------------------------------------
// After its own end a session writes nothing on the channel, whatever still arrives there: the
// application ends the session (with or without an error) while links are attached, and the peer,
// before it answers with its end, sends frames that an open session would answer - a link flow
// and a session flow asking for an echo, a transfer to a receiving link, an attach.

pub async fn run_frames_after_local_end() {
    let with_error = choice(2) == 1;
    let with_receiver = choice(2) == 1;
    let ccfg = EndpointCfg::default_cfg();
    let (nab, nba, nd) = world::draw_net(false);
    let stimuli: Vec<u32> = (0..1 + choice(3)).map(|_| choice(4)).collect();
    sim::set_config(format!("variant=frames-after-local-end end-with-error={} receiver-link={} stimuli={:?} {}", with_error, with_receiver, stimuli, nd));
    sim::mark_nontrivial();
    sim::set_panic_is_violation(true);
    let models = Models { sess: true, link: true, ..Models::none() };
    let cvp = match peer::client_vs_peer(&ccfg, peer::open("peer", Some(65536), Some(255), None), nab, nba, models).await {
        Some(x) => x,
        None => return,
    };
    let peer::ClientVsPeer { mut client, mut peer, net, mon, .. } = cvp;
    let bf = sim::in_group(1, Session::begin(&mut client));
    let pb = async {
        let b = peer.expect(wire::BEGIN).await?;
        peer.send(0, &peer::begin(Some(b.channel), 0, 5000, 5000)).await;
        Some(())
    };
    let mut session = match sim::op("begin", world::join2(bf, pb)).await {
        Some((Ok(s), Some(()))) => s,
        _ => return,
    };
    let af = sim::in_group(1, Sender::attach(&mut session, "snd", "q"));
    let pa = async {
        peer.expect(wire::ATTACH).await?;
        peer.send(0, &peer::attach(&AttachArgs::receiver("snd", 7))).await;
        let f = FlowArgs { next_incoming_id: Some(0), incoming_window: 5000, next_outgoing_id: 0, outgoing_window: 5000, handle: Some(7), delivery_count: Some(0), link_credit: Some(100), ..Default::default() };
        peer.send(0, &peer::flow(&f)).await;
        Some(())
    };
    let sender = match sim::op("attach sender", world::join2(af, pa)).await {
        Some((Ok(s), Some(()))) => s,
        _ => return,
    };
    let mut receiver = None;
    if with_receiver {
        let af = sim::in_group(1, Receiver::attach(&mut session, "rcv", "q"));
        let pa = async {
            peer.expect(wire::ATTACH).await?;
            peer.send(0, &peer::attach(&AttachArgs::sender("rcv", 8))).await;
            Some(())
        };
        receiver = match sim::op("attach receiver", world::join2(af, pa)).await {
            Some((Ok(r), Some(()))) => Some(r),
            _ => return,
        };
    }
    let _ = peer::settle(&mut peer, &net, |_| {}).await;
    // the application ends the session; the peer dawdles
    let end = async {
        if with_error {
            let e = fe2o3_amqp::types::definitions::Error::new(fe2o3_amqp::types::definitions::AmqpError::InternalError, Some("local-session-error".to_string()), None);
            format!("{:?}", session.end_with_error(e).await)
        } else {
            format!("{:?}", session.end().await)
        }
    };
    let dawdle = async {
        // wait for the endpoint's end
        loop {
            match peer.recv_within(60_000).await {
                Some(Item::Frame(f)) if f.code == wire::END => break,
                Some(_) => {}
                None => return false,
            }
        }
        sim::fault("frames-sent-after-the-endpoint-ended");
        for k in &stimuli {
            match k {
                0 => {
                    let f = FlowArgs { next_incoming_id: Some(0), incoming_window: 5000, next_outgoing_id: 0, outgoing_window: 5000, handle: Some(7), delivery_count: Some(0), link_credit: Some(50), echo: Some(true), ..Default::default() };
                    peer.send(0, &peer::flow(&f)).await;
                }
                1 => {
                    let f = FlowArgs { next_incoming_id: Some(0), incoming_window: 4000, next_outgoing_id: 0, outgoing_window: 5000, echo: Some(true), ..Default::default() };
                    peer.send(0, &peer::flow(&f)).await;
                }
                2 if with_receiver => {
                    let t = crate::peer::TransferArgs { handle: 8, delivery_id: Some(0), delivery_tag: Some(vec![1]), message_format: Some(0), settled: Some(false), ..Default::default() };
                    peer.send_with_payload(0, &peer::transfer(&t), &msgs::encode(&msgs::gen_message(5, 40, 1))).await;
                }
                _ => {
                    peer.send(0, &peer::attach(&AttachArgs::sender("late", 9))).await;
                }
            }
            sim::sleep_ms(pick(&[0u64, 1, 30])).await;
        }
        let _ = peer.drain_for(pick(&[1u64, 50, 500])).await;
        peer.send(0, &peer::end(None)).await;
        true
    };
    let (end_r, ok) = match sim::op("end while the peer keeps sending", world::join2(end, dawdle)).await {
        Some(x) => x,
        None => return,
    };
    if !ok {
        sim::violation("end-not-sent", "the application ended the session and no end frame reached the peer".into());
        return;
    }
    let _ = peer::settle(&mut peer, &net, |_| {}).await;
    let _ = peer.drain_for(200).await;
    // the wire model (one end, nothing on the channel afterwards) has judged every frame by now
    mon.borrow_mut().sync();
    if sim::has_violation() {
        return;
    }
    if !with_error && !end_r.starts_with("Ok") {
        sim::violation("session-end-result", format!("end() against a peer that answered with a plain end returned {}", end_r));
        return;
    }
    sim::probe("nothing-written-after-local-end");
    drop(sender);
    drop(receiver);
    let td = async {
        let _ = tokio::time::timeout(std::time::Duration::from_secs(20), client.close()).await;
    };
    let _ = world::join2(td, peer::serve_teardown(&mut peer, 10_000)).await;
}

// ---------------------------------------------------------------------------------------
// "Ending a session or dropping a handle flushes what was already queued": a detach queued behind
// transfers that the session holds back for the peer's incoming window. The peer reopens the window
// by exactly the number of transfers held back and then waits - it sends no further flow: the
// transfers and then the detach must come out all the same.

pub async fn run_detach_behind_held_transfers() {
    let w = 1 + choice(3);
    let h = 1 + choice(3);
    let teardown = choice(3); // 0 close, 1 detach, 2 drop
    let ccfg = EndpointCfg::default_cfg();
    let (nab, nba, nd) = world::draw_net(false);
    let nio = pick(&[0u32, 7, u32::MAX - 1]);
    sim::set_config(format!("variant=detach-behind-held-transfers peer-window={} held={} teardown={} next-outgoing-id={} {}", w, h, ["close", "detach", "drop"][teardown as usize], nio, nd));
    sim::mark_nontrivial();
    sim::set_panic_is_violation(true);
    let models = Models { sess: true, link: true, ..Models::none() };
    let cvp = match peer::client_vs_peer(&ccfg, peer::open("peer", Some(65536), Some(255), None), nab, nba, models).await {
        Some(x) => x,
        None => return,
    };
    let peer::ClientVsPeer { mut client, mut peer, net, mon, .. } = cvp;
    let bf = sim::in_group(1, Session::builder().next_outgoing_id(nio).begin(&mut client));
    let pb = async {
        let b = peer.expect(wire::BEGIN).await?;
        peer.send(0, &peer::begin(Some(b.channel), 0, w, 5000)).await;
        Some(())
    };
    let mut session = match sim::op("begin", world::join2(bf, pb)).await {
        Some((Ok(s), Some(()))) => s,
        _ => return,
    };
    let af = sim::in_group(
        1,
        Sender::builder().name("snd").target("q").sender_settle_mode(fe2o3_amqp::types::definitions::SenderSettleMode::Settled).attach(&mut session),
    );
    let pa = async {
        peer.expect(wire::ATTACH).await?;
        let mut a = AttachArgs::receiver("snd", 7);
        a.snd_settle_mode = Some(1);
        peer.send(0, &peer::attach(&a)).await;
        let f = FlowArgs { next_incoming_id: Some(nio), incoming_window: w, next_outgoing_id: 0, outgoing_window: 5000, handle: Some(7), delivery_count: Some(0), link_credit: Some(100), ..Default::default() };
        peer.send(0, &peer::flow(&f)).await;
        Some(())
    };
    let sender = match sim::op("attach sender", world::join2(af, pa)).await {
        Some((Ok(s), Some(()))) => s,
        _ => return,
    };
    let total = (w + h) as usize;
    let app = async {
        let mut sender = sender;
        for i in 0..total {
            if let Err(e) = sender.send(msgs::gen_message(300 + i as u64, 60, 1)).await {
                return format!("send #{} failed: {:?}", i, e);
            }
        }
        match teardown {
            0 => format!("{:?}", sender.close().await),
            1 => format!("{:?}", sender.detach().await.map(|_| ()).map_err(|(_, e)| e)),
            _ => {
                drop(sender);
                "Ok(dropped)".to_string()
            }
        }
    };
    let script = async {
        // the first w transfers fit the window
        let mut transfers = 0u32;
        let mut frames = Vec::new();
        if !peer::settle(&mut peer, &net, |f| frames.push(f.clone())).await {
            return Err("no quiescence".to_string());
        }
        for f in &frames {
            if f.code == wire::TRANSFER {
                transfers += 1;
            }
            if f.code == wire::DETACH {
                return Err(format!("the detach overtook {} transfers held for the window", w + h - transfers));
            }
        }
        if transfers != w {
            return Err(format!("peer window {}: {} transfers arrived before the window was reopened", w, transfers));
        }
        // reopen by exactly the number held back; nothing more from the peer after this
        let f = FlowArgs { next_incoming_id: Some(nio.wrapping_add(w)), incoming_window: h, next_outgoing_id: 0, outgoing_window: 5000, ..Default::default() };
        peer.send(0, &peer::flow(&f)).await;
        sim::fault("window-reopened-by-exactly-the-held-count");
        let deadline = tokio::time::Instant::now() + std::time::Duration::from_secs(120);
        let mut detach = None;
        while detach.is_none() {
            if tokio::time::Instant::now() >= deadline || peer.eof {
                return Err(format!(
                    "the peer reopened its window by {} for the {} transfers held back; {} transfers arrived, the {} queued behind them never did",
                    h,
                    h,
                    transfers - w,
                    if teardown == 1 { "detach" } else { "closing detach" }
                ));
            }
            for f in peer.drain_for(20).await {
                if f.code == wire::TRANSFER {
                    if detach.is_some() {
                        return Err("a transfer followed the detach".to_string());
                    }
                    transfers += 1;
                }
                if f.code == wire::DETACH {
                    detach = Some(f);
                }
            }
        }
        if transfers != w + h {
            return Err(format!("the detach arrived after {} of {} transfers", transfers, w + h));
        }
        let closed = detach.unwrap().perf.as_ref().unwrap().field(1).as_bool().unwrap_or(false);
        peer.send(0, &peer::detach(7, closed, None)).await;
        Ok(())
    };
    let (app_r, script_r) = match sim::op("teardown behind held transfers", world::join2(app, script)).await {
        Some(x) => x,
        None => return,
    };
    mon.borrow_mut().sync();
    if sim::has_violation() {
        return;
    }
    if let Err(e) = script_r {
        sim::violation("queued-detach-not-flushed", e);
        return;
    }
    if !app_r.starts_with("Ok") {
        sim::violation("teardown-result", format!("the peer answered in kind; the call returned {}", app_r));
        return;
    }
    sim::probe("detach-flushed-behind-held-transfers");
    let td = async {
        let _ = tokio::time::timeout(std::time::Duration::from_secs(20), session.end()).await;
        let _ = tokio::time::timeout(std::time::Duration::from_secs(20), client.close()).await;
    };
    let _ = world::join2(td, peer::serve_teardown(&mut peer, 10_000)).await;
}

// ---------------------------------------------------------------------------------------
// The peer takes its time over a detach and the application does not wait for it

/// The application detaches or closes a link under a time-out; the peer has read the detach and
/// answers only after the time-out has expired and the application has let go of the handle. One
/// detach went out for that attach and no second one may follow (the wire model says so: a detach
/// for a handle that is no longer attached); the session stays usable: the late answer is taken,
/// and another link attaches and sends.
pub async fn run_detach_answered_late() {
    let closing = choice(2) == 1;
    let receiver_role = choice(2) == 1;
    let ccfg = EndpointCfg::default_cfg();
    let (nab, nba, nd) = world::draw_net(false);
    sim::set_config(format!("variant=detach-answered-late call={} endpoint-link={} {}", if closing { "close() under a time-out" } else { "detach_with_timeout()" }, if receiver_role { "receiver" } else { "sender" }, nd));
    sim::mark_nontrivial();
    sim::set_panic_is_violation(true);
    let models = Models { sess: true, link: true, ..Models::none() };
    let cvp = match peer::client_vs_peer(&ccfg, peer::open("peer", Some(65536), Some(255), None), nab, nba, models).await {
        Some(x) => x,
        None => return,
    };
    let peer::ClientVsPeer { mut client, mut peer, net, mon, .. } = cvp;
    let bf = sim::in_group(1, Session::begin(&mut client));
    let pb = async {
        let b = peer.expect(wire::BEGIN).await?;
        peer.send(0, &peer::begin(Some(b.channel), 0, 5000, 5000)).await;
        Some(())
    };
    let mut session = match sim::op("begin", world::join2(bf, pb)).await {
        Some((Ok(s), Some(()))) => s,
        _ => return,
    };
    // the link under test: peer handle 8
    enum L {
        S(Sender),
        R(Receiver),
    }
    let pa = async {
        let a = peer.expect(wire::ATTACH).await?;
        let ep_handle = a.perf.as_ref().unwrap().field(1).as_u32().unwrap_or(0);
        let args = if receiver_role { AttachArgs::sender("lazy", 8) } else { AttachArgs::receiver("lazy", 8) };
        peer.send(0, &peer::attach(&args)).await;
        if !receiver_role {
            let f = FlowArgs { next_incoming_id: Some(0), incoming_window: 5000, next_outgoing_id: 0, outgoing_window: 5000, handle: Some(8), delivery_count: Some(0), link_credit: Some(10), ..Default::default() };
            peer.send(0, &peer::flow(&f)).await;
        }
        Some(ep_handle)
    };
    let link = if receiver_role {
        match sim::op("attach", world::join2(sim::in_group(1, Receiver::attach(&mut session, "lazy", "q")), pa)).await {
            Some((Ok(r), Some(_))) => L::R(r),
            _ => return,
        }
    } else {
        match sim::op("attach", world::join2(sim::in_group(1, Sender::attach(&mut session, "lazy", "q")), pa)).await {
            Some((Ok(s), Some(_))) => L::S(s),
            _ => return,
        }
    };
    // the call, bounded by a time-out the peer does not meet; whatever it hands back is dropped
    let t = std::time::Duration::from_millis(pick(&[50u64, 300]));
    let r = match link {
        L::S(s) => {
            if closing {
                format!("{:?}", tokio::time::timeout(t, s.close()).await.map(|r| r.map(|_| ())))
            } else {
                format!("{:?}", s.detach_with_timeout(t).await.map(|r| r.map(|_| ()).map_err(|(_, e)| e)))
            }
        }
        L::R(rc) => {
            if closing {
                format!("{:?}", tokio::time::timeout(t, rc.close()).await.map(|r| r.map(|_| ())))
            } else {
                format!("{:?}", rc.detach_with_timeout(t).await.map(|r| r.map(|_| ()).map_err(|(_, e)| e)))
            }
        }
    };
    if !r.contains("Elapsed") {
        sim::violation("teardown-returned-without-answer", format!("the peer had not answered the detach; the call returned {}", r));
        return;
    }
    sim::fault("teardown-call-timed-out-and-handle-dropped");
    // everything the endpoint wants to write after that
    let mut frames: Vec<wire::WFrame> = Vec::new();
    if !peer::settle(&mut peer, &net, |f| frames.push(f.clone())).await {
        return;
    }
    frames.extend(std::mem::take(&mut peer.skipped));
    mon.borrow_mut().sync();
    if sim::has_violation() {
        return;
    }
    let detaches: Vec<&wire::WFrame> = frames.iter().filter(|f| f.code == wire::DETACH).collect();
    if detaches.len() != 1 {
        sim::violation("detach-count", format!("one attach, one abandoned teardown call, handle dropped: the endpoint wrote {} detach frames: {:?}", detaches.len(), detaches.iter().map(|f| wire::describe_frame(f)).collect::<Vec<_>>()));
        return;
    }
    let closed = detaches[0].perf.as_ref().unwrap().field(1).as_bool().unwrap_or(false);
    // the late answer, in kind
    peer.send(0, &peer::detach(8, closed, None)).await;
    sim::probe("detach-answered-after-the-caller-gave-up");
    // the session goes on: another link on the handle the peer has just freed
    let af = sim::in_group(1, Sender::builder().name("next").target("q").sender_settle_mode(SenderSettleMode::Unsettled).attach(&mut session));
    let pa = async {
        loop {
            let a = peer.expect(wire::ATTACH).await?;
            if a.perf.as_ref().unwrap().field(0).as_str() == Some("next") {
                break;
            }
        }
        peer.send(0, &peer::attach(&AttachArgs::receiver("next", 8))).await;
        let f = FlowArgs { next_incoming_id: Some(0), incoming_window: 5000, next_outgoing_id: 0, outgoing_window: 5000, handle: Some(8), delivery_count: Some(0), link_credit: Some(10), ..Default::default() };
        peer.send(0, &peer::flow(&f)).await;
        Some(())
    };
    let mut next = match sim::op("attach the next link", world::join2(af, pa)).await {
        Some((Ok(s), Some(()))) => s,
        Some((r, _)) => {
            sim::violation("sibling-broken", format!("after the late answer another attach failed: {:?}", r.map(|_| ())));
            return;
        }
        None => return,
    };
    let sf = sim::in_group(1, next.send(msgs::gen_message(4242, 100, 1)));
    let ps = async {
        let t = peer.expect(wire::TRANSFER).await?;
        let id = t.perf.as_ref().unwrap().field(1).as_u32().unwrap_or(0);
        peer.send(0, &peer::disposition(true, id, None, true, Some(peer::accepted()))).await;
        Some(())
    };
    match sim::op("send on the next link", world::join2(sf, ps)).await {
        Some((Ok(_), Some(()))) => sim::probe("sibling-link-survived"),
        Some((r, _)) => {
            sim::violation("sibling-broken", format!("send on the next link: {:?}", r.map(|_| ())));
            return;
        }
        None => return,
    }
    mon.borrow_mut().sync();
    if sim::has_violation() {
        return;
    }
    let td = async {
        let _ = tokio::time::timeout(std::time::Duration::from_secs(20), next.close()).await;
        let _ = tokio::time::timeout(std::time::Duration::from_secs(20), session.end()).await;
        let _ = tokio::time::timeout(std::time::Duration::from_secs(20), client.close()).await;
    };
    let _ = world::join2(td, peer::serve_teardown(&mut peer, 30_000)).await;
}
